"""C23 (the parser is total) and C24 (no panics, no silent wrap-around).
The TLA+ side contributes the input models (MC_Parser, MC_Hostile, MC_Arith), the exact boundary arithmetic (Arith.tla) and the
outcome alphabets (TraceArith.tla); the harness executes and classifies, TLC decides."""
import json
import os
import time

import engine_check as ec
import vcommon as vc
from props_base import prop


def _chunked(prop_id, tag, steps, n):
    return [{"id": "%s-%s-%04d" % (prop_id, tag, i // n), "steps": steps[i:i + n]} for i in range(0, len(steps), n)]


def _outcomes(events, kinds):
    cnt = {}
    with open(events) as fh:
        for ln in fh:
            e = json.loads(ln)
            k = e["a"].get("a")
            if k in kinds:
                key = "%s/%s" % (k, e["out"]) if k != "arith" else "arith/%s" % e.get("o", {}).get("k")
                cnt[key] = cnt.get(key, 0) + 1
    return cnt


@prop("C23")
def check_c23(prop_id, tier, seed):
    t0 = time.time()
    deps = []
    agg = {"states_generated": 0, "distinct_states": 0, "mc_ok": True, "exhaustive": True}
    small, s1 = vc.gen_scenarios(prop_id, "MC_Parser", "MC_Parser.cfg", deps, consts={"Mode": '"small"', "MaxLen": {"quick": 2, "thorough": 3}[tier]}, workers=1)
    mut, s2 = vc.gen_scenarios(prop_id, "MC_Parser", "MC_Parser.cfg", deps, consts={"Mode": '"mut"', "MaxMut": 1}, workers=1)
    nest, s3 = vc.gen_scenarios(prop_id, "MC_Parser", "MC_Parser.cfg", deps, consts={"Mode": '"nest"'}, workers=1)
    flat = lambda scs: [st for sc in scs for st in sc["steps"]]
    inproc = _chunked(prop_id, "small", flat(small), 400) + _chunked(prop_id, "mut", flat(mut), 400)
    # shallow nesting runs in-process too; deep nesting may overflow the stack, which kills the process: isolated children
    nsteps = flat(nest)
    if tier == "quick":
        nsteps = [s for s in nsteps if s["n"] <= 10000]
    iso = _chunked(prop_id, "nest", nsteps, 1)
    parts = [{"name": "inproc", "scenarios": inproc, "configs": [{"name": "default", "args": ["--no-state"]}]},
             {"name": "nest", "scenarios": iso, "configs": [{"name": "default", "args": ["--no-state", "--isolate"]}]}]
    wd = os.path.join(vc.RUN, "work_%s" % prop_id)
    verdict, events, _ = ec.run_parts(prop_id, parts, wd, trace_module="TraceArith", trace_cfg="TraceArith.cfg")
    agg["states_generated"] = agg["distinct_states"] = len(flat(small)) + len(flat(mut)) + len(nsteps)
    return ec.finish(prop_id, tier, seed, t0, verdict, events, agg, level="exploration", trace_module="TraceArith",
                     rule="one evaluation = one input text handed to Parser::parse_sql; inputs are grouped 400 per scenario (deeply nested "
                          "inputs one per scenario, each in its own child process); distinct = distinct input texts",
                     extra_cov={"inputs_small_scope": len(flat(small)), "inputs_mutated_seeds": len(flat(mut)), "inputs_nested": len(nsteps),
                                "outcomes": _outcomes(events, ("parse", "nest")),
                                # non-trivial = an input of at least two tokens / a nested input (counted per input, not per scenario)
                                "distinct_nontrivial": sum(1 for s in flat(small) + flat(mut) if len(s.get("toks", [])) >= 2) + len(nsteps)},
                     configs=[{"name": "default", "args": ["--no-state"]}])


@prop("C24")
def check_c24(prop_id, tier, seed):
    t0 = time.time()
    agg = {"mc_ok": True, "exhaustive": True}
    hostile, s1 = vc.gen_scenarios(prop_id, "MC_Hostile", "MC_Hostile.cfg", [], workers=1)
    arith, s2 = vc.gen_scenarios(prop_id, "MC_Arith", "MC_Arith.cfg", ["Arith.tla"], workers=1)
    asteps = [st for sc in arith for st in sc["steps"]]
    parts = [{"name": "hostile", "scenarios": [{"id": "%s-h-%04d" % (prop_id, i), "steps": s["steps"]} for i, s in enumerate(hostile)],
              "configs": [{"name": "default", "args": ["--no-state", "--isolate"]}]},
             {"name": "arith", "scenarios": _chunked(prop_id, "arith", asteps, 150), "configs": [{"name": "default", "args": ["--no-state"]}]}]
    wd = os.path.join(vc.RUN, "work_%s" % prop_id)
    verdict, events, _ = ec.run_parts(prop_id, parts, wd, trace_module="TraceArith", trace_cfg="TraceArith.cfg")
    agg["states_generated"] = agg["distinct_states"] = len(hostile) + len(asteps)
    return ec.finish(prop_id, tier, seed, t0, verdict, events, agg, trace_module="TraceArith",
                     rule="hostile part: one scenario = setup, one hostile statement, one sanity statement, in its own child process; "
                          "arithmetic part: one evaluation = one (operator, operand pair, context) probe",
                     extra_cov={"hostile_statements": len(hostile), "arithmetic_probes": len(asteps),
                                "outcomes": _outcomes(events, ("sql", "sane", "arith")),
                                # every hostile scenario runs setup + statement + sanity statement; every arithmetic probe is one evaluation
                                "distinct_nontrivial": len(hostile) + len(asteps)},
                     configs=[{"name": "default", "args": ["--no-state"]}])
