"""C17: the disk-backed B+ tree behaves as an ordered multimap (spec/BTree.tla).

GEN   spec/MC_BTree.tla  - exhaustive small-scope op sequences from boundary-directed prefixes (Mode "exh"), long random
                           walks with grow/shrink phases (TLC -simulate, Mode "sim"), close/re-open (Mode "reopen"), and the
                           key universes + probe batteries (Mode "probes"); TLC also checks the model's own laws.
RUN   harness vq_btree   - public BTreeIndex API over a PageManager on a temp directory; after a call: lookup of every key of
                           the universe, the range scans / multi-lookups of the battery, a decoded dump of the reachable pages.
VAL   spec/TraceBTree.tla - every outcome, return value, probe answer and dump against the multimap (acceptance sets).
No expected value lives here: this module only moves TLC's output into the harness and the harness' log into TLC."""
import concurrent.futures
import hashlib
import itertools
import json
import os
import shutil
import threading
import time

import engine_check as ec
import vcommon as vc
from props_base import prop

MODULE = "MC_BTree"
DEPS = ["BTree.tla", MODULE + ".tla"]
HARNESS = "vq_btree"
TRACE = "TraceBTree"
_seq = itertools.count()
_lock = threading.Lock()


def _cfg_text(consts):
    text = open(os.path.join(vc.SPEC, MODULE + ".cfg")).read()
    import re
    for k, v in consts.items():
        text, n = re.subn(r"(?m)^(\s*%s\s*=).*$" % re.escape(k), lambda mo: "%s %s" % (mo.group(1), v), text)
        if n != 1:
            raise vc.ToolError("constant %s not found in %s.cfg" % (k, MODULE))
    return text


def gen(consts, simulate=None, extra=None, timeout=3000):
    """One TLC run of MC_BTree; returns (histories, stats).  Cached by spec hash + configuration (run/cache).
    Unlike vcommon.gen_scenarios this may be called from several threads and passes -depth / -seed to the simulator."""
    text = _cfg_text(consts)
    key = vc.spec_hash(DEPS) + hashlib.sha256((text + repr(simulate) + repr(extra)).encode()).hexdigest()[:12]
    cdir = os.path.join(vc.RUN, "cache")
    os.makedirs(cdir, exist_ok=True)
    cpath = os.path.join(cdir, "%s_%s.json" % (MODULE, key))
    if os.path.exists(cpath):
        with open(cpath) as fh:
            d = json.load(fh)
        return d["hists"], d["stats"]
    with _lock:
        n = next(_seq)
    tag = "%d_%d" % (os.getpid(), n)
    cfg_run = os.path.join(vc.SPEC, "_run_%s_%s.cfg" % (MODULE, tag))
    wd = os.path.join(vc.RUN, "gen_C17_%s" % tag)
    with open(cfg_run, "w") as fh:
        fh.write(text)
    t0 = time.time()
    try:
        rc, out = vc.tlc(MODULE, os.path.basename(cfg_run), wd, workers=1, timeout=timeout, simulate=simulate, extra=extra)
    finally:
        os.remove(cfg_run)
        shutil.rmtree(wd, ignore_errors=True)
    ok = ("Model checking completed. No error has been found." in out) or (simulate is not None and rc == 0 and "Error:" not in out)
    if not ok:
        tail = "\n".join(l for l in out.splitlines() if not l.startswith('<<"REPLAY"'))[-3000:]
        raise vc.ToolError("TLC reported an error on %s %s:\n%s" % (MODULE, consts, tail))
    g, dist = vc.tlc_stats(out)
    if simulate is not None:
        import re
        mo = re.search(r"The number of states generated: (\d+)", out)
        g = dist = int(mo.group(1)) if mo else 0        # the simulator does not count distinct states
    hists = vc.extract_tagged(out, "REPLAY")
    stats = {"states_generated": g, "distinct_states": dist, "mc_ok": True, "wall": round(time.time() - t0, 1), "consts": consts,
             "simulate": simulate}
    tmp = "%s.%s.tmp" % (cpath, tag)
    with open(tmp, "w") as fh:
        json.dump({"hists": hists, "stats": stats}, fh)
    os.replace(tmp, cpath)
    return hists, stats


BASE = {"Mode": '"exh"', "Family": '"quick"', "DepthCap": 9, "SimLen": 400, "Phase": 100}


def consts(**kw):
    c = dict(BASE)
    for k, v in kw.items():
        c[k] = '"%s"' % v if isinstance(v, str) else v
    return c


def attach(hists, probes, prefix):
    """history -> scenario: the header step receives the concrete universe / battery TLC printed for (schema, nu, stride)."""
    scen = []
    for i, h in enumerate(hists):
        h0 = dict(h[0])
        p = probes[(h0["schema"], h0["nu"], h0["stride"])]
        h0.update(U=p["U"], R=p["R"], M=p["M"])
        scen.append({"id": "%s-%06d" % (prefix, i), "steps": [h0] + list(h[1:])})
    return scen


def run_all(prop_id, parts, workdir):
    """parts: [{name, scenarios, cfg: {name, args}}] -> (verdict, events path).  Chunks are balanced by number of steps."""
    vc.build_harness([HARNESS])
    shutil.rmtree(workdir, ignore_errors=True)
    os.makedirs(workdir, exist_ok=True)
    jobs = []
    for p in parts:
        sc = p["scenarios"]
        if not sc:
            continue
        weight = sum(len(s["steps"]) + 8 for s in sc)
        k = max(1, min(p.get("max_procs", vc.NCPU - 2), weight // 4000, len(sc)))
        chunks = [[] for _ in range(k)]
        loads = [0] * k
        for s in sorted(sc, key=lambda s: -len(s["steps"])):
            j = loads.index(min(loads))
            chunks[j].append(s)
            loads[j] += len(s["steps"]) + 8
        for j, ch in enumerate(chunks):
            ch.sort(key=lambda s: s["id"])
            sp = os.path.join(workdir, "scen_%s_%d.ndjson" % (p["name"], j))
            vc.write_ndjson(sp, ch)
            jobs.append((sp, os.path.join(workdir, "ev_%s_%d.ndjson" % (p["name"], j)), p["cfg"]))
    t0 = time.time()
    with concurrent.futures.ThreadPoolExecutor(max_workers=max(1, vc.NCPU - 2)) as ex:
        list(ex.map(lambda j: vc.run_harness(HARNESS, j[0], j[1], ["--cfg", j[2]["name"]] + j[2].get("args", []), timeout=3000), jobs))
    t_run = time.time() - t0
    events = os.path.join(workdir, "events.ndjson")
    with open(events, "w") as out:
        for sp, ep, _ in jobs:
            with open(ep) as fh:
                shutil.copyfileobj(fh, out)
            os.remove(ep)
            os.remove(sp)
    t0 = time.time()
    nlines = sum(1 for _ in open(events))
    size = os.path.getsize(events)
    shards = max(1, min(vc.NCPU - 3, size // 1500000 + 1, nlines // 50 + 1))
    verdict = vc.validate(TRACE, TRACE + ".cfg", events, os.path.join(workdir, "val"), shards=shards)
    return verdict, events, {"run_s": round(t_run, 1), "val_s": round(time.time() - t0, 1), "event_bytes": size}


def structure_coverage(events_path):
    """Vacuity evidence measured from the recorded page dumps / shapes (not an oracle): which structural transitions of the
    B+ tree the replayed calls went through."""
    cov = {"root_splits": 0, "root_collapses": 0, "leaf_splits": 0, "leaf_merges": 0, "leaf_borrows": 0, "internal_splits": 0,
           "internal_merges": 0, "internal_borrows": 0, "max_height": 0, "heights_seen": set(), "degrees_seen": set(),
           "max_nodes": 0, "outcomes": {}, "max_rids_per_key": 0, "calls_with_shape": 0}
    prev = None
    with open(events_path) as fh:
        for ln in fh:
            e = json.loads(ln)
            a = e["a"]["a"]
            if a == "reset":
                prev = None
                continue
            cov["outcomes"][e.get("out")] = cov["outcomes"].get(e.get("out"), 0) + 1
            d = e.get("dump")
            if d:
                leaves = {n["id"]: set(n["ks"]) for n in d["nodes"] if n["t"] == "L"}
                inner = {n["id"]: set(n["ch"]) for n in d["nodes"] if n["t"] == "I"}
                cur = {"h": d["h"], "lv": leaves, "ni": len(inner), "inner": inner}
                cov["max_nodes"] = max(cov["max_nodes"], len(d["nodes"]))
                cov["degrees_seen"].add(e.get("deg"))
                for n in d["nodes"]:
                    for r in n["rs"]:
                        cov["max_rids_per_key"] = max(cov["max_rids_per_key"], len(r))
            elif e.get("sh"):
                cur = {"h": e["sh"]["h"], "lv": {x[0]: set(x[1]) for x in e["sh"]["lv"]}, "ni": len(e["sh"]["in"]),
                       "inner": {x[0]: set(x[1]) for x in e["sh"]["in"]}}
            else:
                prev = None
                continue
            cov["calls_with_shape"] += 1
            cov["max_height"] = max(cov["max_height"], cur["h"])
            cov["heights_seen"].add(cur["h"])
            if prev is not None and a in ("ins", "del", "dels"):
                if cur["h"] > prev["h"]:
                    cov["root_splits"] += 1
                if cur["h"] < prev["h"]:
                    cov["root_collapses"] += 1
                if len(cur["lv"]) > len(prev["lv"]):
                    cov["leaf_splits"] += 1
                if len(cur["lv"]) < len(prev["lv"]):
                    cov["leaf_merges"] += 1
                dh = cur["h"] - prev["h"]
                if cur["ni"] - max(dh, 0) > prev["ni"]:
                    cov["internal_splits"] += 1
                if cur["ni"] - min(dh, 0) < prev["ni"]:
                    cov["internal_merges"] += 1
                if a in ("del", "dels") and len(cur["lv"]) == len(prev["lv"]):
                    # a key now lives in another leaf than before: borrowed by an underfull neighbour
                    where = {k: i for i, ks in prev["lv"].items() for k in ks}
                    if any(k in where and where[k] != i and where[k] in cur["lv"] for i, ks in cur["lv"].items() for k in ks):
                        cov["leaf_borrows"] += 1
                if a in ("del", "dels") and cur["inner"] and prev.get("inner"):
                    # a child page now hangs under another internal node that existed before: borrowed at the internal level
                    where = {c: i for i, cs in prev["inner"].items() for c in cs}
                    if any(c in where and where[c] != i and where[c] in cur["inner"] and i in prev["inner"]
                           for i, cs in cur["inner"].items() for c in cs):
                        cov["internal_borrows"] += 1
            prev = cur
    cov["heights_seen"] = sorted(cov["heights_seen"])
    cov["degrees_seen"] = sorted(x for x in cov["degrees_seen"] if x is not None)
    return cov


def patch_replays(prop_id, probes):
    """The events echo the header without universe / battery; put them back into the replay files written by finish()."""
    rdir = os.path.join(vc.RUN, "replay", prop_id)
    if not os.path.isdir(rdir):
        return
    for f in os.listdir(rdir):
        p = os.path.join(rdir, f)
        with open(p) as fh:
            r = json.load(fh)
        st = r["scenario"]["steps"]
        if st and "U" not in st[0]:
            pr = probes.get((st[0].get("schema"), st[0].get("nu"), st[0].get("stride")))
            if pr:
                st[0].update(U=pr["U"], R=pr["R"], M=pr["M"])
                with open(p, "w") as fh:
                    json.dump(r, fh, indent=1)


TIERS = {
    # family of the exhaustive part, depth cap, (number, length, phase) of random walks, every n-th scenario also on NativeStorage
    "quick":    {"family": "quick", "cap": 9, "sims": 2, "simlen": 240, "phase": 60, "native_every": 150, "wide": False},
    "thorough": {"family": "thorough", "cap": 9, "sims": 4, "simlen": 1000, "phase": 125, "native_every": 400, "wide": True},
}


@prop("C17")
def check_c17(prop_id, tier, seed):
    t0 = time.time()
    T = TIERS[tier]
    fams = [T["family"], "sim", "reopen", "heavy"] + (["wide"] if T["wide"] else [])
    tasks = {}
    with concurrent.futures.ThreadPoolExecutor(max_workers=6) as ex:
        for f in fams:
            tasks[("probes", f)] = ex.submit(gen, consts(Mode="probes", Family=f))
        tasks[("exh", T["family"])] = ex.submit(gen, consts(Mode="exh", Family=T["family"], DepthCap=T["cap"]))
        if T["wide"]:
            tasks[("exh", "wide")] = ex.submit(gen, consts(Mode="exh", Family="wide", DepthCap=T["cap"]))
        tasks[("reopen", "reopen")] = ex.submit(gen, consts(Mode="reopen", Family="reopen"))
        tasks[("exh", "heavy")] = ex.submit(gen, consts(Mode="exh", Family="heavy"))
        # -simulate: num walks per initial state are not controllable, TLC picks the combination at random per walk
        tasks[("sim", "sim")] = ex.submit(gen, consts(Mode="sim", Family="sim", SimLen=T["simlen"], Phase=T["phase"]),
                                          "num=%d" % (4 * T["sims"]), ["-depth", str(T["simlen"] + 5), "-seed", str(1000 + int(seed))])
        res = {k: f.result() for k, f in tasks.items()}
    probes = {}
    for (mode, f), (hists, _) in res.items():
        if mode == "probes":
            for h in hists:
                probes[(h[0]["schema"], h[0]["nu"], h[0]["stride"])] = h[0]
    agg = {"states_generated": 0, "distinct_states": 0, "mc_ok": True, "exhaustive": True}
    gen_detail = {}
    for (mode, f), (hists, st) in res.items():
        agg["states_generated"] += st["states_generated"]
        agg["distinct_states"] += st["distinct_states"]
        gen_detail["%s/%s" % (mode, f)] = {"scenarios": len(hists), "states_generated": st["states_generated"],
                                           "distinct_states": st["distinct_states"], "wall_s": st["wall"]}
    default = {"name": "default", "args": ["--storage", "nosync"]}
    native = {"name": "native", "args": ["--storage", "native"]}
    parts = []
    exh = attach(res[("exh", T["family"])][0], probes, "%s-exh" % prop_id)
    parts.append({"name": "exh", "scenarios": exh, "cfg": default})
    parts.append({"name": "exhnat", "scenarios": exh[::T["native_every"]], "cfg": native, "max_procs": 3})
    if T["wide"]:
        parts.append({"name": "wide", "scenarios": attach(res[("exh", "wide")][0], probes, "%s-wide" % prop_id), "cfg": default})
    sims = attach(res[("sim", "sim")][0], probes, "%s-sim" % prop_id)
    parts.append({"name": "sim", "scenarios": sims, "cfg": default})
    reopen = attach(res[("reopen", "reopen")][0], probes, "%s-reopen" % prop_id)
    parts.append({"name": "reopen", "scenarios": reopen, "cfg": default})
    parts.append({"name": "reopennat", "scenarios": [s for s in reopen if s["steps"][-1]["a"] == "reopen"], "cfg": native, "max_procs": 3})
    parts.append({"name": "heavy", "scenarios": attach(res[("exh", "heavy")][0], probes, "%s-heavy" % prop_id), "cfg": default})
    wd = os.path.join(vc.RUN, "work_%s" % prop_id)
    verdict, events, timing = run_all(prop_id, parts, wd)
    cov = structure_coverage(events)
    cnt = verdict["cnt"]
    extra = {"gen": gen_detail, "timing": timing, "structure": cov,
             "calls": {k: cnt.get(k, 0) for k in ("new", "bulk", "seq", "ins_new", "ins_dup", "del_t", "del_f", "dels_t", "dels_f", "reload", "reopen")},
             "probe_answers": {k: cnt.get(k, 0) for k in ("look_hit", "look_miss", "range_nonempty", "range_empty")},
             "probed_events": cnt.get("probed", 0),
             "random_walks": {"n": len(sims), "length": T["simlen"], "seed": 1000 + int(seed)},
             "exhaustive_note": "the exhaustive part enumerates every call sequence of the window alphabet up to the depth of each "
                                "combination (identified up to the resulting multimap); the random walks are a sample"}
    code = ec.finish(prop_id, tier, seed, t0, verdict, events, agg, configs=[default, native], harness_bin=HARNESS, trace_module=TRACE,
                     rule="one scenario = one history of B+ tree calls printed by TLC (exhaustive window enumeration, random walk, or "
                          "re-open), replayed on a fresh index file; distinct = distinct rendered history per storage configuration; "
                          "non-trivial = at least one successful insert/delete and a second insert/delete",
                     assumptions=["TLC evaluates the specification correctly",
                                  "the harness' concretisation of ranks into SqlValue keys and its page decoder (layout of btree/serialize.rs) are faithful",
                                  "row-id lists stay far below the page capacity (at most a handful of row ids per key)",
                                  "fsync is a no-op in configuration 'default' (NativeStorage otherwise unchanged); a sample and the re-open family run on NativeStorage itself"],
                     extra_cov=extra)
    patch_replays(prop_id, probes)
    return code
