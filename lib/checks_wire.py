"""C27 / C28 / C29: the server's wire protocol and password authentication.

GEN  TLC enumerates byte streams (MC_Wire), backend messages (MC_WireEnc) and password-store histories with their
     probe sets (MC_Auth) and checks the theorems of the reference models (Wire.tla, Auth.tla).
RUN  vq_wire / vq_auth replay them into the server's real protocol/messages.rs and auth/password.rs (compiled into the
     harness from /repo's working tree) and log one event per call.
VAL  TLC (TraceWire / TraceAuth) decides every recorded answer.  Nothing in this file or in the harness knows an
     expected answer; the only computation done here is INPUT construction for C29 (the concrete strings of an abstract
     request, with the MD5 digests made by hashlib)."""
import collections
import hashlib
import json
import os
import time

import engine_check as ec
import vcommon as vc
from props_base import prop

WIRE_DEPS = ["Wire.tla"]
AUTH_DEPS = ["Auth.tla"]
KEEP_PER_CLASS = 8        # replay files / VIOLATION candidates kept per mismatch class (all are counted in the evidence)
ASSUME = ["TLC evaluates the specification correctly",
          "harness concretisation (abstract action -> bytes / API call) and projection (answer -> outcome class, message "
          "record, buffer contents) are faithful"]


def _agg(agg, stats):
    for k in ("states_generated", "distinct_states"):
        agg[k] = agg.get(k, 0) + stats.get(k, 0)
    agg["wall"] = round(agg.get("wall", 0) + stats.get("wall", 0), 1)
    agg["mc_ok"] = agg.get("mc_ok", True) and stats.get("mc_ok", False)


def _measure(events_path, nontrivial):
    """Counts measured from the recorded events: calls per (action, outcome), scenarios, non-trivial scenarios."""
    calls = collections.Counter()
    per = {}
    with open(events_path) as fh:
        for ln in fh:
            if not ln.strip():
                continue
            e = json.loads(ln)
            a = e["a"]["a"]
            per.setdefault((e["sc"], e["cfg"]), []).append((a, e["out"]))
            if a != "reset":
                calls["%s:%s" % (a, e["out"])] += 1
    return {"calls_by_action_and_outcome": dict(sorted(calls.items())),
            "distinct_nontrivial": sum(1 for v in per.values() if nontrivial(v))}


def _thin(verdict, key):
    """Keep at most KEEP_PER_CLASS mismatches per class for replay files; report the full counts."""
    classes = collections.Counter()
    kept = []
    for b in verdict["bad"]:
        k = key(b)
        classes[k] += 1
        if classes[k] <= KEEP_PER_CLASS:
            kept.append(b)
    # the trace specs keep a bounded number of mismatch records per kind and shard but count every mismatch
    by_kind = {k[4:]: v for k, v in sorted(verdict["cnt"].items()) if k.startswith("bad:")}
    verdict = dict(verdict)
    verdict["bad"] = kept
    return verdict, {"mismatches_total": sum(by_kind.values()), "mismatches_by_kind": by_kind,
                     "mismatch_records_kept_by_class": {" ".join(map(str, k)): n for k, n in sorted(classes.items())}}


def _run_wide(prop_id, scen, harness_bin, args, trace_module):
    """RUN + VAL like engine_check.run_parts, but with many small chunks: an Argon2 verification costs ~20 ms, so the
    scenario list is spread over all cores however short it is."""
    import concurrent.futures
    import shutil
    vc.build_harness([harness_bin])
    wd = os.path.join(vc.RUN, "work_%s" % prop_id)
    shutil.rmtree(wd, ignore_errors=True)
    os.makedirs(wd)
    k = max(1, min(vc.NCPU - 2, len(scen) // 20))
    size = (len(scen) + k - 1) // k
    jobs = []
    for j in range(k):
        sp, ep = os.path.join(wd, "scen_%d.ndjson" % j), os.path.join(wd, "ev_%d.ndjson" % j)
        vc.write_ndjson(sp, scen[j * size:(j + 1) * size])
        jobs.append((sp, ep))
    with concurrent.futures.ThreadPoolExecutor(max_workers=len(jobs)) as ex:
        list(ex.map(lambda job: vc.run_harness(harness_bin, job[0], job[1], ["--cfg", "default"] + args), jobs))
    events = os.path.join(wd, "events.ndjson")
    with open(events, "w") as out:
        for _, ep in jobs:
            with open(ep) as fh:
                shutil.copyfileobj(fh, out)
            os.remove(ep)
    return vc.validate(trace_module, trace_module + ".cfg", events, os.path.join(wd, "val")), events


def _spec_cov(verdict, prefixes):
    return {k: v for k, v in sorted(verdict["cnt"].items()) if k.split(":")[0] in prefixes}


# ---------------------------------------------------------------- C27: frontend decoding
C27_BOUNDS = {
    "quick":    {"MaxPay": 3, "MaxBody": 4, "Cuts": '"one"'},
    "thorough": {"MaxPay": 4, "MaxBody": 5, "Cuts": '"few"'},
}


@prop("C27")
def check_c27(prop_id, tier, seed):
    t0 = time.time()
    agg, scen = {"exhaustive": True}, []
    per_family = {}
    for fam in ("reg", "startup", "wf"):
        consts = dict(C27_BOUNDS[tier], Family='"%s"' % fam)
        s, st = vc.gen_scenarios(prop_id, "MC_Wire", "MC_Wire.cfg", WIRE_DEPS, consts=consts, workers=1)
        if not s:
            raise vc.ToolError("MC_Wire produced no scenarios for family %s" % fam)
        _agg(agg, st)
        per_family[fam] = len(s)
        scen += [{"id": "%s-%s" % (x["id"], fam), "steps": x["steps"]} for x in s]
    # the scenario generator is a pure enumeration (one TLC state); report the enumerated inputs as the explored space
    agg["distinct_states"] = agg["states_generated"] = len(scen)
    parts = [{"name": "wire", "scenarios": scen, "configs": [{"name": "default", "args": []}]}]
    verdict, events, _ = ec.run_parts(prop_id, parts, os.path.join(vc.RUN, "work_%s" % prop_id),
                                      trace_module="TraceWire", trace_cfg="TraceWire.cfg", harness_bin="vq_wire")
    cov = _measure(events, lambda v: any(a == "dec" and o != "need" for a, o in v))
    cov["scenarios_per_family"] = per_family
    cov["bounds"] = C27_BOUNDS[tier]
    cov["decode_calls_by_reference_class_and_observed_outcome"] = _spec_cov(verdict, ("spec", "obs"))
    verdict, thin = _thin(verdict, lambda b: (b.get("a"), b.get("what"), "exp=" + str(b.get("exp")), "obs=" + str(b.get("obs"))))
    cov.update(thin)
    return ec.finish(prop_id, tier, seed, t0, verdict, events, agg, harness_bin="vq_wire", trace_module="TraceWire",
                     assumptions=ASSUME, configs=parts[0]["configs"],
                     rule="each scenario is one byte stream enumerated by TLC together with a delivery schedule, replayed as "
                          "feed / decode calls on the real FrontendMessage decoder; distinct = distinct rendered call history; "
                          "non-trivial = at least one decode call answered with a message, an error or a panic (not only "
                          "'need more bytes')",
                     extra_cov=cov)


# ---------------------------------------------------------------- C28: backend encoding
C28_BOUNDS = {
    "quick":    {"MaxList": 2, "Long": "TRUE"},
    "thorough": {"MaxList": 3, "Long": "TRUE"},
}


@prop("C28")
def check_c28(prop_id, tier, seed):
    t0 = time.time()
    scen, stats = vc.gen_scenarios(prop_id, "MC_WireEnc", "MC_WireEnc.cfg", WIRE_DEPS, consts=C28_BOUNDS[tier], workers=1)
    if not scen:
        raise vc.ToolError("MC_WireEnc produced no scenarios")
    stats["exhaustive"] = True
    stats["distinct_states"] = stats["states_generated"] = len(scen)
    parts = [{"name": "enc", "scenarios": scen, "configs": [{"name": "default", "args": []}]}]
    verdict, events, _ = ec.run_parts(prop_id, parts, os.path.join(vc.RUN, "work_%s" % prop_id),
                                      trace_module="TraceWire", trace_cfg="TraceWire.cfg", harness_bin="vq_wire")
    cov = _measure(events, lambda v: any(a == "enc" for a, o in v))
    cov["bounds"] = C28_BOUNDS[tier]
    cov["encode_calls_by_variant"] = _spec_cov(verdict, ("enc",))
    verdict, thin = _thin(verdict, lambda b: (b.get("a"), b.get("what"), "obs=" + str(b.get("obs"))))
    cov.update(thin)
    return ec.finish(prop_id, tier, seed, t0, verdict, events, stats, harness_bin="vq_wire", trace_module="TraceWire",
                     assumptions=ASSUME + ["strings of backend messages contain no NUL and error/notice field types are not 0 "
                                           "(neither can be represented in the protocol); a row has at most 65535 columns"],
                     configs=parts[0]["configs"],
                     rule="each scenario encodes one TLC-enumerated backend message into an empty write buffer and a second one "
                          "behind it with the real BackendMessage::encode; distinct = distinct rendered call history; "
                          "non-trivial = every scenario (each contains at least one encode call whose bytes are parsed back)",
                     extra_cov=cov)


# ---------------------------------------------------------------- C29: password authentication
C29_BOUNDS = {
    "quick":    {"MaxDepth": 2, "Modes": '{"api", "md5", "raw"}', "FileModes": '{"file_clear", "file_md5"}',
                 "Pws": '{"", "ab", "a", "a#"}', "FilePws": '{"ab", "a#"}'},
    "thorough": {"MaxDepth": 2, "Modes": '{"api", "hashed", "md5", "raw", "badphc"}',
                 "FileModes": '{"file_clear", "file_md5", "file_hashed"}', "Pws": '{"", "ab", "a", "a#"}', "FilePws": '{"ab", "a#"}'},
}
NON_ASCII = "é"


def _conc(s):
    """'#' in an abstract name / password stands for a non-ASCII character (a homomorphism for concatenation)."""
    return s.replace("#", NON_ASCII)


def _md5_response(a, seen):
    """Concrete client response for an abstract MD5 request: PostgreSQL's md5(md5(password || user) || salt), by hashlib."""
    material = ((_conc(a["dpw"]) + _conc(a["du"])).encode("utf-8"), bytes(a["dsalt"]))
    inner = hashlib.md5(material[0]).hexdigest()
    hx = hashlib.md5(inner.encode("ascii") + material[1]).hexdigest()
    # the model takes the digest to be injective on (password || user, salt): make sure the concrete digests are
    if seen.setdefault(hx, material) != material:
        raise vc.ToolError("MD5 collision between two digest inputs of the scenario set")
    forms = {"md5hex": "md5" + hx, "bare": hx, "upper": "md5" + hx.upper(), "capprefix": "MD5" + hx, "trunc": "md5" + hx[:-1],
             "extra": "md5" + hx + "0", "prefix_only": "md5", "empty": "", "stored_clear": _conc(a["dpw"]),
             "double": "md5md5" + hx, "inner": "md5" + inner, "space": "md5" + hx + " "}
    r = forms[a["form"]]
    if a["form"] != "md5hex" and r == forms["md5hex"]:
        return None            # a near miss that coincides with the well-formed response (hex without letters): not a near miss
    return r


def _concretise(steps, seen):
    out = []
    for a in steps:
        a = dict(a)
        k = a["a"]
        if k == "add":
            a["cu"], a["cpw"] = _conc(a["u"]), _conc(a["pw"])
        elif k == "load":
            a["ents"] = [dict(e, cu=_conc(e["u"]), cpw=_conc(e["pw"])) for e in a["ents"]]
        elif k == "clear":
            a["cu"], a["cp"] = _conc(a["u"]), _conc(a["p"])
        elif k == "md5":
            a["cu"] = _conc(a["u"])
            r = _md5_response(a, seen)
            if r is None:
                continue
            a["cresp"] = r
        out.append(a)
    return out


@prop("C29")
def check_c29(prop_id, tier, seed):
    t0 = time.time()
    scen, stats = vc.gen_scenarios(prop_id, "MC_Auth", "MC_Auth.cfg", AUTH_DEPS, consts=C29_BOUNDS[tier], workers=1)
    if not scen:
        raise vc.ToolError("MC_Auth produced no scenarios")
    stats["exhaustive"] = True
    seen = {}
    scen = [{"id": s["id"], "steps": _concretise(s["steps"], seen)} for s in scen]
    tmp = os.path.join(vc.RUN, "tmp_auth")
    cfgs = [{"name": "default", "args": ["--tmp", tmp]}]
    verdict, events = _run_wide(prop_id, scen, "vq_auth", cfgs[0]["args"], "TraceAuth")
    cov = _measure(events, lambda v: any(a in ("add", "load") and o == "ok" for a, o in v) and any(a in ("clear", "md5") for a, o in v))
    cov["bounds"] = C29_BOUNDS[tier]
    cov["verify_calls_by_request_class_and_reference_verdict"] = _spec_cov(verdict, ("clear", "md5", "build"))
    verdict, thin = _thin(verdict, lambda b: (b.get("a"), b.get("what"), "exp=" + str(b.get("exp")), "obs=" + str(b.get("obs"))))
    cov.update(thin)
    return ec.finish(prop_id, tier, seed, t0, verdict, events, stats, harness_bin="vq_auth", trace_module="TraceAuth",
                     assumptions=ASSUME + ["MD5 and Argon2 are treated as injective on the inputs used (checked for the MD5 digests "
                                           "of the scenario set); concrete MD5 responses are computed with Python's hashlib"],
                     configs=cfgs,
                     rule="each scenario is the shortest add/load history TLC found for one distinct reachable (store, superseded "
                          "passwords) state followed by the full probe set of cleartext and MD5 verifications, replayed on the real "
                          "PasswordStore; distinct = distinct rendered call history; non-trivial = the store was built by at least "
                          "one successful add/load and at least one verification was made",
                     extra_cov=cov)
