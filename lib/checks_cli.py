"""C31: CLI import / export transfers data faithfully and safely.

GEN  TLC enumerates (MC_Csv) table contents x format for the export -> import round trip, import files from the RFC 4180
     grammar and JSON import documents, and checks the theorems of the reference model CsvJson.tla (parse(write(x)) = x for
     CSV and JSON, import(export(rows)) = rows, the verdict operator accepts the reference answer and flags damage).
RUN  vq_cli replays them into the CLI's real `\\copy` code (MetaCommand::parse + SqlExecutor::handle_copy + DataIO, compiled
     into the harness from /repo's working tree), records the text of every file written / read and the whole database
     after every step.
VAL  TLC (TraceCsv) decides every step.  Nothing here or in the harness knows an expected answer."""
import collections
import json
import os
import time

import engine_check as ec
import vcommon as vc
from props_base import prop

DEPS = ["CsvJson.tla"]
HARNESS = "vq_cli"
KEEP_PER_CLASS = 6        # replay files / VIOLATION candidates kept per mismatch class (all are counted in the evidence)
PART = 800                # scenarios per part: a part runs in at most PART / 200 parallel harness processes
ASSUME = ["TLC evaluates the specification correctly",
          "harness concretisation (abstract action -> CREATE TABLE / storage API rows / `\\copy` line / file bytes) and "
          "projection (database -> tables, columns, rows; file -> code points) are faithful",
          "`\\copy` is driven through MetaCommand::parse and SqlExecutor::handle_copy as the REPL does, not through a terminal"]
SIZE = {"quick": 1, "thorough": 2}


def _measure(events_path):
    calls = collections.Counter()
    per = {}
    with open(events_path) as fh:
        for ln in fh:
            if not ln.strip():
                continue
            e = json.loads(ln)
            a = e["a"]["a"]
            per.setdefault((e["sc"], e["cfg"]), []).append((a, e["out"]))
            if a in ("export", "import"):
                calls["%s:%s:%s" % (a, e["a"].get("fmt"), e["out"])] += 1
    # non-trivial: the set-up succeeded (tables created and filled) and an import was executed on it
    nontrivial = sum(1 for v in per.values()
                     if all(o == "ok" for a, o in v if a in ("create", "fill")) and any(a == "import" for a, o in v))
    return {"copy_calls_by_direction_format_outcome": dict(sorted(calls.items())), "distinct_nontrivial": nontrivial}


def _thin(verdict):
    classes = collections.Counter()
    kept = []
    for b in verdict["bad"]:
        w = b.get("want") if isinstance(b.get("want"), dict) else {}
        k = (b.get("a"), b.get("what"), str(b.get("exp")), "obs=" + str(b.get("obs")), w.get("blame", ""), w.get("why", ""))
        classes[k] += 1
        if classes[k] <= KEEP_PER_CLASS:
            kept.append(b)
    by_kind = {k[4:]: v for k, v in sorted(verdict["cnt"].items()) if k.startswith("bad:")}
    verdict = dict(verdict)
    verdict["bad"] = kept
    return verdict, {"mismatches_total": sum(by_kind.values()), "mismatches_by_kind": by_kind,
                     "mismatch_records_kept_by_class": {" | ".join(map(str, k)): n for k, n in sorted(classes.items())}}


@prop("C31")
def check_c31(prop_id, tier, seed):
    t0 = time.time()
    agg = {"exhaustive": True, "mc_ok": True, "wall": 0}
    # the theorems of the reference model (no scenarios): a violated ASSUME is a tool-level error
    _, st = vc.gen_scenarios(prop_id, "MC_Csv", "MC_Csv.cfg", DEPS, consts={"Family": '"laws"', "Size": SIZE[tier]}, workers=1)
    agg["mc_ok"] = agg["mc_ok"] and st.get("mc_ok", False)
    agg["wall"] += st.get("wall", 0)
    scen, per_family = [], {}
    for fam in ("rt", "csv", "json"):
        s, st = vc.gen_scenarios(prop_id, "MC_Csv", "MC_Csv.cfg", DEPS, consts={"Family": '"%s"' % fam, "Size": SIZE[tier]}, workers=1)
        if not s:
            raise vc.ToolError("MC_Csv produced no scenarios for family %s" % fam)
        agg["mc_ok"] = agg["mc_ok"] and st.get("mc_ok", False)
        agg["wall"] = round(agg["wall"] + st.get("wall", 0), 1)
        per_family[fam] = len(s)
        scen += [{"id": "%s-%s" % (x["id"], fam), "steps": x["steps"]} for x in s]
    # the scenario generator is a pure enumeration (one TLC state): the enumerated inputs are the explored space
    agg["distinct_states"] = agg["states_generated"] = len(scen)
    cfgs = [{"name": "default", "args": ["--tmp", os.path.join(vc.RUN, "tmp_cli")]}]
    parts = [{"name": "p%d" % (i // PART), "scenarios": scen[i:i + PART], "configs": cfgs} for i in range(0, len(scen), PART)]
    verdict, events, _ = ec.run_parts(prop_id, parts, os.path.join(vc.RUN, "work_%s" % prop_id), trace_module="TraceCsv",
                                      trace_cfg="TraceCsv.cfg", harness_bin=HARNESS, shards=4)
    cov = _measure(events)
    cov["scenarios_per_family"] = per_family
    cov["bounds"] = {"Size": SIZE[tier]}
    cov["imports_by_kind_format_file_status_outcome"] = {k: v for k, v in sorted(verdict["cnt"].items())
                                                         if k.split(":")[0] in ("import", "roundtrip", "export")}
    verdict, thin = _thin(verdict)
    cov.update(thin)
    return ec.finish(prop_id, tier, seed, t0, verdict, events, agg, harness_bin=HARNESS, trace_module="TraceCsv",
                     assumptions=ASSUME, configs=cfgs,
                     rule="each scenario is one TLC-enumerated table content x format (create, fill, `\\copy TO`, `\\copy FROM` into "
                          "the empty twin) or one TLC-enumerated import file (create, fill, `\\copy FROM`), replayed on the real "
                          "CLI code; distinct = distinct rendered step history; non-trivial = the set-up succeeded and an import "
                          "was executed and judged against the reference meaning of the file",
                     extra_cov=cov)
