"""C18 (native save/load round trip), C19 (SQL dump round trip), C20 (damaged files fail cleanly).
Oracle: Engine!Apply says a reload is the identity on tables, rows and index definitions; TraceEngine compares the projected
state after the reload (rows, column lists, column types and nullability, index registry and index contents) and validates
the probe queries against EvalQ on that state."""
import json
import os
import shutil
import time

import engine_check as ec
import vcommon as vc
from props_base import prop

NATIVE = ["binary", "compressed", "json"]


def _saveload(fmt):
    return {"a": "saveload", "fmt": fmt}


def _hist_scenarios(prop_id, tier, seed, fmts, sample):
    """DML / index histories of MC_Idx, each followed by a reload in every format and the index-relevant probe queries."""
    import random
    import props
    scen, stats = props.idx_scenarios(prop_id, tier, seed, 10 ** 9, 0)
    pwd = os.path.join(vc.RUN, "gen_probes_%d" % os.getpid())
    rc, out = vc.tlc("MC_Idx", "MC_Idx_probes.cfg", pwd, workers=1, timeout=300)
    probes = vc.extract_tagged(out, "PROBES")[-1]
    shutil.rmtree(pwd, ignore_errors=True)
    rnd = random.Random(seed)
    # histories that end inside a transaction are skipped (the model leaves saving inside a transaction open)
    def closed(steps):
        open_ = False
        for s in steps:
            if s["a"] == "begin":
                open_ = True
            elif s["a"] in ("commit", "rollback"):
                open_ = False
        return not open_
    scen = [s for s in scen if closed(s["steps"]) and any(x["a"] == "ci" for x in s["steps"])]
    if len(scen) > sample:
        scen = rnd.sample(scen, sample)
        stats["exhaustive"] = False
    out = []
    for s in scen:
        for f in fmts:
            ps = rnd.sample(probes, min(10, len(probes)))
            out.append({"id": "%s-%s" % (s["id"], f), "steps": s["steps"] + [_saveload(f)] + ps})
    return out, stats


def _persist_gen(prop_id, mode, max_at, stride=7, max_strides=0, stride2=5, max_strides2=0):
    scen, stats = vc.gen_scenarios(prop_id, "MC_Persist", "MC_Persist.cfg", ec.ENGINE_DEPS,
                                   consts={"Mode": '"%s"' % mode, "MaxAt": max_at, "Stride": stride, "MaxStrides": max_strides,
                                           "Stride2": stride2, "MaxStrides2": max_strides2}, workers=1)
    return scen, stats


def _fmt_of(sc):
    for s in sc["steps"]:
        if s["a"] in ("saveload", "corruptload"):
            return s["fmt"]
    return ""


def roundtrip_check(prop_id, tier, seed, fmts):
    t0 = time.time()
    vscen, vstats = _persist_gen(prop_id, "rt", 40)
    vscen = [s for s in vscen if _fmt_of(s) in fmts]
    hscen, hstats = _hist_scenarios(prop_id, tier, seed, fmts, {"quick": 250, "thorough": 3000}[tier])
    stats = {"states_generated": vstats["states_generated"] + hstats["states_generated"],
             "distinct_states": vstats["distinct_states"] + hstats["distinct_states"], "mc_ok": True, "exhaustive": False}
    cfgs = [{"name": "default", "args": ["--idx", "--exact-floats"]}]
    parts = [{"name": "values", "scenarios": vscen, "configs": cfgs}, {"name": "hist", "scenarios": hscen, "configs": cfgs}]
    wd = os.path.join(vc.RUN, "work_%s" % prop_id)
    verdict, events, _ = ec.run_parts(prop_id, parts, wd)
    reloads = 0
    with open(events) as fh:
        for ln in fh:
            if '"a":"saveload"' in ln and '"out":"ok"' in ln:
                reloads += 1
    if reloads < (len(vscen) + len(hscen)) // 2:
        vc.log("   only %d of %d reloads succeeded" % (reloads, len(vscen) + len(hscen)))
    return ec.finish(prop_id, tier, seed, t0, verdict, events, stats, configs=cfgs,
                     extra_cov={"formats": fmts, "value_class_scenarios": len(vscen), "history_scenarios": len(hscen),
                                "successful_reloads": reloads})


@prop("C18")
def check_c18(prop_id, tier, seed):
    return roundtrip_check(prop_id, tier, seed, NATIVE)


@prop("C19")
def check_c19(prop_id, tier, seed):
    return roundtrip_check(prop_id, tier, seed, ["sql"])


@prop("C20")
def check_c20(prop_id, tier, seed):
    t0 = time.time()
    # offsets 0 .. MaxAt, the last 16 bytes, and every Stride-th byte up to Stride * MaxStrides
    max_at, stride, max_strides, stride2, max_strides2 = {"quick": (16, 17, 45, 5, 160), "thorough": (700, 3, 900, 1, 2000)}[tier]
    scen, stats = _persist_gen(prop_id, "fault", max_at, stride, max_strides, stride2, max_strides2)
    # all faults on one saved database share their prefix: merge them into one scenario per format (the running
    # database is not touched by a damaged load, so the steps are independent)
    groups = {}
    for s in scen:
        k = json.dumps(s["steps"][:-1], sort_keys=True) + _fmt_of(s)
        g = groups.setdefault(k, {"id": "%s-faults-%s" % (prop_id, _fmt_of(s)), "steps": list(s["steps"][:-1])})
        g["steps"].append(s["steps"][-1])
    # split long fault lists so that the subprocess loads run in parallel
    merged = []
    for g in groups.values():
        base = [x for x in g["steps"] if x["a"] != "corruptload"]
        faults = [x for x in g["steps"] if x["a"] == "corruptload"]
        for i in range(0, len(faults), 60):
            merged.append({"id": "%s-%03d" % (g["id"], i // 60), "steps": base + faults[i:i + 60]})
    stats["exhaustive"] = True
    cfgs = [{"name": "default", "args": []}]
    vc.build_harness(["vq_load"])
    wd = os.path.join(vc.RUN, "work_%s" % prop_id)
    verdict, events, _ = ec.run_parts(prop_id, [{"name": "faults", "scenarios": merged, "configs": cfgs}], wd)
    outcomes = {}
    with open(events) as fh:
        for ln in fh:
            if '"a":"corruptload"' in ln:
                e = json.loads(ln)
                k = "%s/%s/%s" % (e["a"]["fmt"], e["a"]["fault"]["kind"], e["out"])
                outcomes[k] = outcomes.get(k, 0) + 1
    return ec.finish(prop_id, tier, seed, t0, verdict, events, stats, configs=cfgs, level="fault_enumeration",
                     rule="one scenario = one saved database (three rows of extreme value classes and two indexes, or a catalog with a CHECK constraint, "
                          "a trigger with an IN list and a function call in its WHEN condition and a view) and up to 60 damaged "
                          "copies of its file, each loaded in a child process; counted per format / fault kind / outcome below",
                     extra_cov={"faults_generated": len(scen), "outcomes_by_format_fault": outcomes,
                                # non-trivial here = a scenario in which at least one damaged copy was actually loaded
                                "distinct_nontrivial": len(merged) if outcomes else 0})
