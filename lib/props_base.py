"""Registry of check functions: CHECKS[property id] = function(prop_id, tier, seed) -> exit code."""
CHECKS = {}


def prop(*ids):
    def deco(f):
        for i in ids:
            CHECKS[i] = f
        return f
    return deco
