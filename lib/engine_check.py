"""Engine-family checks: scenarios (from TLC or the seeded driver) -> vq_run on the real engine under one or more
configurations -> TraceEngine validation -> classification, replay files, evidence."""
import concurrent.futures
import hashlib
import json
import os
import shutil
import time

import vcommon as vc

# GEN depends on the semantics and the state machine only (TraceEngine / KnownDeviations are VAL-side modules: changing
# them must not invalidate the cached scenario sets)
ENGINE_DEPS = ["SqlSem.tla", "Engine.tla"]


def _steps_key(sc):
    return hashlib.sha256(json.dumps(sc["steps"], sort_keys=True).encode()).hexdigest()


def run_parts(prop, parts, workdir, trace_module="TraceEngine", trace_cfg="TraceEngine.cfg", shards=None, harness_bin="vq_run"):
    """parts: [{name, scenarios, configs:[{name,args}]}].  Returns (verdict, events_by_key, nscen)."""
    vc.build_harness([harness_bin])
    shutil.rmtree(workdir, ignore_errors=True)
    os.makedirs(workdir, exist_ok=True)
    all_events = os.path.join(workdir, "events.ndjson")
    nscen = 0
    with open(all_events, "w") as out:
        for p in parts:
            # vq_run is single-threaded and every scenario starts from a fresh database: run chunks of the
            # scenario list in parallel processes and concatenate their logs in scenario order
            sc = p["scenarios"]
            k = max(1, min(vc.NCPU - 2, len(sc) // 200))
            size = (len(sc) + k - 1) // k if sc else 1
            chunks = [sc[i:i + size] for i in range(0, len(sc), size)] or [[]]
            sps = []
            for j, ch in enumerate(chunks):
                sp = os.path.join(workdir, "scen_%s_%d.ndjson" % (p["name"], j))
                vc.write_ndjson(sp, ch)
                sps.append(sp)
            for c in p.get("configs") or [{"name": "default", "args": []}]:
                jobs = [(sp, os.path.join(workdir, "ev_%s_%s_%d.ndjson" % (p["name"], c["name"], j))) for j, sp in enumerate(sps)]
                with concurrent.futures.ThreadPoolExecutor(max_workers=len(jobs)) as ex:
                    list(ex.map(lambda job: vc.run_harness(harness_bin, job[0], job[1], ["--cfg", c["name"]] + c.get("args", []),
                                                           env=c.get("env")), jobs))
                for _, ep in jobs:
                    with open(ep) as fh:
                        shutil.copyfileobj(fh, out)
                    os.remove(ep)
                nscen += len(sc)
    verdict = vc.validate(trace_module, trace_cfg, all_events, os.path.join(workdir, "val"), shards=shards)
    return verdict, all_events, nscen


def index_events(path, wanted):
    """Collect the full event list of the scenarios named in `wanted` ((sc,cfg) pairs)."""
    res = {}
    with open(path) as fh:
        for ln in fh:
            if not ln.strip():
                continue
            # cheap prefilter
            e = json.loads(ln)
            k = (e.get("sc"), e.get("cfg"))
            if k in wanted:
                res.setdefault(k, []).append(e)
    return res


DML = ("ins", "upd", "del")
TXN_CTL = ("begin", "commit", "rollback", "sp", "rollto", "release")
NONTRIVIAL_RULE = ("each scenario is one history emitted by TLC for a transition of the bounded state graph (or by the "
                   "seeded driver), replayed on the real engine; distinct = distinct rendered SQL history per "
                   "configuration; non-trivial = at least one successful INSERT/UPDATE/DELETE (DDL does not count) and, "
                   "besides it, at least one successful transaction-control statement, one observed query/consistency probe, "
                   "or a second INSERT/UPDATE/DELETE (successful or rejected)")


def measure(path):
    """Counts for the evidence file, measured from the recorded events."""
    n_events = 0
    scen = {}
    with open(path) as fh:
        for ln in fh:
            if not ln.strip():
                continue
            e = json.loads(ln)
            n_events += 1
            k = (e.get("sc"), e.get("cfg"))
            s = scen.setdefault(k, {"dml": 0, "obs": 0, "ctl": 0, "sql": [], "dirty": False, "sp_dirty": False,
                                    "rb": 0, "rt": 0, "cm": 0, "ndml": 0, "rej": 0})
            a = e["a"]["a"]
            if a == "reset":
                continue
            ok = e["out"] == "ok"
            if a in DML:
                s["ndml"] += 1
                s["rej"] += 0 if ok else 1
            if a in ("q", "cq"):
                s["obs"] += 1
            elif a in DML and ok:
                s["dml"] += 1
                if (e.get("st") or {}).get("txn"):
                    s["dirty"] = True
                    s["sp_dirty"] = True
            elif a in TXN_CTL and ok:
                s["ctl"] += 1
                if a == "begin":
                    s["dirty"] = s["sp_dirty"] = False
                elif a == "sp":
                    s["sp_dirty"] = False
                elif a == "rollback":
                    s["rb"] += 1 if s["dirty"] else 0
                    s["dirty"] = s["sp_dirty"] = False
                elif a == "commit":
                    s["cm"] += 1 if s["dirty"] else 0
                    s["dirty"] = s["sp_dirty"] = False
                elif a == "rollto":
                    s["rt"] += 1 if s["sp_dirty"] else 0
                    s["sp_dirty"] = False
            s["sql"].append(e.get("sql", ""))
    distinct = set()
    nontrivial = 0
    tot = {"rb": 0, "rt": 0, "cm": 0, "rej": 0}
    nt = lambda x: x["dml"] >= 1 and (x["ctl"] >= 1 or x["obs"] >= 1 or x["ndml"] >= 2)
    for k, s in scen.items():
        h = hashlib.sha256(("\n".join(s["sql"]) + "|" + str(k[1])).encode()).hexdigest()
        if h in distinct:
            continue
        distinct.add(h)
        if nt(s):
            nontrivial += 1
        for t in tot:
            tot[t] += s[t]
    keys = list(scen.keys())
    picks = [k for k in keys if nt(scen[k])] or keys
    samples = []
    for k in picks[:: max(1, len(picks) // 3)][:3]:
        samples.append({"scenario": k[0], "cfg": k[1], "sql": scen[k]["sql"][:12]})
    return {"events": n_events, "scenarios": len(scen), "distinct": len(distinct), "nontrivial": nontrivial, "samples": samples,
            "rollbacks_undoing_changes": tot["rb"], "rollback_to_undoing_changes": tot["rt"], "commits_keeping_changes": tot["cm"],
            "rejected_dml_statements": tot["rej"]}


def finish(prop, tier, seed, t0, verdict, events_path, gen_stats, level="model_checking", rule=None, assumptions=None,
           extra_cov=None, extra_bad=None, owns=None, configs=None, extra_events=None, extra_cfgs=None,
           harness_bin="vq_run", trace_module="TraceEngine"):
    """Classify mismatches, write replay files and the evidence file, print the interface lines, return exit code."""
    known = vc.load_known()
    bad = list(verdict["bad"]) + list(extra_bad or [])
    # a mismatch on a statement kind that another property's check owns (same scenarios, same validation) is
    # reported by that check, not by this one; it is still counted in the evidence file
    foreign = [b for b in bad if owns is not None and not owns(b)]
    bad = [b for b in bad if owns is None or owns(b)]
    for b in foreign[:5]:
        vc.log("   [reported under another property] %s" % json.dumps({k: b.get(k) for k in ("sc", "i", "a", "what", "exp", "obs")}))
    wanted = {(b["sc"], b.get("cfg")) for b in bad}
    evs = index_events(events_path, wanted) if wanted else {}
    if wanted and extra_events:
        evs.update(index_events(extra_events, wanted))
    cfgmap = {c["name"]: c for c in (configs or [])}
    xcfgmap = {c["name"]: c for c in (extra_cfgs or [])}
    rdir = os.path.join(vc.RUN, "replay", prop)
    shutil.rmtree(rdir, ignore_errors=True)
    violations, known_hits = [], {}
    for b in bad:
        trace = evs.get((b["sc"], b.get("cfg")), [])
        ev = next((e for e in trace if e.get("i") == b["i"]), None)
        if ev is not None:
            ev = dict(ev)
            ev["_history"] = "\n".join(e.get("sql", "") for e in trace if e.get("i", 0) <= b["i"])
        k = vc.match_known(known, prop, b, ev)
        if k is not None:
            known_hits.setdefault(k["id"], {"k": k, "n": 0})["n"] += 1
            continue
        os.makedirs(rdir, exist_ok=True)
        rp = os.path.join(rdir, "%s_%s_%s.json" % (b["sc"], b.get("cfg", "default"), b["i"]))
        twin = None
        if b.get("what") in ("cfgdiff", "repeat"):
            # decided by ConfigEq: the replay needs both configurations of the comparison
            twin = {"trace_module": "ConfigEq", "configs": [xcfgmap.get(b.get("other")) or cfgmap.get(b.get("other")),
                                                             xcfgmap.get(b.get("cfg")) or cfgmap.get(b.get("cfg"))]}
        with open(rp, "w") as fh:
            json.dump({"property": prop, "bad": b, "twin": twin, "harness": harness_bin, "trace_module": trace_module,
                       "scenario": {"id": b["sc"], "steps": [e["a"] for e in trace if e["a"]["a"] != "reset"]},
                       "cfg": b.get("cfg"),
                       "cfg_args": (cfgmap.get(b.get("cfg")) or xcfgmap.get(b.get("cfg")) or {}).get("args", []),
                       "cfg_env": (cfgmap.get(b.get("cfg")) or xcfgmap.get(b.get("cfg")) or {}).get("env") or {},
                       "sql": [e.get("sql") for e in trace],
                       "failing_event": {k2: v for k2, v in (ev or {}).items() if k2 != "_history"}}, fh, indent=1)
        violations.append((b, rp))
    tri = os.path.join(vc.RUN, "triage_%s.txt" % prop)
    if os.path.exists(tri):
        os.remove(tri)
    if violations:
        def fmt(v):
            if isinstance(v, list):
                return "[" + ",".join(fmt(x) for x in v) + "]"
            if isinstance(v, dict) and "t" in v:
                return {"n": "NULL", "s": repr(v.get("s")), "b": "T" if v.get("n") else "F", "x": "x:" + str(v.get("s"))}.get(
                    v["t"], str(v.get("n")) if v.get("d", 1) == 1 else "%s/%s" % (v.get("n"), v.get("d")))
            if isinstance(v, dict):
                return "{" + ",".join("%s:%s" % (k, fmt(x)) for k, x in v.items()) + "}"
            return str(v)
        with open(os.path.join(vc.RUN, "triage_%s.txt" % prop), "w") as fh:
            for b, rp in violations:
                r = json.load(open(rp))
                ev0 = r.get("failing_event") or {}
                fh.write("%s [%s/%s exp=%s obs=%s cfg=%s] %s\n    data=%s\n    want=%s\n    got =%s %s\n" % (
                    b["sc"], b["a"], b["what"], b.get("exp"), b.get("obs"), b.get("cfg"), ev0.get("sql"),
                    fmt((ev0.get("st") or {}).get("T")), fmt(b.get("want")), fmt(ev0.get("rows")), ev0.get("msg", "")))
    for kid, h in known_hits.items():
        print("KNOWN-FINDING: property=%s %s: %s (%d events)" % (prop, kid, h["k"].get("what", ""), h["n"]))
    seen = {}
    printed = 0
    for b, rp in violations:
        sig = (b["a"], b["what"], b.get("exp"), b.get("obs"), b.get("cfg"))
        seen[sig] = seen.get(sig, 0) + 1
        if seen[sig] > 5 or printed >= 40:
            continue
        printed += 1
        print("VIOLATION property=%s replay=%s" % (prop, rp))
        vc.log("   %s" % json.dumps(b))
    if len(violations) > printed:
        vc.log("   ... %d further violations not printed; replay files are in %s, summary in run/triage_%s.txt" % (
            len(violations) - printed, rdir, prop))
    m = measure(events_path)
    cov = {
        "states": max(1, int(gen_stats.get("distinct_states", 0))),
        "transitions": max(1, int(gen_stats.get("states_generated", 0))),
        "traces_validated_against_impl": m["scenarios"],
        "samples": m["samples"],
        "evaluations": m["events"],
        "distinct_nontrivial": m["nontrivial"],
        "rule": rule or NONTRIVIAL_RULE,
        "distinct_scenarios": m["distinct"],
        "rollbacks_undoing_changes": m["rollbacks_undoing_changes"],
        "rollback_to_undoing_changes": m["rollback_to_undoing_changes"],
        "commits_keeping_changes": m["commits_keeping_changes"],
        "rejected_dml_statements": m["rejected_dml_statements"],
        "events_validated": verdict["n"],
        "events_conforming": verdict["cnt"].get("ok", 0),
        "events_unmodelled": verdict["cnt"].get("unmodelled", 0),
        "events_skipped_after_desync": verdict["cnt"].get("skipped", 0),
        "query_results_checked": verdict["cnt"].get("queries", 0),
        "known_finding_events": sum(h["n"] for h in known_hits.values()),
        "mismatches_reported_under_another_property": len(foreign),
        "mc_model_ok": bool(gen_stats.get("mc_ok", True)),
        "exhaustive": bool(gen_stats.get("exhaustive", False)),
    }
    if extra_cov:
        cov.update(extra_cov)
    vc.write_evidence(prop, tier, seed, level, cov, time.time() - t0, len(violations), assumptions=assumptions or [
        "TLC evaluates the specification correctly", "harness rendering (AST -> SQL) and projection (Database -> abstract state) are faithful",
    ])
    if not violations and not known_hits and os.environ.get("VERIF_KEEP") != "1":
        # the recorded events of a clean run are not needed any more (several hundred MB at thorough bounds)
        shutil.rmtree(os.path.dirname(events_path), ignore_errors=True)
    return 1 if violations else 0
