"""Engine-family checks: scenarios (from TLC or the seeded driver) -> vq_run on the real engine under one or more
configurations -> TraceEngine validation -> classification, replay files, evidence."""
import hashlib
import json
import os
import shutil
import time

import vcommon as vc

ENGINE_DEPS = ["SqlSem.tla", "Engine.tla", "KnownDeviations.tla", "TraceEngine.tla"]


def _steps_key(sc):
    return hashlib.sha256(json.dumps(sc["steps"], sort_keys=True).encode()).hexdigest()


def run_parts(prop, parts, workdir, trace_module="TraceEngine", trace_cfg="TraceEngine.cfg"):
    """parts: [{name, scenarios, configs:[{name,args}]}].  Returns (verdict, events_by_key, nscen)."""
    vc.build_harness(["vq_run"])
    shutil.rmtree(workdir, ignore_errors=True)
    os.makedirs(workdir, exist_ok=True)
    all_events = os.path.join(workdir, "events.ndjson")
    nscen = 0
    with open(all_events, "w") as out:
        for p in parts:
            sp = os.path.join(workdir, "scen_%s.ndjson" % p["name"])
            vc.write_ndjson(sp, p["scenarios"])
            for c in p.get("configs") or [{"name": "default", "args": []}]:
                ep = os.path.join(workdir, "ev_%s_%s.ndjson" % (p["name"], c["name"]))
                vc.run_harness("vq_run", sp, ep, ["--cfg", c["name"]] + c.get("args", []), env=c.get("env"))
                with open(ep) as fh:
                    shutil.copyfileobj(fh, out)
                nscen += len(p["scenarios"])
    verdict = vc.validate(trace_module, trace_cfg, all_events, os.path.join(workdir, "val"))
    return verdict, all_events, nscen


def index_events(path, wanted):
    """Collect the full event list of the scenarios named in `wanted` ((sc,cfg) pairs)."""
    res = {}
    with open(path) as fh:
        for ln in fh:
            if not ln.strip():
                continue
            # cheap prefilter
            e = json.loads(ln)
            k = (e.get("sc"), e.get("cfg"))
            if k in wanted:
                res.setdefault(k, []).append(e)
    return res


def measure(path):
    """Counts for the evidence file, measured from the recorded events."""
    n_events = 0
    scen = {}
    with open(path) as fh:
        for ln in fh:
            if not ln.strip():
                continue
            e = json.loads(ln)
            n_events += 1
            k = (e.get("sc"), e.get("cfg"))
            s = scen.setdefault(k, {"chg": 0, "obs": 0, "sql": []})
            a = e["a"]["a"]
            if a == "reset":
                continue
            if a in ("q", "cq"):
                s["obs"] += 1
            elif e["out"] == "ok":
                s["chg"] += 1
            s["sql"].append(e.get("sql", ""))
    distinct = set()
    nontrivial = 0
    for k, s in scen.items():
        h = hashlib.sha256(("\n".join(s["sql"]) + "|" + str(k[1])).encode()).hexdigest()
        if h in distinct:
            continue
        distinct.add(h)
        if s["chg"] >= 1 and len(s["sql"]) >= 2:
            nontrivial += 1
    samples = []
    for k, s in list(scen.items())[:: max(1, len(scen) // 3)][:3]:
        samples.append({"scenario": k[0], "cfg": k[1], "sql": s["sql"][:12]})
    return {"events": n_events, "scenarios": len(scen), "distinct": len(distinct), "nontrivial": nontrivial, "samples": samples}


def finish(prop, tier, seed, t0, verdict, events_path, gen_stats, level="model_checking", rule=None, assumptions=None,
           extra_cov=None, extra_bad=None):
    """Classify mismatches, write replay files and the evidence file, print the interface lines, return exit code."""
    known = vc.load_known()
    bad = list(verdict["bad"]) + list(extra_bad or [])
    wanted = {(b["sc"], b.get("cfg")) for b in bad}
    evs = index_events(events_path, wanted) if wanted else {}
    rdir = os.path.join(vc.RUN, "replay", prop)
    shutil.rmtree(rdir, ignore_errors=True)
    violations, known_hits = [], {}
    for b in bad:
        trace = evs.get((b["sc"], b.get("cfg")), [])
        ev = next((e for e in trace if e.get("i") == b["i"]), None)
        if ev is not None:
            ev = dict(ev)
            ev["_history"] = "\n".join(e.get("sql", "") for e in trace if e.get("i", 0) <= b["i"])
        k = vc.match_known(known, prop, b, ev)
        if k is not None:
            known_hits.setdefault(k["id"], {"k": k, "n": 0})["n"] += 1
            continue
        os.makedirs(rdir, exist_ok=True)
        rp = os.path.join(rdir, "%s_%s_%s.json" % (b["sc"], b.get("cfg", "default"), b["i"]))
        with open(rp, "w") as fh:
            json.dump({"property": prop, "bad": b,
                       "scenario": {"id": b["sc"], "steps": [e["a"] for e in trace if e["a"]["a"] != "reset"]},
                       "cfg": b.get("cfg"),
                       "sql": [e.get("sql") for e in trace],
                       "failing_event": {k2: v for k2, v in (ev or {}).items() if k2 != "_history"}}, fh, indent=1)
        violations.append((b, rp))
    if violations:
        def fmt(v):
            if isinstance(v, list):
                return "[" + ",".join(fmt(x) for x in v) + "]"
            if isinstance(v, dict) and "t" in v:
                return {"n": "NULL", "s": repr(v.get("s")), "b": "T" if v.get("n") else "F", "x": "x:" + str(v.get("s"))}.get(
                    v["t"], str(v.get("n")) if v.get("d", 1) == 1 else "%s/%s" % (v.get("n"), v.get("d")))
            if isinstance(v, dict):
                return "{" + ",".join("%s:%s" % (k, fmt(x)) for k, x in v.items()) + "}"
            return str(v)
        with open(os.path.join(vc.RUN, "triage_%s.txt" % prop), "w") as fh:
            for b, rp in violations:
                r = json.load(open(rp))
                ev0 = r.get("failing_event") or {}
                fh.write("%s [%s/%s exp=%s obs=%s cfg=%s] %s\n    data=%s\n    want=%s\n    got =%s %s\n" % (
                    b["sc"], b["a"], b["what"], b.get("exp"), b.get("obs"), b.get("cfg"), ev0.get("sql"),
                    fmt((ev0.get("st") or {}).get("T")), fmt(b.get("want")), fmt(ev0.get("rows")), ev0.get("msg", "")))
    for kid, h in known_hits.items():
        print("KNOWN-FINDING: property=%s %s: %s (%d events)" % (prop, kid, h["k"].get("what", ""), h["n"]))
    seen = set()
    for b, rp in violations:
        sig = (b["a"], b["what"], b.get("exp"), b.get("obs"), b.get("cfg"))
        if sig in seen and len(seen) > 20:
            continue
        seen.add(sig)
        print("VIOLATION property=%s replay=%s" % (prop, rp))
        vc.log("   %s" % json.dumps(b))
    m = measure(events_path)
    cov = {
        "states": max(1, int(gen_stats.get("distinct_states", 0))),
        "transitions": max(1, int(gen_stats.get("states_generated", 0))),
        "traces_validated_against_impl": m["scenarios"],
        "samples": m["samples"],
        "evaluations": m["events"],
        "distinct_nontrivial": m["nontrivial"],
        "rule": rule or ("each scenario is one history emitted by TLC for a transition of the bounded state graph (or by the "
                         "seeded driver), replayed on the real engine; distinct = distinct rendered SQL history per "
                         "configuration; non-trivial = at least one successful state-changing statement and at least two statements"),
        "events_validated": verdict["n"],
        "events_conforming": verdict["cnt"].get("ok", 0),
        "events_unmodelled": verdict["cnt"].get("unmodelled", 0),
        "events_skipped_after_desync": verdict["cnt"].get("skipped", 0),
        "query_results_checked": verdict["cnt"].get("queries", 0),
        "known_finding_events": sum(h["n"] for h in known_hits.values()),
        "mc_model_ok": bool(gen_stats.get("mc_ok", True)),
        "exhaustive": bool(gen_stats.get("exhaustive", False)),
    }
    if extra_cov:
        cov.update(extra_cov)
    vc.write_evidence(prop, tier, seed, level, cov, time.time() - t0, len(violations), assumptions=assumptions or [
        "TLC evaluates the specification correctly", "harness rendering (AST -> SQL) and projection (Database -> abstract state) are faithful",
    ])
    return 1 if violations else 0
