"""Single source for MANIFEST.json (bin/mkmanifest writes it).  One entry per property: either a claimed check or a
not_applicable reason.  Keep texts factual: what the check enumerates, what the oracle compares, what it does not reach."""

TRUST = ("Trusted base: TLC, the harness renderer (abstract action -> SQL text / API call) and projection (real state -> abstract "
         "state), both free of expected values. Exhaustive only within the stated bounds. ")
T_ENGINE = ("TLA+ spec (Engine.tla / SqlSem.tla) model-checked with TLC; TLC-generated behaviours replayed into the real engine; "
            "recorded traces validated against the spec by TLC (TraceEngine.tla)")
T_SEM = ("TLA+ reference semantics (SqlSem.tla) evaluated by TLC; TLC-enumerated databases and queries executed on the real engine; "
         "every recorded result validated against the spec by TLC")

DML_TEXT = ("MC_Dml.tla: one table with PRIMARY KEY, UNIQUE, NOT NULL and CHECK (N <= 1); TLC enumerates every history over an alphabet of 25 "
            "statements: valid single rows, single rows violating each constraint, multi-row INSERTs that are valid / repeat a UNIQUE or PRIMARY KEY "
            "inside the statement / fail CHECK on the last row, UPDATEs that are key-changing, multi-row, make rows collide or violate NOT NULL/CHECK "
            "for some of the selected rows, and DELETEs by key, IS NULL, range and without WHERE. The model itself is checked for ConstraintsHold "
            "(invariant), FailedIsStutter and DeleteExact (action properties). Every history is replayed on the real engine; TLC (TraceEngine.tla) "
            "compares outcome class, affected-row count, full table contents in storage order and the constraint hash indexes with Engine!Apply "
            "after every statement. MC_Upsert.tla does the same for the conflict-resolving INSERT variants REPLACE INTO and INSERT ... ON DUPLICATE KEY "
            "UPDATE (Engine!DoUpsert: rows handled one after the other; conflicts on the primary key, a UNIQUE column, both, an earlier row of the "
            "same statement; replacements and updates that violate CHECK / UNIQUE / PRIMARY KEY; assignments over the stored row and VALUES(col)) on "
            "a table with a user-defined index. ")
DML_BOUNDS = "Quick: every history of <= 5 statements (MC_Upsert: <= 2 after three populated starting points); thorough: <= 6 (MC_Upsert <= 4). "

CHECKS = {
    "C01": dict(
        engine="engine", category="model_checking", technique=T_SEM, design="DESIGN.md section 6 (C01), section 10",
        text="SqlSem.tla is the reference semantics of the shared SELECT subset (3VL filters, arithmetic, CASE/COALESCE, comma/INNER/LEFT joins, "
             "GROUP BY/HAVING/aggregates, DISTINCT, ORDER BY/LIMIT/OFFSET, UNION/INTERSECT/EXCEPT [ALL], scalar/IN/EXISTS subqueries). MC_Sem.tla makes "
             "TLC enumerate, per query family F1..F7, every database over the small value domain up to the row bound together with every query of the "
             "family's bounded grammar; each (database, query) pair is executed by the real engine (SQL text through the parser and SelectExecutor) and "
             "TLC (TraceEngine.tla) decides for each recorded result whether it is in AcceptRes(q, EvalQ(q, db)) - multiset equality, or sequence "
             "equality where ORDER BY determines the order, numerics by value. Exhaustive within the bounds, so the verdict does not depend on the seed.",
        note=TRUST + "Quick: <= 2 rows in T1, <= 1 in T2, values {NULL,0,1} / {NULL,'a','A'}; thorough: <= 3 rows in T1, <= 1 in T2."),
    "C02": dict(
        engine="engine", category="model_checking", technique=T_ENGINE, design="DESIGN.md section 6 (C02), section 10",
        text="Indexes are invisible in Engine.tla (CREATE/DROP INDEX and ANALYZE change only the index registry), so conformance of the run WITH the "
             "index actions and of the twin run with them elided to the same specification is the property. MC_Idx.tla: TLC enumerates every history "
             "of single/multi-row INSERT, key-changing UPDATE, DELETE, TRUNCATE, BEGIN/COMMIT/ROLLBACK, ANALYZE and CREATE/DROP of six index shapes "
             "(ASC, DESC, two-column, UNIQUE, prefix-length, two-column DESC) on T1(A INT, B VARCHAR); after each history a set of probe queries is "
             "answered (=, <, <=, >, >=, BETWEEN, IN, IS NULL, AND/OR combinations, literals of another numeric type, LIKE, ORDER BY ASC/DESC with "
             "and without LIMIT, aggregates) and every answer is validated by TLC against EvalQ on the specification state, under both configurations.",
        note=TRUST + "Quick: histories of <= 2 actions beyond the table (depth 3), <= 3 rows, <= 2 indexes, a seeded sample of 1 500 histories x 14 "
             "probes; thorough: depth 4, 12 000 histories x 24 probes. Sampled, so a different VERIF_SEED explores other histories."),
    "C03": dict(
        engine="engine", category="model_checking", technique=T_SEM + "; twin runs with the columnar gate on and off (hook H1); cross-configuration trace equality decided by TLC (ConfigEq.tla) beyond one SIMD batch",
        design="DESIGN.md section 6 (C03), section 10",
        text="Every aggregate query of families F4/F4S (COUNT(*)/COUNT/SUM/AVG/MIN/MAX, DISTINCT aggregates, WHERE shapes, HAVING, LIMIT/OFFSET, GROUP BY "
             "variants that the gate declines) is run on every database TLC enumerates (<= 2 rows quick, <= 3 thorough, incl. empty tables and all-NULL "
             "columns) and on seeded larger tables (4..65 rows: SIMD lane remainders, NULL densities 0..100%), once through the columnar path and once "
             "with VIBESQL_VERIF_COLUMNAR=off (row execution). Both recorded results are validated by TLC against EvalQ; this check reports a mismatch "
             "that occurs under one configuration but not identically under the other (a difference between the paths); a common deviation is C07's. "
             "Large scale: a seeded 2 600-row table (thorough 20 000 rows x 3 seeds; several 1 024-value batches of the SIMD kernels) and 65 aggregate "
             "queries (13 select lists x 5 WHERE shapes), columnar on / off; ConfigEq.tla demands equal observations event by event.",
        note=TRUST + "Sums near the 64-bit boundary and float columns are not in this model (integers and VARCHAR only)."),
    "C04": dict(
        engine="engine", category="model_checking",
        technique=T_SEM + "; cross-configuration trace equality decided by TLC (ConfigEq.tla) for data sizes beyond the reference evaluation",
        design="DESIGN.md section 6 (C04), section 10",
        text="Parallelism is invisible in the specification. (a) Small scale: a seeded sample of the C01 scenario set (families F1, F3, F4, F5, F6, F7) is "
             "executed in separate processes with PARALLEL_THRESHOLD=0 / 4 rayon threads (every parallel scan, filter, sort, aggregate and join-build "
             "branch is taken even for three rows) and with PARALLEL_THRESHOLD=max / 1 thread; every query is executed twice; TLC validates both answers "
             "of both configurations against EvalQ. (b) Large scale: seeded tables of 3 000 + 1 200 rows (thorough 20 000 + 5 000, three seeds), without "
             "and with indexes, 16 queries reaching scan/filter, index-scan filter, ORDER BY (keys ending in a unique column), DISTINCT, GROUP BY, hash "
             "join, LEFT JOIN, IN / NOT IN / EXISTS semi- and anti-joins and UNION, under five configurations (sequential; threshold 0 with 2 and 16 "
             "threads; hardware thresholds with 16 threads; threshold 1000 with 4 threads), each query twice; ConfigEq.tla checks event by event that "
             "outcome, row multiset and - for ordered queries - row sequence are equal across configurations and across the repetition.",
        note=TRUST + "Thread interleavings are sampled by repetition, not enumerated (rayon offers no schedule control). At large scale the sequential "
             "configuration is the reference; its agreement with the specification is established at small scale only. Sampled: VERIF_SEED chooses "
             "the small-scale scenarios and the large tables."),
    "C05": dict(
        engine="engine", category="model_checking", technique=T_SEM, design="DESIGN.md section 6 (C05), section 10",
        text="Families F3 (comma / INNER / LEFT / CROSS joins, self joins, three-table joins, joins with derived tables) and F8 (rewrite groups: join "
             "operand order, JOIN ON vs WHERE over the cross product, IN vs EXISTS vs DISTINCT-join semi-join forms, NOT EXISTS vs NOT (EXISTS), NOT IN "
             "with its own NULL rules, and EXISTS / NOT EXISTS whose correlation is an equality plus a conjunct that reads outer columns only inside BETWEEN "
             "bounds or an IN list, paired with the plain-comparison formulation). TLC checks on the model that the members of each group are equal on every enumerated database (ThmRewrite, and "
             "NOT IN = NOT EXISTS exactly when no NULL keys), and every rendering is executed on the real engine and validated against EvalQ of its own "
             "AST - plain, after ANALYZE (cost-based join order) and with indexes on the join columns plus ANALYZE (index access paths).",
        note=TRUST + "Quick: T1 <= 2 rows, T2 <= 1 row, variants plain + indexed_analyze; thorough: the same bounds under all four variants (plain, analyze, indexed, indexed_analyze). Join reordering "
             "search beyond three tables and hash-join spill sizes are not reached at this scale."),
    "C06": dict(
        engine="engine", category="model_checking", technique=T_SEM, design="DESIGN.md section 6 (C06), section 10",
        text="For every predicate p of the bounded grammar (comparisons, AND/OR/NOT, IS [NOT] NULL, BETWEEN, IN lists with NULL, arithmetic, CASE, "
             "COALESCE, LIKE) the four queries Q WHERE p, Q WHERE NOT p, Q WHERE p IS NULL and SELECT p are generated (families F1, F1L) and the same "
             "under DISTINCT, aggregates, GROUP BY and HAVING (F1C). TLC checks the partition law on the model for every enumerated database (ThmTLP) and "
             "validates every recorded result against EvalQ; run without and with indexes on the filtered columns (index-scan filter path).",
        note=TRUST + "Quick: <= 2 rows, thorough <= 3 rows; values {NULL,0,1}, {NULL,'a','A'}."),
    "C07": dict(
        engine="engine", category="model_checking", technique=T_SEM, design="DESIGN.md section 6 (C07), section 10",
        text="Families F4/F4S: every aggregate (COUNT(*), COUNT/SUM/AVG/MIN/MAX with and without DISTINCT, on INTEGER and VARCHAR columns), GROUP BY on "
             "one and two keys and on an expression incl. NULL keys, HAVING with aggregates not in the select list, aggregate queries without GROUP BY "
             "on empty inputs (exactly one row unless HAVING/LIMIT removes it); family F4M: several aggregating blocks that spell the same aggregate inside "
             "one statement (UNION ALL / EXCEPT branches, an aggregate over an aggregating derived table, an aggregating CTE). Every result is validated by TLC against EvalQ (exact rational AVG "
             "compared with 10^-6 tolerance), without and with indexes.",
        note=TRUST + "Float columns, -0.0 / NaN group keys are outside the model."),
    "C08": dict(
        engine="engine", category="model_checking", technique=T_SEM, design="DESIGN.md section 6 (C08), section 10",
        text="Families F5/F5S/F6: ORDER BY on columns, expressions, aliases and positions, ASC/DESC, one and two keys, with LIMIT/OFFSET combinations "
             "(incl. 0 and beyond the end), on plain, DISTINCT, GROUP BY and UNION/INTERSECT/EXCEPT queries, data with ties and NULLs. AcceptRes demands "
             "a permutation of the unordered result that is sorted under the key comparator with NULLs last, the exact slice (tie completion free), "
             "DISTINCT rows exactly once; ThmSlice is checked on the model. Run without and with indexes that can serve the ordering (index-ordered "
             "scans).",
        note=TRUST + "Quick <= 2 rows, thorough <= 3 rows."),
    "C09": dict(
        engine="engine", category="model_checking", technique=T_ENGINE, design="DESIGN.md section 6 (C09), section 10",
        text=DML_TEXT + "This check reports the mismatches on statements the specification accepts: different rows changed or removed than "
             "Selected(WHERE), a different affected-row count, rows other than the inserted ones appearing, or the statement being refused. "
             "MC_Where.tla adds the WHERE / SET grammar: 47 predicates (key equality hit / miss, key equality as a conjunct next to a TRUE / FALSE / UNKNOWN "
             "condition in both orders, OR, IN lists with NULL, BETWEEN, ranges, <>, NOT, literals of another numeric type such as 2.0 and 1.5, comparisons "
             "with NULL, IS [NOT] NULL, non-boolean truth values WHERE N / 1 / 0 / N - 1) x {DELETE, UPDATE with 4 SET lists incl. a swap and a key shift, the "
             "SELECT with the same predicate} x 3 primary-key shapes (single column, composite, none) x 2 populated states; Engine!Selected is the one "
             "definition of the selected rows for all three statement kinds (DeleteExact, UpdateExact, SelectAgrees checked on the model).",
        note=TRUST + DML_BOUNDS + "Thin relative to the property's quantifier: the WHERE shapes are =, >, >=, IS NULL and none on INTEGER columns of one "
             "table in MC_Dml; MC_Where: single statements at quick, pairs of statements for the single-column key at thorough; subqueries and joins in DML are not modelled (index-driven row selection is exercised by MC_Idx)."),
    "C10": dict(
        engine="engine", category="model_checking", technique=T_ENGINE, design="DESIGN.md section 6 (C10), section 10",
        text=DML_TEXT + "This check reports every statement that the specification rejects because its effect violates a declared constraint but the "
             "engine accepts (afterwards the table breaks PRIMARY KEY / UNIQUE / NOT NULL / CHECK). It additionally replays the MC_Idx histories "
             "(CREATE UNIQUE INDEX on existing duplicates, multi-row INSERT and UPDATE against a UNIQUE index) and owns their accepted-but-must-be-"
             "rejected statements.",
        note=TRUST + DML_BOUNDS + "ON DUPLICATE KEY / REPLACE and ALTER TABLE ADD CONSTRAINT are not in this model; statements whose acceptability "
             "depends on when a constraint is checked (SET ID = ID + 1 over consecutive keys) may be accepted or rejected as a whole."),
    "C11": dict(
        engine="engine", category="model_checking", technique=T_ENGINE, design="DESIGN.md section 6 (C11), section 10",
        text=DML_TEXT + "This check reports statements that fail (as the specification says they must) but leave the table contents or the constraint "
             "hash indexes different from before the statement. It additionally replays the MC_Fk histories (statements refused by a foreign key after "
             "referential actions already ran) and the INSERT ... SELECT histories of MC_Dml2, and owns their failed-but-changed-something mismatches.",
        note=TRUST + DML_BOUNDS + "Failing triggers are covered by C34's model, not here."),
    "C12": dict(
        engine="engine", category="model_checking", technique=T_ENGINE, design="DESIGN.md section 6 (C12), section 10",
        text="MC_Fk.tla: parent P, child C (foreign key with ON DELETE/UPDATE mode in {CASCADE, SET NULL, NO ACTION}), grandchild G (CASCADE), a second "
             "child D that always restricts, and a self-referencing table S; TLC enumerates every history (from five populated starting points) of "
             "inserts referencing existing / missing / NULL parents, child re-pointing updates, parent key updates (single, multi-row), single and "
             "multi-row parent deletes, deletes on the self-referencing table incl. reference cycles, TRUNCATE. The model is checked for FKHold and "
             "ConstraintsHold (invariants) and FailedIsStutter; every history is replayed and TLC compares outcome, count and all table contents with "
             "Engine!Apply (DeleteRows / UpdCascade define the referential actions) after every statement.",
        note=TRUST + "Quick: <= 3 statements after the starting point over five combinations of the action modes; thorough: the same depth over all twelve combinations. ON ... RESTRICT cannot be written (the parser only accepts NO ACTION, "
             "CASCADE, SET NULL, SET DEFAULT); SET DEFAULT, composite keys and DROP TABLE of a referenced parent are outside the model. Where SQL leaves the "
             "moment of a NO ACTION check open, rejecting the statement is accepted as well (never a partial effect)."),
    "C13": dict(
        engine="engine", category="model_checking", technique=T_ENGINE, design="DESIGN.md section 6 (C13), section 10",
        text="MC_Txn.tla: every interleaving of INSERT/UPDATE/DELETE/TRUNCATE on a keyed table, CREATE/DROP of a secondary index, BEGIN/COMMIT/ROLLBACK and "
             "SAVEPOINT/ROLLBACK TO/RELEASE, from four starting points (empty, populated, inside a transaction, inside a transaction after a savepoint and "
             "a change). The model is checked for RollbackRestores / CommitKeeps; every history is replayed and after every statement TLC compares table "
             "contents, the index registry and the contents of every index with the specification state. This check owns mismatches on COMMIT / ROLLBACK "
             "(and shares those on other statements with C14).",
        note=TRUST + "Quick: <= 5 statements after the starting point; thorough <= 6 (disk-backed configuration over every 4th / every 2nd history). DDL other than CREATE/DROP INDEX inside transactions is in C33's model."),
    "C14": dict(
        engine="engine", category="model_checking", technique=T_ENGINE, design="DESIGN.md section 6 (C14), section 10",
        text="Same model and replay as C13 (MC_Txn.tla, RollToRestores / ReleaseKeepsData checked on the model). This check owns mismatches on "
             "SAVEPOINT / ROLLBACK TO SAVEPOINT / RELEASE: table contents after ROLLBACK TO must equal those at the savepoint, the savepoint stays, "
             "later ones are destroyed, rolling back to a released or destroyed savepoint is an error.",
        note=TRUST + "Quick: <= 5 statements after the starting point (which may already hold SAVEPOINT A followed by an UPDATE); thorough <= 6. "
             "Savepoint names are not re-used while live."),
    "C15": dict(
        engine="engine", category="model_checking", technique=T_ENGINE, design="DESIGN.md section 6 (C15), section 10",
        text="After every statement of every history of MC_Idx (user-defined indexes of six shapes under DML, TRUNCATE, transactions), MC_Dml (PRIMARY "
             "KEY / UNIQUE constraint hash indexes under key-changing, NULL-ing and rejected statements) and MC_Txn (index contents across ROLLBACK / "
             "ROLLBACK TO) the harness dumps primary_key_index, unique_indexes and get_index_data of every index; TLC (TraceEngine!IndexInv) checks that "
             "each equals the function of the logged rows: exactly the current keys (prefix-truncated per definition, NULL keys left out of constraint "
             "indexes) mapped to the current row positions.",
        note=TRUST + "Quick: MC_Idx depth 3 exhaustive (<= 3 rows, <= 2 of 6 index definitions), MC_Dml depth 6, MC_Txn depth 5, MC_Upsert depth 3, all from populated starting points; thorough one level deeper (MC_Idx: a seeded sample of 150 000 of the depth-4 histories). "
             "Persistence reloads are checked by C18."),
    "C16": dict(
        engine="engine", category="model_checking", technique=T_ENGINE + "; three index back-end configurations (hook H3)",
        design="DESIGN.md section 6 (C16), section 10",
        text="The MC_Idx histories and probe queries of C02 are replayed under three configurations: in-memory indexes, a 1-byte memory budget with "
             "SpillToDisk (every index spills to the disk-backed B+ tree when created over >= 1 row) and VIBESQL_VERIF_FORCE_DISK_INDEX=1 (disk-backed "
             "bulk-loaded B+ tree from creation). The back-end is invisible in the specification, so conformance of each configuration (answers, "
             "outcomes, table contents, and the index contents read back through the back-end) to Engine.tla / SqlSem.tla is the property.",
        note=TRUST + "Same bounds and sampling as C02. The 100 000-row threshold itself is not reached; the hook forces the same code path."),
    "C18": dict(
        engine="engine", category="model_checking", technique=T_ENGINE, design="DESIGN.md section 6 (C18), section 10",
        text="Engine!Apply defines saving and loading back as the identity on tables, rows and index definitions. (a) MC_Persist.tla enumerates rows of "
             "abstract value classes for a table with one column per type class (INTEGER, BIGINT, SMALLINT, DOUBLE PRECISION, VARCHAR, BOOLEAN, DATE, "
             "TIME, TIMESTAMP) and a second table with the parameterised types (CHAR(3), CHAR(300), VARCHAR(1000), VARCHAR, NUMERIC(10,2), DECIMAL(5,0), "
             "REAL, FLOAT): 64-bit extremes, NaN, +-Infinity, -0.0, subnormal, empty / quote / backslash / semicolon / LF / CR LF / CR / tab / "
             "comment-looking / Unicode strings, strings of 280 and 600 characters, calendar boundaries - each class alone and all classes together, inserted through the storage API - followed by a "
             "reload in binary, compressed and JSON format and SELECT *. (b) A seeded sample of the MC_Idx histories (DML, six index shapes incl. prefix "
             "and UNIQUE) is followed by a reload in each format and ten index-relevant probe queries. After the reload TLC compares rows (exact, "
             "floats as shortest round-trip tokens), column lists, column types and nullability (against what was observed before the reload), the "
             "index registry, the contents of every index, and validates the probe answers against EvalQ.",
        note=TRUST + "Quick: 243 value-class scenarios + 250 histories x 3 formats; thorough 3 000 histories. Views, triggers, roles and spatial indexes "
             "are not part of the compared state; INTERVAL columns are not in the value tables."),
    "C19": dict(
        engine="engine", category="model_checking", technique=T_ENGINE, design="DESIGN.md section 6 (C19), section 10",
        text="Same scenarios and comparison as C18 with the SQL dump (save_sql_dump, then vibesql_executor::load_sql_dump into a new database): the "
             "reload must reproduce every table with the same columns and exactly the same rows for all value classes (negative and 64-bit extreme "
             "numbers, NaN / infinities / -0.0, strings with quotes, backslashes, semicolons, newlines, lines starting with '--', Unicode). Which "
             "index definitions a dump carries is left open by the property: the index registry observed after the reload is taken over, and the "
             "probe queries are validated on the reloaded state.",
        note=TRUST + "Quick: 52 value-class scenarios + 250 histories; thorough 3 000 histories."),
    "C20": dict(
        engine="engine", category="fault_enumeration", technique="fault model and outcome alphabet in TLA+ (MC_Persist.tla, Engine.tla); TLC-enumerated faults applied to real files; outcomes validated by TLC",
        design="DESIGN.md section 6 (C20), section 10",
        text="MC_Persist.tla (mode fault) enumerates faults on the file of a saved database (three rows of extreme value classes, two indexes) in "
             "each of the four formats: truncation at every offset of the range, single-bit flips (bits 0 and 7), 4-byte windows overwritten with "
             "0, 1, 0x7fffffff, 0xffffffff (length fields), and seeded garbage from an offset; offsets are absolute from the start and from the end. "
             "The harness applies each fault to the real file and loads it in a child process (vq_load) under a 3 GB address-space limit and a 20 s "
             "wall clock; Engine!Apply allows exactly the outcomes ok and err - panic, abort, out-of-memory and hang are violations.",
        note="The specification contributes the fault model and the outcome alphabet, nothing deeper (thin, as announced in DESIGN.md). Quick: offsets "
             "0..16 and the last 16 bytes (about 900 damaged loads); thorough: every offset up to 700, i.e. the whole file for the binary/JSON/SQL formats. "
             "Arbitrary byte strings unrelated to a valid file are represented only by the garbage faults."),
    "C32": dict(
        engine="engine", category="model_checking", technique=T_SEM, design="DESIGN.md section 6 (C32), section 10",
        text="Family F9: three defining queries (projection with filter, GROUP BY aggregate with a column list, join) each used as a view, as a CTE and "
             "as an inlined derived table by three referencing queries (SELECT *, filter + projection, GROUP BY). TLC checks view = CTE = derived table "
             "on the model for every enumerated database (ThmView) and validates every recorded result against EvalQ of the inlined meaning; run plain "
             "and with indexes + ANALYZE, on databases that include empty base tables.",
        note=TRUST + "Quick: T1 <= 2 rows, T2 <= 1; thorough T2 <= 2. Recursive CTEs, views over views, and LIMIT / OFFSET inside a view, CTE or derived-table definition are outside the model (the reference semantics slices only the outermost query; a seeded change of exactly that kind is not detected, see seeded/C32-view-pushdown-ignores-limit)."),
    "C33": dict(
        engine="engine", category="model_checking", technique=T_ENGINE, design="DESIGN.md section 6 (C33), section 10",
        text="MC_Ddl.tla: every history (from three starting points) of CREATE / DROP TABLE on one re-used name, CREATE / DROP INDEX, ALTER TABLE ADD "
             "COLUMN (with and without DEFAULT) / DROP COLUMN / CHANGE COLUMN (rename), INSERT with 1, 2 and 3 values, UPDATE, DELETE and BEGIN / COMMIT / "
             "ROLLBACK, with table and index names also spelled in lower case; the model is checked for 'every index names an existing table and existing "
             "columns, every row is as wide as the column list'. After every statement TLC compares the catalog's table list, the catalog's AND the "
             "stored table's column lists, row widths and contents, the index registry and the contents of every index with Engine!Apply "
             "(DoAddCol / DoDropCol / DoRenCol); five probe queries (SELECT *, index-driven filters, projections of an added / renamed column) are "
             "validated against EvalQ after every history.",
        note=TRUST + "Quick: <= 3 statements after the starting point, thorough <= 4. Dropping or renaming an indexed column may be refused or may "
             "take the index along (both conform); columns used by constraints, RENAME TABLE, schemas and ALTER ... ADD/DROP CONSTRAINT are outside this model."),
    "C21": dict(
        engine="values", category="model_checking",
        technique="TLA+ law specification (ValueLaws.tla); TLC enumerates the abstract value universes (MC_Values), vq_values records the real ==/cmp/partial_cmp/Hash relation tables, container behaviour and SQL DISTINCT/GROUP BY/set-operation/JOIN results, TLC validates the recorded tables against the laws (TraceValues)",
        design="DESIGN.md section 6 (C21), section 10",
        text="The property demands laws, not a particular relation, so the specification never predicts the relation: ValueLaws.tla states reflexive / symmetric / "
             "transitive ==, cmp(a,b) converse of cmp(b,a), transitive <=, cmp = Equal <=> ==, partial_cmp agreeing with cmp where defined, equal values hash "
             "equally, and that HashMap / BTreeMap / sort and the duplicate-eliminating SQL operators (DISTINCT, GROUP BY, UNION / INTERSECT / EXCEPT, "
             "COUNT(DISTINCT); JOIN / IN with an acceptance set) produce exactly the == classes. TLC enumerates a representative universe (type tag x value "
             "class over all 15 SqlValue types and NULL: NaN payloads, +-0, +-Inf, extreme integers, equal numbers in different integer types, intervals in "
             "different units) - all pairs and triples - plus every placement of value classes in a typed column for the SQL operators; the harness "
             "evaluates the real operations and logs the relation tables; TLC checks the laws on them. MC_Values also model-checks that the law set rejects "
             "every single-cell corruption of a lawful relation (184 corruptions).",
        note=TRUST + "Quick: 122-value universe (26 788 pairs, 1.98 M triples) + 1 503 SQL scenarios; thorough: 221 values (12 M triples), 21 899 scenarios. "
             "Representatives per class, not all values. One known finding (Interval == vs cmp, pinned by existing tests) is reported as KNOWN-FINDING."),
    "C22": dict(
        engine="values", category="model_checking",
        technique="TLA+ calendar / text-form specification (Temporal.tla); TLC enumerates valid DATE/TIME/TIMESTAMP/INTERVAL values, their text forms and edited texts (MC_Temporal), vq_temporal drives the real Display/FromStr/Interval::new, TLC validates (TraceTemporal)",
        design="DESIGN.md section 6 (C22), section 10",
        text="Temporal.tla defines calendar validity (month lengths, leap years, field ranges), the canonical text of a value and its other lossless text forms; "
             "TLC checks on the model the 146 097-day Gregorian cycle, that the canonical text is injective, that no text is a form of two values and that the "
             "reference reader inverts the writer. Round trip: every combination of boundary components (years 1, 999, 1900, 1999, 2000, 2023, 2024, 9999; "
             "all months; boundary days / hours / minutes / seconds; 0..9 fractional digits) is formatted by the real code and read back - same components, "
             "every form reads as the value; interval literals (single-unit and compound) denote the months / days / microseconds the spec assigns. Totality: "
             "every single edit (replace, insert, delete, duplicate, swap, truncate over an alphabet with 2-, 3- and 4-byte characters and overflowing digit "
             "runs) of 18 seed texts, plus seeded deeper edit sequences; every parse must return ok or err, never panic, and an accepted text must survive "
             "its own round trip.",
        note=TRUST + "Model checking for the round trip, exploration for totality (single edits exhaustive, deeper edits sampled inside the spec from Seed). "
             "Quick: 14 722 scenarios; thorough 53 250. Parsers are run under catch_unwind (they neither recurse nor allocate by declared sizes)."),
    "C27": dict(
        engine="wire", category="model_checking",
        technique="TLA+ reference decoder with acceptance sets (Wire.tla) evaluated by TLC; TLC-enumerated byte streams replayed into the real decoder; every call validated against the spec by TLC (TraceWire)",
        design="DESIGN.md section 6 (C27), section 10",
        text="Wire.tla is a reference decoder for PostgreSQL v3 frontend framing that returns, for any byte string, the SET of answers a correct decoder may "
             "give (need more / error / message) with the frame end. MC_Wire makes TLC enumerate structured byte streams (every type x boundary length incl. "
             "negative, 0..5, exact-1..exact+2, i32::MAX x payload over {NUL,'a',0xC3,0xA9} x trailers; startup packets alike; concatenated well-formed "
             "messages cut at every position) and check round trip, prefix => need-more, frame bound and non-empty acceptance sets. vq_wire (server source "
             "compiled in by #[path]) replays each stream as feed/decode calls on the real FrontendMessage::decode / decode_startup under catch_unwind; TLC "
             "decides for each call: outcome class allowed, no panic, need => nothing consumed, error => at most the frame, message => exactly the frame and "
             "(where determined) exactly the reference message, bytes behind untouched.",
        note=TRUST + "Quick: payload <= 3, startup body <= 4, one-piece delivery (23 934 streams); thorough: <= 4 / <= 5 plus two cut points (176 858). Harness "
             "built with overflow checks on. Connection-level handling (connection.rs) is not covered."),
    "C28": dict(
        engine="wire", category="model_checking",
        technique="TLA+ reference encoder and independent one-frame parser (Wire.tla) model-checked by TLC; TLC-enumerated messages encoded by the real code; every frame validated by TLC (TraceWire)",
        design="DESIGN.md section 6 (C28), section 10",
        text="Wire.tla holds a reference encoder and an independent one-frame parser for all backend variants; TLC proves over the scenario domain that the "
             "parser inverts the encoder, the length field counts the bytes after the type byte, a frame stops parsing when a byte is added or removed, and "
             "distinct messages have distinct encodings. MC_WireEnc enumerates every BackendMessage variant over small field alphabets (300-byte strings, "
             "i32/i16 extremes, NULL / empty / binary values, lists, rows of 32768 / 65534 / 65535 columns); vq_wire encodes each with the real "
             "BackendMessage::encode into an empty buffer and behind another message; TLC requires earlier bytes untouched, exactly one frame, length = "
             "bytes after the type byte, parse-back equal to the message (maps as sets) and byte equality with the reference where field order is fixed.",
        note=TRUST + "Quick MaxList 2 (281 scenarios), thorough MaxList 3 (1 009). Not representable in the protocol and out of the domain: strings with NUL, "
             "more than 65535 columns."),
    "C29": dict(
        engine="wire", category="model_checking",
        technique="TLA+ state machine of the password store (Auth.tla) model-checked by TLC; TLC-generated histories and probe sets replayed on the real PasswordStore; every verdict validated against the spec by TLC (TraceAuth)",
        design="DESIGN.md section 6 (C29), section 10",
        text="Auth.tla models the store (user -> kind argon2 | md5 | other, password) and states acceptance as an iff; the MD5 digest is represented by its "
             "input (password o user, salt), assumed injective. MC_Auth explores every store reachable by <= 2 add / load steps over all creation modes (API, "
             "pre-hashed, {MD5}, raw, malformed PHC, password file) including overwrites, checks the model's theorems (at most one password opens an account, "
             "no account open to both exchanges, accepted responses well-formed for the issued salt, superseded passwords rejected, an Add changes no other "
             "user's verdicts), and emits per distinct state its shortest history plus the full probe set (all user x password cleartext requests; MD5 "
             "responses from every password x user x salt plus 11 near-miss forms). Concrete digests are input construction only; vq_auth drives the real "
             "PasswordStore (source compiled in by #[path]); TLC compares every accept / reject with the iff.",
        note=TRUST + "Quick: 573 states / 68 720 events; thorough 1 261 / 151 254. Two users, four passwords incl. empty and non-ASCII, two salts. One known "
             "finding (bare MD5 digest accepted, pinned by existing tests) is reported as KNOWN-FINDING."),
    "C34": dict(
        engine="engine", category="model_checking", technique=T_ENGINE, design="DESIGN.md section 6 (C34), section 10",
        text="Engine!WithTriggers is the definition: one body execution per matching trigger per affected row with that row's OLD / NEW images, once per "
             "statement for statement-level triggers (also when no row matches), WHEN gating, UPDATE OF filtering, and - when a firing fails - the whole "
             "statement fails and nothing changes anywhere. MC_Trg.tla enumerates DML histories (single and multi-row INSERT / UPDATE / DELETE, statements "
             "matching zero rows, key changes that do not name the watched column) on T1 with four trigger sets: BEFORE / AFTER row triggers for every event; "
             "statement triggers next to a row trigger; WHEN (NEW.V > 0), WHEN (OLD.V <> NEW.V), UPDATE OF (V); failing bodies (CHECK of a side table) at each "
             "row position next to an audit trigger. Trigger bodies write (tag, OLD.ID, OLD.V, NEW.ID, NEW.V) into an audit table; the model is checked for "
             "the firing-count law; triggers are created through the SQL front end; after every statement TLC compares T1, the audit table and the side "
             "table with the specification.",
        note=TRUST + "Quick: <= 2 statements after the starting point per trigger set, thorough <= 3. Where the statement assigns the watched column without "
             "changing its value, both readings of UPDATE OF (assigned / changed) conform. Triggers whose bodies touch the subject table, cascaded firings "
             "and INSTEAD OF are outside the model."),
    "C17": dict(
        engine="btree", category="model_checking",
        technique="TLA+ ordered-multimap model (BTree.tla); GEN MC_BTree (BFS with VIEW, and -simulate), RUN vq_btree (public BTreeIndex API over PageManager on a temp dir, child-process isolated), VAL TraceBTree (deterministic fold, acceptance sets, WellFormed on the decoded page dump)",
        design="DESIGN.md section 6 (C17), section 10",
        text="BTree.tla is the ordered multimap key -> bag of row ids with the acceptance sets for lookup / multi-lookup / range-scan answers and WellFormed(dump) "
             "(sorted keys in and across leaves, consistent separators, uniform leaf depth, leaf chain visiting every leaf once). TLC enumerates all call sequences "
             "(insert, delete, delete_specific, reload) of boundary-directed windows, identified up to the resulting multimap, over empty, insert-built and "
             "bulk-loaded trees whose sizes sit on both sides of every height change (degree 5 / 6 / 9 VARCHAR schemas, INTEGER at the production fan-out 204, "
             "composite keys with NULL components, duplicate keys), plus TLC-simulated random walks, a re-open family and heavy-duplicate keys. After each "
             "history the harness looks every key of the universe up, runs 80-140 range scans (one- and two-sided, inverted, all inclusiveness combinations), "
             "multi-lookups and dumps every reachable page; TLC validates every outcome, return value, answer and the dump against the model. The model itself is "
             "checked for the step laws and for WellFormed accepting canonical trees and rejecting single-field corruptions.",
        note=TRUST + "Quick: 11 310 scenarios (depth 2-3); thorough: 128 929 (depth 3-4, wide nodes). The page decoder and rank concretisation in vq_btree are "
             "trusted. Two known findings (re-opening the index file; a key with more than ~510 row ids) are reported as KNOWN-FINDING."),
    "C25": dict(
        engine="engine", category="model_checking", technique=T_ENGINE, design="DESIGN.md section 6 (C25), section 10",
        text="In the specification the cache does not exist: a cached query (action cq) has exactly the meaning of the query on the current state. The harness "
             "drives QuerySignature::from_sql, QueryResultCache::get / insert / invalidate_table and extract_tables_from_select the way the sqllogictest adapter "
             "does (lookup by text signature, on a miss execute and insert with the extracted tables, invalidate_table(target) after a write). MC_Cache.tla "
             "enumerates every interleaving of ten cached queries and ten writes: texts that differ only in the case of a string literal, tables reached "
             "through an IN subquery, a join, a derived table, a CTE, UNION, a scalar subquery and a view, writes by INSERT / UPDATE / DELETE / TRUNCATE and "
             "DROP + CREATE of a table. TLC validates every answer - served from the cache or not - against EvalQ on the specification state; the run is "
             "rejected as vacuous if no answer came from the cache. The model constant Fill = 2 makes every miss be filled by two readers that missed at "
             "the same time (the second store replaces an entry with the same signature); both variants are run.",
        note=TRUST + "Quick: histories of <= 3 actions after the setup (both Fill variants), thorough <= 4 for one reader. The adapter itself is test code and out of reach; changes in "
             "crates/vibesql-executor/src/cache/*.rs are observed. One known finding (view over a written base table) is reported as KNOWN-FINDING."),
    "C26": dict(
        engine="engine", category="model_checking", technique=T_ENGINE, design="DESIGN.md section 6 (C26), section 10",
        text="Engine.tla carries the access-control state (roles, grants) and defines: under a non-admin role a statement runs only if the role holds SELECT on "
             "every base table it can read rows of - through FROM, joins, derived tables, CTEs, views down to their base tables, subqueries in any clause, the "
             "source of INSERT ... SELECT - and the write privilege on its target; otherwise it fails and changes nothing. MC_Sec.tla enumerates histories that "
             "interleave GRANT / REVOKE (issued as ADMIN) of the four privileges on two tables with 27 statements issued under role R1 that reach the protected "
             "table through every such shape (scan, index filter, two join forms, derived table, CTE, view, IN / NOT IN / EXISTS / scalar subqueries in SELECT, "
             "HAVING, UPDATE ... SET, UPDATE / DELETE ... WHERE, UNION, both implementations of INSERT ... SELECT), from three starting points; the model is "
             "checked for the property's two obligations (SecLaw). TLC compares outcome, all table contents and every query answer after every statement.",
        note=TRUST + "Quick: <= 2 steps (a step = SET ROLE + action), thorough <= 3. One-directional where the property is: refusing a statement although the "
             "privileges are present is accepted; an UPDATE / DELETE that only lacks SELECT for a subquery may end as a no-op. DDL under a restricted role, "
             "column privileges and role membership are outside the model."),
    "C23": dict(
        engine="total", category="exploration",
        technique="input model in TLA+ (MC_Parser.tla: small-scope token sequences, one-step mutations of seed statements, nesting shapes) enumerated by TLC; every input parsed by the real parser (deep nesting in child processes); outcomes validated by TLC against the outcome alphabet (TraceArith.tla)",
        design="DESIGN.md section 6 (C23), section 10",
        text="MC_Parser.tla is the input model: (small) every token sequence up to length 2 (thorough 3) over a 60-token alphabet of keywords, identifiers, "
             "literals, punctuation, a non-ASCII identifier, an unterminated string and an odd character; (mut) every text one mutation away (delete, duplicate, "
             "swap, insert any alphabet token at any position, truncate) from 19 seed statements covering SELECT forms, DML, DDL, triggers, transactions, GRANT and "
             "temporal literals; (nest) seventeen nesting / repetition shapes (parentheses, unary operators, CASE, subqueries, function calls, AND / + chains, IN "
             "lists, column lists, joins, UNION, unbalanced parentheses, an unterminated string, huge identifiers and digit runs) at depths 10 .. 10 000 (thorough "
             "100 000). Each input is handed to Parser::parse_sql - nested inputs each in a child process with a 4 GB address space and a 60 s clock, so that a "
             "stack overflow, an abort, an allocation failure or a hang is an observation; TLC accepts exactly the outcomes 'statement' and 'parse error'.",
        note="Thin, as announced in DESIGN.md: the specification contributes the input model and the outcome alphabet, it does not say which inputs are statements. "
             "Quick: 3 661 + 14 244 + 68 inputs; thorough 219 661 + 14 244 + 85. Arbitrary Unicode beyond the alphabet is not enumerated."),
    "C24": dict(
        engine="total", category="model_checking",
        technique="exact boundary arithmetic in TLA+ (Arith.tla) and hostile-statement model (MC_Hostile.tla) enumerated by TLC; statements executed on the real engine (one child process per hostile statement); observations validated by TLC (TraceArith.tla)",
        design="DESIGN.md section 6 (C24), section 10",
        text="(a) Arith.tla computes integer arithmetic near the 64-bit boundaries exactly with pairs Big(a, n) = a * 2^63 + n and defines the allowed "
             "observations: the exact value (integer, or a float equal to it), NULL or an error; for an out-of-range result or floating-point operands also the "
             "floating-point rounding - never an integer that differs from the exact value (a wrapped value differs in a) and never a panic. MC_Arith "
             "enumerates +, -, *, unary minus, SUM, / 0 and % 0 over 13 x 13 boundary operands in three contexts (select list, WHERE, BIGINT column / aggregate). "
             "(b) MC_Hostile.tla enumerates 921 hostile but plausible statements: 68 expressions (type mismatches, division by zero, extreme and malformed "
             "literals, overflowing casts, giant REPEAT / LPAD, bad dates, missing columns) in 12 contexts (select list, WHERE, GROUP BY, ORDER BY, HAVING, aggregate "
             "arguments, UPDATE SET, DELETE WHERE, CHECK), wrong arity, CHAR / VARCHAR truncation of non-ASCII text, missing objects, duplicate definitions, "
             "malformed DDL and fragments; each runs in its own child process after a setup and is followed by a sanity statement. TLC accepts: the hostile "
             "statement ends ok or err (no panic, abort, hang), the sanity statement succeeds.",
        note=TRUST + "Release-mode wrap-around is covered through the value oracle (a wrapped integer is rejected whatever the build profile); the harness is "
             "built with overflow checks on. Panics recorded by every other check's runs are violations of those checks' own reports (outcome panic)."),
    "C30": dict(
        engine="engine", category="model_checking", technique=T_ENGINE + "; the implementation is the compiled Python extension driven from Python",
        design="DESIGN.md section 6 (C30), section 10",
        text="MC_Bind.tla gives every cursor.execute(text, params) call its meaning as an ordinary Engine action: the statement obtained by replacing each '?' outside "
             "string literals, left to right, by a literal of the corresponding parameter - no memory of earlier calls with the same text, no change of structure by "
             "quotes or '?' inside values. TLC enumerates every sequence of calls over seven statement texts (INSERT, three SELECT shapes incl. a '?' inside a string "
             "literal with and without a real placeholder next to it, UPDATE, DELETE) and parameter values (0, 1, -1, None; 'a', 'it''s', '?', 'a?b', '', an "
             "injection-shaped string, 'a;b', None), with the set of texts already used kept in the state identity (statement cache). The Python driver hands text and "
             "tuple to the extension built from /repo and projects table contents, fetched rows and rowcount; TraceEngine validates every call like any statement.",
        note=TRUST + "Quick: sequences of <= 2 calls (2 574 scenarios), thorough <= 3. Floats (incl. inf / nan), bool and very large integers as parameters, "
             "executemany and several cursors on one connection are not in this model."),
    "C31": dict(
        engine="cli", category="model_checking",
        technique="explicit TLA+ reference model of RFC 4180 / JSON import and export (CsvJson.tla) with TLC-checked laws; TLC-enumerated scenarios (MC_Csv.tla) replayed into the CLI's real \\copy code (vq_cli); every step validated by TLC (TraceCsv.tla)",
        design="DESIGN.md section 6 (C31), section 10",
        text="CsvJson.tla: text is a sequence of code points; an RFC 4180 writer and a total parser (quoted fields, doubled quotes, embedded comma / LF / "
             "CRLF, LF or CRLF record ends, optional final line end, header record), a JSON array-of-objects reader / writer, and the meaning of an "
             "import: each record is 'must' (has to arrive as exactly that row), 'may' (the property leaves it open: padded numbers, JSON bool / nested "
             "values, missing keys) or 'no' (cannot be data of the table: unknown key, non-number for a numeric column). JudgeImport demands ALWAYS: "
             "every other table and the catalog unchanged, old rows kept, an import that reports an error changed nothing; for well-formed files: an "
             "all-'must' file is not refused and the new rows equal the records as a multiset; the round trip import(export(rows)) = rows. TLC checks "
             "the model's own laws (parse(write(x)) = x, parser totality, JSON read(write(d)) = d, the verdict operator flags dropped bystanders, lost "
             "and extra rows). MC_Csv enumerates table contents over the value classes {plain, empty, comma, quote, LF, CRLF, the text NULL, a SQL "
             "fragment, padded, number-looking, NULL, negative and large integers, a float} x {csv, json} and import files from the CSV grammar "
             "(quoting, separators, line ends, wrong column counts, unterminated quotes, header variants) and JSON documents (keys with punctuation and "
             "SQL fragments, unknown / missing / repeated keys, every JSON value type). vq_cli drives MetaCommand::parse + SqlExecutor::handle_copy + "
             "DataIO (compiled from /repo by #[path]) and records file text and the whole database after every step.",
        note=TRUST + "Driven as the REPL drives it, not through a terminal. Quick 717 scenarios, thorough 5 079. DATE / BOOLEAN / DECIMAL columns, file paths "
             "with blanks or quotes, surrogate-pair escapes and exponent floats are outside the model; the empty unquoted CSV field may be NULL or '' for "
             "VARCHAR; malformed files are only required to be safe."),
}

NOT_APPLICABLE = {
}

PLANNED = "check not built yet (same technique planned, see DESIGN.md section 6); not claimed"

HOOK_COMMITS = ["2f8c5872cefe0a8b8470394988dc531f4f461daa"]
ENGINES = {
    "cli": {
        "path": "/verif/spec/CsvJson.tla",
        "text": "TLA+ reference model of CSV (RFC 4180) and JSON import / export with the verdict operator JudgeImport (CsvJson.tla), scenario model "
                "MC_Csv.tla, trace validation TraceCsv.tla; executed through vq_cli (the CLI's copy handler and DataIO compiled from /repo)",
    },
    "total": {
        "path": "/verif/spec/Arith.tla",
        "text": "TLA+ models for the totality properties: exact boundary arithmetic (Arith.tla, MC_Arith), hostile statements (MC_Hostile), parser inputs (MC_Parser) "
                "and the outcome alphabets (TraceArith.tla); executed through vq_run with child-process isolation",
    },
    "btree": {
        "path": "/verif/spec/BTree.tla",
        "text": "TLA+ ordered-multimap model of the disk-backed B+ tree (BTree.tla) with its scenario generator (MC_BTree) and trace validator (TraceBTree); "
                "harness binary vq_btree",
    },
    "values": {
        "path": "/verif/spec/ValueLaws.tla",
        "text": "TLA+ law / calendar specifications for the value layer (ValueLaws.tla, Temporal.tla) with their enumeration models (MC_Values, MC_Temporal) "
                "and trace validators (TraceValues, TraceTemporal); harness binaries vq_values, vq_temporal",
    },
    "wire": {
        "path": "/verif/spec/Wire.tla",
        "text": "TLA+ specifications of the PostgreSQL wire framing (Wire.tla: reference decoder with acceptance sets, reference encoder and frame parser) and of "
                "password authentication (Auth.tla), their enumeration models (MC_Wire, MC_WireEnc, MC_Auth) and trace validators (TraceWire, TraceAuth); harness "
                "binaries vq_wire, vq_auth compile the server's protocol/messages.rs and auth/password.rs in by #[path]",
    },
    "engine": {
        "path": "/verif/spec/Engine.tla",
        "text": "TLA+ specification of the database as a state machine (Engine.tla: catalog, tables, constraints, foreign keys with referential "
                "actions, indexes, transactions, savepoints; SqlSem.tla: denotational semantics of the SELECT subset), model-checked with TLC "
                "(MC_Txn, MC_Dml, MC_Dml2, MC_Fk, MC_Idx, MC_Sem), and TLC trace validation (TraceEngine.tla) of executions recorded from the real "
                "engine by harness/vq_run",
    },
}
NOTES = ("See DESIGN.md (section 10 = what is built and claimed now). Properties whose check is not finished - or whose check still reports "
         "unexplained mismatches on the unchanged tree and is therefore not registered - are listed under not_applicable with that reason; they are "
         "planned with the same technique, not judged inapplicable. Genuine defects repaired in /repo are recorded in /verif/known_findings.json "
         "('fixed:' lines). MANIFEST.json is generated by bin/mkmanifest from lib/manifest_data.py.")
