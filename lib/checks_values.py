"""C21 (equality / ordering / hashing of SQL values are mutually consistent) and C22 (temporal text round trip,
parsing is total).  GEN: spec/MC_Values.tla, spec/MC_Temporal.tla (TLC enumerates the abstract values / texts / edits);
RUN: harness/src/bin/vq_values.rs, vq_temporal.rs (real vibesql_types + SQL operators); VAL: spec/TraceValues.tla over
spec/ValueLaws.tla, spec/TraceTemporal.tla over spec/Temporal.tla.  No expected value lives in this file."""
import collections
import copy
import json
import os
import shutil
import time

import engine_check as ec
import vcommon as vc
from props_base import prop


# ---------------------------------------------------------------------------------------------------- helpers
def _clean_events(events_path, verdict, want, limit=2000):
    """First recorded events (not flagged by VAL) that satisfy `want`: raw material for the bite self-test."""
    flagged = {(b["sc"], b["i"]) for b in verdict["bad"]}
    res = []
    with open(events_path) as fh:
        for ln in fh:
            e = json.loads(ln)
            if e["a"]["a"] == "reset" or (e["sc"], e["i"]) in flagged:
                continue
            if want(e):
                res.append(e)
                if len(res) >= limit:
                    break
    return res


def _bite(prop_id, trace_module, mutants):
    """Binding self-test, run on every check: each mutant is a recorded, conforming event with ONE field corrupted by hand;
    VAL must reject every one of them (otherwise the validation is vacuous: tool error, not a verdict)."""
    wd = os.path.join(vc.RUN, "bite_%s" % prop_id)
    shutil.rmtree(wd, ignore_errors=True)
    os.makedirs(wd)
    lines, names = [], []
    for k, (name, e) in enumerate(mutants):
        e = copy.deepcopy(e)
        e["sc"] = "bite-%02d-%s" % (k, name)
        lines.append({"a": {"a": "reset"}, "sc": e["sc"], "i": 0, "cfg": e.get("cfg", "default"), "out": "ok", "sql": "-- reset"})
        lines.append(e)
        names.append(e["sc"])
    path = os.path.join(wd, "events.ndjson")
    vc.write_ndjson(path, lines)
    v = vc.validate(trace_module, trace_module + ".cfg", path, os.path.join(wd, "val"), shards=1)
    caught = {b["sc"]: b["what"] for b in v["bad"]}
    missed = [n for n in names if n not in caught]
    if missed or not names:
        raise vc.ToolError("%s: binding self-test failed, corrupted events accepted by %s: %s" % (prop_id, trace_module, missed or "no mutant could be built"))
    shutil.rmtree(wd, ignore_errors=True)
    return [{"mutant": n.split("-", 2)[2], "rejected_as": caught[n]} for n in names]


def _samples(events_path, n=3):
    out, seen = [], set()
    with open(events_path) as fh:
        for ln in fh:
            e = json.loads(ln)
            if e["a"]["a"] == "reset":
                continue
            key = (e["a"]["a"], e["a"].get("k") or e["a"].get("sql"))
            if key in seen:
                continue
            seen.add(key)
            out.append({"scenario": e["sc"], "cfg": e.get("cfg"), "sql": [e.get("sql", "")[:300]]})
    step = max(1, len(out) // n)
    return out[::step][:n]


# ---------------------------------------------------------------------------------------------------- C21
C21_RULE = ("each scenario is one universe of abstract SQL values (type tag x value class) emitted by TLC from MC_Values: the whole "
            "domain at once (all pairs and triples, all types mixed) and, per column type, every placement of value classes on the "
            "two sides of a table; the harness evaluates the real ==, cmp, partial_cmp, Hash, HashMap, BTreeMap, sort and the SQL "
            "operators; distinct = distinct (column type, value sequence, sides); non-trivial = at least two different value "
            "classes or the same class on both sides of a set operation")


def _c21_cov(events_path):
    per_type = collections.defaultdict(lambda: collections.Counter())
    distinct, nontrivial, biggest = set(), 0, 0
    classes = set()
    with open(events_path) as fh:
        for ln in fh:
            e = json.loads(ln)
            a = e["a"]
            if a["a"] != "laws":
                continue
            key = (a["sql"], json.dumps(a["vals"]), json.dumps(a["side"]))
            if key in distinct:
                continue
            distinct.add(key)
            biggest = max(biggest, e.get("n", 0))
            for v in a["vals"]:
                classes.add((v["t"], v["c"]))
            if len(a["vals"]) >= 2:
                nontrivial += 1
            if a["sql"]:
                per_type[a["sql"]]["scenarios"] += 1
                if e.get("sqlout") != "ok":
                    per_type[a["sql"]]["setup_" + str(e.get("sqlout"))] += 1
                for name, q in (e.get("q") or {}).items():
                    per_type[a["sql"]]["%s_%s" % (name, q["out"])] += 1
    return {"distinct_scenarios": len(distinct), "distinct_nontrivial": nontrivial, "largest_universe": biggest,
            "abstract_values_exercised": len(classes), "sql_operator_outcomes_per_column_type": {t: dict(c) for t, c in sorted(per_type.items())}}


def _c21_mutants(events_path, verdict):
    ok = lambda e: e.get("out") == "ok" and e.get("n", 0) >= 2
    mut = []
    # 1. one cell of the recorded == table flipped
    ev = _clean_events(events_path, verdict, lambda e: ok(e) and e["n"] <= 6, 400)
    if ev:
        e = copy.deepcopy(ev[0])
        e["eq"][0][1] = 1 - e["eq"][0][1]
        mut.append(("eq-cell", e))
        e = copy.deepcopy(ev[0])
        e["cmp"][0][1] = {0: 1, 1: 0, -1: 0}[e["cmp"][0][1]]
        mut.append(("cmp-cell", e))
    # 2. the hash of one of two different-position equal values changed
    for e0 in ev:
        if e0["eq"][0][1] == 1:
            e = copy.deepcopy(e0)
            e["h"][0] = "0000000000000000"
            mut.append(("hash", e))
            e = copy.deepcopy(e0)
            e["hm"][1] = 2
            mut.append(("hashmap-entry", e))
            break
    # 3. one row of a SQL result dropped / duplicated
    for e0 in ev:
        q = e0.get("q") or {}
        if e0["a"]["sql"] and e0.get("sqlout") == "ok" and q.get("dst", {}).get("out") == "ok" and q["dst"]["rows"]:
            e = copy.deepcopy(e0)
            e["q"]["dst"]["rows"] = e["q"]["dst"]["rows"] + [e["q"]["dst"]["rows"][0]]
            mut.append(("distinct-duplicate-row", e))
            if q.get("grp", {}).get("out") == "ok" and q["grp"]["rows"]:
                e = copy.deepcopy(e0)
                e["q"]["grp"]["rows"][0]["cnt"] += 1
                mut.append(("group-count", e))
            if q.get("join", {}).get("out") == "ok" and [1, 1] in q["join"]["rows"] and e0["pc"][0][0] != 2:
                e = copy.deepcopy(e0)
                e["q"]["join"]["rows"] = [r for r in e["q"]["join"]["rows"] if r != [1, 1]]
                mut.append(("join-lost-pair", e))
            break
    return mut


@prop("C21")
def check_c21(prop_id, tier, seed):
    t0 = time.time()
    scen, stats = vc.gen_scenarios(prop_id, "MC_Values", "MC_Values.cfg", ["ValueLaws.tla"], consts={"Tier": '"%s"' % tier}, workers=1)
    stats = dict(stats)
    stats["exhaustive"] = True
    # the whole-universe scenario dominates VAL time: keep it in a part of its own so that it gets its own harness process
    big = [s for s in scen if not s["steps"][0]["sql"]]
    rest = [s for s in scen if s["steps"][0]["sql"]]
    cfgs = [{"name": "default", "args": []}]
    parts = [{"name": "universe", "scenarios": big, "configs": cfgs}, {"name": "sql", "scenarios": rest, "configs": cfgs}]
    wd = os.path.join(vc.RUN, "work_%s" % prop_id)
    verdict, events, _ = ec.run_parts(prop_id, parts, wd, trace_module="TraceValues", trace_cfg="TraceValues.cfg", harness_bin="vq_values",
                                      shards=max(2, min(vc.NCPU - 3, 12)))
    bite = _bite(prop_id, "TraceValues", _c21_mutants(events, verdict))
    cov = _c21_cov(events)
    cnt = verdict["cnt"]
    cov.update({
        "rule": C21_RULE, "samples": _samples(events),
        "pairs_checked": cnt.get("pairs", 0), "triples_checked": cnt.get("triples", 0),
        "equal_pairs_of_different_positions": cnt.get("eqpairs", 0), "cmp_equal_pairs_of_different_positions": cnt.get("cmpeq", 0),
        "partial_cmp_none_pairs": cnt.get("pcnone", 0), "sql_results_checked": cnt.get("queries", 0),
        "sql_operator_errors_accepted": cnt.get("sqlerr", 0), "sql_setups_unsupported": cnt.get("sqlskip", 0),
        "law_checker_single_cell_mutations_all_detected": int(stats.get("distinct_states", 0)) - 1,
        "binding_self_test": bite,
    })
    return ec.finish(prop_id, tier, seed, t0, verdict, events, stats, harness_bin="vq_values", trace_module="TraceValues",
                     rule=C21_RULE, extra_cov=cov, configs=cfgs,
                     assumptions=["TLC evaluates the specification correctly",
                                  "the harness' class table (abstract class -> concrete SqlValue) builds the value it names; it contains no expectation",
                                  "hash equality is observed through std's DefaultHasher with fixed keys (equal Hash input streams are what the law is about)",
                                  "the SQL part reads the stored values back by a plain scan and states the laws over those"])


# ---------------------------------------------------------------------------------------------------- C22
C22_RULE = ("each scenario is either one valid temporal value emitted by TLC from MC_Temporal (round trip through the real Display and "
            "FromStr, then every other text form of the value; for INTERVAL every single-unit and compound literal form of the value) "
            "or one mutated text (all single edits of the seed texts, plus pseudo-random deeper edit sequences drawn inside the spec); "
            "distinct = distinct action sequence; non-trivial = a value with a non-zero fractional part or more than one text form, an "
            "interval value, or a mutated text")


def _gen_temporal(prop_id, mode, tier, seed, maxmut, fan):
    return vc.gen_scenarios(prop_id, "MC_Temporal", "MC_Temporal.cfg", ["Temporal.tla"],
                            consts={"Mode": '"%s"' % mode, "Tier": '"%s"' % tier, "MaxMut": maxmut, "Fan": fan, "Seed": seed if mode == "deep" else 1},
                            workers=1)


def _c22_mutants(events_path, verdict):
    mut = []
    ev = _clean_events(events_path, verdict, lambda e: e["a"]["a"] == "rt" and e["out"] == "ok" and e["a"]["c"]["ns"] != 0 and e["a"]["k"] == "ts", 5)
    if ev:
        e = copy.deepcopy(ev[0])
        e["back"]["d"] = e["back"]["d"] % 28 + 1
        mut.append(("roundtrip-day", e))
        e = copy.deepcopy(ev[0])
        e["back"]["ns"] = e["back"]["ns"] - 1
        mut.append(("roundtrip-nanosecond", e))
        e = copy.deepcopy(ev[0])
        e["txt"] = e["txt"][:-1]
        mut.append(("display-text", e))
        e = copy.deepcopy(ev[0])
        e["same"] = False
        mut.append(("code-eq-disagrees", e))
    ev = _clean_events(events_path, verdict, lambda e: e["a"]["a"] == "pf" and e["out"] == "ok", 5)
    if ev:
        e = copy.deepcopy(ev[0])
        e["out"] = "err"
        mut.append(("form-rejected", e))
        e = copy.deepcopy(ev[0])
        e["a"]["txt"] = e["a"]["txt"] + "0" if "." not in e["a"]["txt"] else e["a"]["txt"][:-1] + ("1" if e["a"]["txt"][-1] != "1" else "2")
        mut.append(("action-text-not-a-form", e))
    ev = _clean_events(events_path, verdict, lambda e: e["a"]["a"] == "iv" and e["out"] == "ok" and e["iv"]["dbg"] == 1, 5)
    if ev:
        e = copy.deepcopy(ev[0])
        e["iv"]["d"] += 1
        mut.append(("interval-days", e))
    ev = _clean_events(events_path, verdict, lambda e: e["a"]["a"] == "mut" and e["out"] == "err", 5)
    if ev:
        e = copy.deepcopy(ev[0])
        e["out"] = "panic"
        mut.append(("mutant-panic", e))
    return mut


def _c22_cov(events_path):
    c = collections.Counter()
    scen = collections.OrderedDict()
    with open(events_path) as fh:
        for ln in fh:
            e = json.loads(ln)
            a = e["a"]
            if a["a"] == "reset":
                continue
            kind = a.get("k", "interval")
            c["%s_%s_%s" % (a["a"], kind, e["out"])] += 1
            s = scen.setdefault(e["sc"], {"key": [], "nt": False})
            s["key"].append(json.dumps(a, sort_keys=True))
            if a["a"] in ("iv", "mut") or (a["a"] == "rt" and a["c"]["ns"] != 0) or (a["a"] == "pf" and len(s["key"]) > 2):
                s["nt"] = True
    distinct = {}
    for s in scen.values():
        distinct.setdefault("|".join(s["key"]), s["nt"])
    return {"distinct_scenarios": len(distinct), "distinct_nontrivial": sum(1 for v in distinct.values() if v),
            "outcomes_per_action_and_kind": dict(sorted(c.items()))}


@prop("C22")
def check_c22(prop_id, tier, seed):
    t0 = time.time()
    deep = {"quick": (4, 3), "thorough": (4, 6)}[tier]          # (levels, pseudo-random edits per reached text)
    jobs = [("enum", 0, 3), ("mut", 1, 3), ("deep", deep[0], deep[1])]
    # (sequential: gen_scenarios names its scratch files by module and pid; results are cached by spec hash)
    res = [_gen_temporal(prop_id, j[0], tier, seed, j[1], j[2]) for j in jobs]
    agg = {"states_generated": 0, "distinct_states": 0, "mc_ok": True, "exhaustive": True, "wall": 0}
    parts, seen = [], set()
    cfgs = [{"name": "default", "args": []}]
    gen_counts = {}
    for (mode, _, _), (scen, st) in zip(jobs, res):
        agg["states_generated"] += st["states_generated"]
        agg["distinct_states"] += st["distinct_states"]
        agg["mc_ok"] = agg["mc_ok"] and st["mc_ok"]
        agg["wall"] = max(agg["wall"], st["wall"])
        keep = []
        for s in scen:
            if not s["steps"]:
                continue
            k = json.dumps(s["steps"], sort_keys=True)
            if k in seen:
                continue
            seen.add(k)
            keep.append({"id": "%s-%s" % (s["id"], mode), "steps": s["steps"]})
        gen_counts[mode] = len(keep)
        parts.append({"name": mode, "scenarios": keep, "configs": cfgs})
    wd = os.path.join(vc.RUN, "work_%s" % prop_id)
    verdict, events, _ = ec.run_parts(prop_id, parts, wd, trace_module="TraceTemporal", trace_cfg="TraceTemporal.cfg", harness_bin="vq_temporal")
    bite = _bite(prop_id, "TraceTemporal", _c22_mutants(events, verdict))
    cov = _c22_cov(events)
    cnt = verdict["cnt"]
    cov.update({
        "rule": C22_RULE, "samples": _samples(events, 4),
        "scenarios_per_generation_mode": gen_counts,
        "round_trips_checked": cnt.get("rt", 0), "round_trips_with_fraction": cnt.get("frac", 0), "text_forms_checked": cnt.get("pf", 0),
        "interval_forms_checked": cnt.get("iv", 0), "mutants_parsed": cnt.get("mut", 0), "mutants_accepted": cnt.get("mut_ok", 0),
        "mutants_rejected": cnt.get("mut_err", 0), "mutants_still_canonical_checked_for_value": cnt.get("mut_canon", 0),
        "events_not_conforming": cnt.get("notok", 0),
        "exhaustive": True,
        "exhaustive_note": "round trip and text forms: every combination of the boundary components; totality: every single edit of the seed "
                           "texts (exhaustive), deeper edit sequences are a pseudo-random sample drawn inside the specification (seeded)",
        "binding_self_test": bite,
    })
    return ec.finish(prop_id, tier, seed, t0, verdict, events, agg, harness_bin="vq_temporal", trace_module="TraceTemporal",
                     rule=C22_RULE, extra_cov=cov, configs=cfgs,
                     assumptions=["TLC evaluates the specification correctly",
                                  "the harness builds Date/Time/Timestamp from the components through their public fields and joins mutant "
                                  "tokens verbatim (the '@' classes are concretised by a table without expectations)",
                                  "months/days/microseconds of an Interval are private: they are read from the derived Debug text; equality with "
                                  "the reference spelling is observed through the public == as well"])
