"""Property table: which specification modules, scenario sources and configurations decide each property."""
import json
import os
import shutil
import time
import zlib

import engine_check as ec
import vcommon as vc

from props_base import CHECKS, prop  # noqa: F401
# ON DELETE / ON UPDATE RESTRICT is not accepted by the parser ("Expected NO ACTION, CASCADE, SET NULL, or SET DEFAULT"),
# so the restricting behaviour is exercised through NO ACTION (the executors treat both alike)
FK_MODES = ["cascade", "setnull", "noaction"]
# (Mode of C -> P, mode of G -> C, whether D -> P restricts): the last two variants have no DIRECT restricting reference to P,
# the refusal comes from one level further down the cascade
FK_VARIANTS = [("cascade", "cascade", "TRUE"), ("setnull", "cascade", "TRUE"), ("noaction", "cascade", "TRUE"),
               ("cascade", "noaction", "FALSE"), ("setnull", "noaction", "FALSE")]


def replay(prop_id, path):
    """Re-run one recorded scenario through RUN + VAL and print the verdict."""
    with open(path) as fh:
        r = json.load(fh)
    sc = r["scenario"]
    cfg = {"name": r.get("cfg") or "default", "args": r.get("cfg_args", []), "env": r.get("cfg_env") or None}
    wd = os.path.join(vc.RUN, "replay_run_%s" % prop_id)
    twin = r.get("twin")
    if twin:
        cfgs = [c for c in twin["configs"] if c]
        cfgs = cfgs if len({c["name"] for c in cfgs}) == len(cfgs) else cfgs[:1]
        verdict, events, _ = ec.run_parts(prop_id, [{"name": "replay", "scenarios": [sc], "configs": cfgs}], wd,
                                          trace_module=twin["trace_module"], trace_cfg=twin["trace_module"] + ".cfg", shards="by_scenario")
    else:
        tm = r.get("trace_module") or "TraceEngine"
        verdict, events, _ = ec.run_parts(prop_id, [{"name": "replay", "scenarios": [sc], "configs": [cfg]}], wd,
                                          trace_module=tm, trace_cfg=tm + ".cfg", harness_bin=r.get("harness") or "vq_run")
    for e in vc.read_ndjson(events):
        print("%3s %-6s %s" % (e.get("i"), e.get("out"), e.get("sql")))
    print(json.dumps(verdict["bad"], indent=1))
    if verdict["bad"]:
        print("VIOLATION property=%s replay=%s" % (prop_id, path))
        return 1
    return 0


DISK_CFG = {"name": "disk", "args": ["--idx", "--own-dir"], "env": {"VIBESQL_VERIF_FORCE_DISK_INDEX": "1"}}


# ---------------------------------------------------------------- C13 / C14: transactions and savepoints
@prop("C13", "C14")
def check_txn(prop_id, tier, seed):
    t0 = time.time()
    depth = {"quick": 6, "thorough": 7}[tier]
    scen, stats = vc.gen_scenarios(prop_id, "MC_Txn", "MC_Txn.cfg", ec.ENGINE_DEPS, consts={"MaxDepth": depth}, workers=1)
    stats["exhaustive"] = True
    # the index registry and index contents must come back with ROLLBACK / ROLLBACK TO under both index back-ends:
    # in-memory indexes are copied at BEGIN, a disk-backed B+ tree is shared between the live index and that copy
    step = {"quick": 4, "thorough": 2}[tier]
    parts = [{"name": "txn", "scenarios": scen, "configs": [{"name": "default", "args": ["--idx"]}]},
             {"name": "txn_disk", "scenarios": scen[::step], "configs": [DISK_CFG]}]
    wd = os.path.join(vc.RUN, "work_%s" % prop_id)
    verdict, events, _ = ec.run_parts(prop_id, parts, wd)
    # C13 and C14 share scenarios and validation; a mismatch on SAVEPOINT / ROLLBACK TO / RELEASE belongs to C14,
    # one on COMMIT / ROLLBACK to C13, anything else (BEGIN, DML inside the transaction, DDL) is reported by both
    other = {"C13": ("sp", "rollto", "release"), "C14": ("commit", "rollback")}[prop_id]
    return ec.finish(prop_id, tier, seed, t0, verdict, events, stats, owns=lambda b: b.get("a") not in other,
                     configs=[parts[0]["configs"][0], DISK_CFG])


# ---------------------------------------------------------------- query semantics families (MC_Sem)
SEM_BOUNDS = {
    "quick":    {"Max1": 2, "Max2": 1, "IntVals": "{0, 1}", "StrVals": '{"a", "A"}'},
    "thorough": {"Max1": 3, "Max2": 1, "IntVals": "{0, 1}", "StrVals": '{"a", "A"}'},
}


def merge_queries(scen, prop_id, fam):
    """Histories emitted by MC_Sem are <prefix of DDL/inserts> + one query; merge the queries that share a
    prefix (= one database state) into one scenario so the database is built once."""
    groups = {}
    order = []
    for sc in scen:
        steps = sc["steps"]
        k = json.dumps(steps[:-1], sort_keys=True)
        if k not in groups:
            groups[k] = {"id": "%s-%s-%05d" % (prop_id, fam, len(order)), "steps": list(steps[:-1])}
            order.append(k)
        groups[k]["steps"].append(steps[-1])
    return [groups[k] for k in order]


def sem_parts(prop_id, tier, families, configs=None, bounds=None, sample=None, seed=1):
    import random
    parts, agg = [], {"states_generated": 0, "distinct_states": 0, "mc_ok": True, "exhaustive": True}
    for fam in families:
        consts = dict(bounds or SEM_BOUNDS[tier])
        consts["Family"] = '"%s"' % fam
        scen, stats = vc.gen_scenarios(prop_id, "MC_Sem", "MC_Sem.cfg", ec.ENGINE_DEPS, consts=consts, workers=8)
        agg["states_generated"] += stats["states_generated"]
        agg["distinct_states"] += stats["distinct_states"]
        agg["mc_ok"] = agg["mc_ok"] and stats["mc_ok"]
        merged = merge_queries(scen, prop_id, fam)
        if sample and len(merged) > sample:
            rnd = random.Random(seed * 1000003 + zlib.crc32(fam.encode()) % 1000)
            merged = rnd.sample(merged, sample)
            agg["exhaustive"] = False
        parts.append({"name": fam, "scenarios": merged, "configs": configs or [{"name": "default", "args": []}]})
    return parts, agg


def sem_check(prop_id, tier, seed, families, configs=None, sample=None):
    t0 = time.time()
    parts, stats = sem_parts(prop_id, tier, families, configs=configs, sample=sample, seed=seed)
    wd = os.path.join(vc.RUN, "work_%s" % prop_id)
    verdict, events, _ = ec.run_parts(prop_id, parts, wd)
    return ec.finish(prop_id, tier, seed, t0, verdict, events, stats)


@prop("C01")
def check_c01(prop_id, tier, seed):
    return sem_check(prop_id, tier, seed, ["F1", "F1L", "F2", "F3", "F4", "F4S", "F5", "F5S", "F6", "F7"])


# ---------------------------------------------------------------- DML under constraints (MC_Dml)
DML_OWNS = {
    # C09: a statement the spec accepts changed other rows / another number of rows than specified, or was refused
    "C09": lambda b: b.get("a") in ("ins", "inssel", "upd", "del") and b.get("exp") == "ok" and b.get("what") in ("state", "cnt", "out", "panic"),
    # C10: a statement whose effect violates a declared constraint was accepted
    # (and: after an accepted statement the PK/UNIQUE hash indexes that enforcement relies on are out of step)
    "C10": lambda b: (b.get("exp") == "err" and b.get("obs") == "ok") or (b.get("exp") == "ok" and b.get("what") == "index")
                     or b.get("what") == "panic",
    # C11: a statement that failed (as specified) nevertheless changed the database or its indexes
    "C11": lambda b: (b.get("exp") == "err" and b.get("obs") != "ok" and b.get("what") in ("state", "index")) or b.get("what") == "panic",
}


def _gen_add(agg, stats):
    for k in ("states_generated", "distinct_states"):
        agg[k] = agg.get(k, 0) + stats.get(k, 0)
    agg["mc_ok"] = agg.get("mc_ok", True) and stats.get("mc_ok", True)


@prop("C09", "C10", "C11")
def check_dml(prop_id, tier, seed):
    """C09/C10/C11 share MC_Dml; C10 and C11 add the models whose defects they own:
    C10: MC_Dml2 (INSERT ... SELECT, append mode, UNIQUE index) and MC_Idx (CREATE UNIQUE INDEX, DML against UNIQUE indexes);
    C11: MC_Dml2 (a later source row fails after earlier ones were stored) and MC_Fk (refused after referential actions ran)."""
    t0 = time.time()
    depth = {"quick": 6, "thorough": 7}[tier]
    agg = {"exhaustive": True}
    cfgs = [{"name": "default", "args": ["--idx"]}]
    scen, stats = vc.gen_scenarios(prop_id, "MC_Dml", "MC_Dml.cfg", ec.ENGINE_DEPS, consts={"MaxDepth": depth}, workers=1)
    _gen_add(agg, stats)
    parts = [{"name": "dml", "scenarios": scen, "configs": cfgs}]
    models = ["MC_Dml"]
    # REPLACE INTO / INSERT ... ON DUPLICATE KEY UPDATE (Engine!DoUpsert): all three properties speak about INSERT
    s5, st5 = vc.gen_scenarios(prop_id, "MC_Upsert", "MC_Upsert.cfg", ec.ENGINE_DEPS, consts={"MaxDepth": {"quick": 3, "thorough": 5}[tier]}, workers=1)
    _gen_add(agg, st5)
    parts.append({"name": "upsert", "scenarios": s5, "configs": cfgs})
    models.append("MC_Upsert")
    if prop_id == "C09":
        # the WHERE / SET grammar over three primary-key shapes (MC_Where): row selection of UPDATE / DELETE vs SELECT
        for shape in ("pk1", "pk2", "nopk"):
            s6, st6 = vc.gen_scenarios(prop_id, "MC_Where", "MC_Where.cfg", ec.ENGINE_DEPS,
                                       # thorough: pairs of statements for the single-column key (23 000 histories), single ones otherwise
                                       consts={"MaxDepth": 2 if (tier == "thorough" and shape == "pk1") else 1, "Shape": '"%s"' % shape}, workers=1)
            _gen_add(agg, st6)
            parts.append({"name": "where_" + shape, "scenarios": [{"id": "%s-%s" % (x["id"], shape), "steps": x["steps"]} for x in s6], "configs": cfgs})
        models.append("MC_Where")
    if prop_id in ("C10", "C11"):
        s2, st2 = vc.gen_scenarios(prop_id, "MC_Dml2", "MC_Dml2.cfg", ec.ENGINE_DEPS, consts={"MaxDepth": {"quick": 4, "thorough": 5}[tier]}, workers=1)
        _gen_add(agg, st2)
        parts.append({"name": "dml2", "scenarios": s2, "configs": cfgs})
        models.append("MC_Dml2")
    if prop_id == "C10":
        s3, st3 = idx_scenarios(prop_id, tier, seed, {"quick": 10 ** 9, "thorough": 150000}[tier], 0)
        _gen_add(agg, st3)
        parts.append({"name": "idx", "scenarios": s3, "configs": cfgs})
        models.append("MC_Idx")
    if prop_id == "C11":
        for m, gm, wd_ in FK_VARIANTS:
            s4, st4 = vc.gen_scenarios(prop_id, "MC_Fk", "MC_Fk.cfg", ec.ENGINE_DEPS,
                                       consts={"MaxDepth": {"quick": 3, "thorough": 4}[tier], "Mode": '"%s"' % m, "GMode": '"%s"' % gm, "WithD": wd_},
                                       workers=1)
            _gen_add(agg, st4)
            tag = "%s_%s_%s" % (m, gm, wd_[0])
            parts.append({"name": "fk_" + tag, "scenarios": [{"id": "%s-%s" % (x["id"], tag), "steps": x["steps"]} for x in s4], "configs": cfgs})
        models.append("MC_Fk")
    wd = os.path.join(vc.RUN, "work_%s" % prop_id)
    verdict, events, _ = ec.run_parts(prop_id, parts, wd)
    return ec.finish(prop_id, tier, seed, t0, verdict, events, agg, owns=DML_OWNS[prop_id], configs=cfgs, extra_cov={"models": models})


# ---------------------------------------------------------------- index families (MC_Idx)
def idx_scenarios(prop_id, tier, seed, sample, nprobes):
    import random
    depth = {"quick": 3, "thorough": 4}[tier]
    consts = {"MaxDepth": depth, "MaxRows": 3, "MaxIdx": 2}
    wd_out = {}
    scen, stats = vc.gen_scenarios(prop_id, "MC_Idx", "MC_Idx.cfg", ec.ENGINE_DEPS, consts=consts, workers=1, timeout=3000)
    probes = stats.get("probes")
    if probes is None:
        # the probe list is printed once by the model (ASSUME PrintT(<<"PROBES", ...>>)): regenerate it with a depth-0 run
        pwd = os.path.join(vc.RUN, "gen_probes_%d" % os.getpid())
        rc, out = vc.tlc("MC_Idx", "MC_Idx_probes.cfg", pwd, workers=1, timeout=300)
        probes = vc.extract_tagged(out, "PROBES")[-1]
        shutil.rmtree(pwd, ignore_errors=True)
    rnd = random.Random(seed)
    stats["exhaustive"] = True
    if nprobes:
        # query answers can only depend on indexes in histories that create one and change data at least twice (an index
        # over a single change is covered by them as a prefix); the others are left to the structural check C15
        scen = [s for s in scen if any(x["a"] == "ci" for x in s["steps"])
                and sum(1 for x in s["steps"] if x["a"] in ("ins", "upd", "del", "trunc")) >= 2]
        stats["index_relevant_histories"] = len(scen)
    if sample and len(scen) > sample:
        scen = rnd.sample(scen, sample)
        stats["exhaustive"] = False
    out = []
    for sc in scen:
        ps = probes if nprobes >= len(probes) else (rnd.sample(probes, nprobes) if nprobes else [])
        out.append({"id": sc["id"], "steps": sc["steps"] + ps})
    return out, stats


IDX_CONFIGS = {
    "default": {"name": "default", "args": ["--idx"]},
    "noindex": {"name": "noindex", "args": ["--elide-index"]},
    "spill": {"name": "spill", "args": ["--index-budget", "1", "--idx"]},
    "disk": {"name": "disk", "args": ["--idx", "--own-dir"], "env": {"VIBESQL_VERIF_FORCE_DISK_INDEX": "1"}},
}


def idx_check(prop_id, tier, seed, cfg_names, owns=None, sample=None, nprobes=None):
    t0 = time.time()
    sample = sample or {"quick": 1200, "thorough": 6000}
    nprobes = nprobes or {"quick": 16, "thorough": 24}
    sample, nprobes = sample[tier], nprobes[tier]
    scen, stats = idx_scenarios(prop_id, tier, seed, sample, nprobes)
    parts = [{"name": "idx", "scenarios": scen, "configs": [IDX_CONFIGS[c] for c in cfg_names]}]
    wd = os.path.join(vc.RUN, "work_%s" % prop_id)
    verdict, events, _ = ec.run_parts(prop_id, parts, wd)
    return ec.finish(prop_id, tier, seed, t0, verdict, events, stats, owns=owns, configs=parts[0]["configs"])


@prop("C02")
def check_c02(prop_id, tier, seed):
    return idx_check(prop_id, tier, seed, ["default", "noindex"])


@prop("C15")
def check_c15(prop_id, tier, seed):
    # C15 is about the index structures themselves: it owns the IndexInv mismatches (what = index) and panics;
    # wrong query answers through an index belong to C02/C16, wrong statement outcomes to C09/C10.
    # Queries do not change index structures, so no probes are appended: every history of the bounded graphs is
    # replayed.  Three models feed it: MC_Idx (user-defined indexes of every shape on an unconstrained table),
    # MC_Dml (the PRIMARY KEY / UNIQUE constraint hash indexes under key-changing, NULL-ing and rejected statements)
    # and MC_Txn (index contents across ROLLBACK / ROLLBACK TO SAVEPOINT).
    t0 = time.time()
    scen, stats = idx_scenarios(prop_id, tier, seed, {"quick": 10 ** 9, "thorough": 150000}[tier], 0)
    d = {"quick": 6, "thorough": 7}[tier]
    dml, st2 = vc.gen_scenarios(prop_id, "MC_Dml", "MC_Dml.cfg", ec.ENGINE_DEPS, consts={"MaxDepth": d}, workers=1)
    txn, st3 = vc.gen_scenarios(prop_id, "MC_Txn", "MC_Txn.cfg", ec.ENGINE_DEPS, consts={"MaxDepth": {"quick": 5, "thorough": 6}[tier]}, workers=1)
    ups, st4 = vc.gen_scenarios(prop_id, "MC_Upsert", "MC_Upsert.cfg", ec.ENGINE_DEPS, consts={"MaxDepth": {"quick": 3, "thorough": 5}[tier]}, workers=1)
    for k in ("states_generated", "distinct_states"):
        stats[k] = stats.get(k, 0) + st2.get(k, 0) + st3.get(k, 0) + st4.get(k, 0)
    cfgs = [IDX_CONFIGS["default"]]
    parts = [{"name": "idx", "scenarios": scen, "configs": cfgs}, {"name": "dml", "scenarios": dml, "configs": cfgs},
             {"name": "txn", "scenarios": txn, "configs": cfgs}, {"name": "upsert", "scenarios": ups, "configs": cfgs}]
    wd = os.path.join(vc.RUN, "work_%s" % prop_id)
    verdict, events, _ = ec.run_parts(prop_id, parts, wd)
    return ec.finish(prop_id, tier, seed, t0, verdict, events, stats, owns=lambda b: b.get("what") in ("index", "panic"),
                     configs=cfgs, extra_cov={"models": ["MC_Idx", "MC_Dml", "MC_Txn", "MC_Upsert"]})


@prop("C16")
def check_c16(prop_id, tier, seed):
    return idx_check(prop_id, tier, seed, ["default", "spill", "disk"])


# ---------------------------------------------------------------- C05..C08, C32: the query families under the
# configurations that select the alternative execution mechanisms (cost-based join order after ANALYZE, index
# nested-loop / index scans when indexes exist).  Same oracle (SqlSem.tla via TraceEngine), same scenarios as the
# model MC_Sem emits; the spec-level theorems (ThmRewrite, ThmTLP, ThmSlice, ThmView) are checked by TLC while it
# generates them.
def inject_before_queries(scen, actions):
    """Insert abstract actions (ANALYZE, CREATE INDEX ...) just before the first query of each scenario."""
    out = []
    for sc in scen:
        steps = sc["steps"]
        k = next((i for i, s in enumerate(steps) if s.get("a") == "q"), len(steps))
        out.append({"id": sc["id"], "steps": steps[:k] + actions + steps[k:]})
    return out


def _ci(n, t, cols, uq=False):
    return {"a": "ci", "n": n, "t": t, "uq": uq, "cols": [{"c": c, "dir": d, "plen": 0} for c, d in cols]}


VARIANTS = {
    "plain": [],
    "analyze": [{"a": "analyze", "t": ""}],
    "indexed": [_ci("IX1A", "T1", [("A", "asc")]), _ci("IX2A", "T2", [("A", "asc")]), _ci("IX1B", "T1", [("B", "desc")])],
    "indexed_analyze": [_ci("IX1A", "T1", [("A", "asc")]), _ci("IX2A", "T2", [("A", "asc")]), _ci("IX1AB", "T1", [("A", "asc"), ("B", "asc")]),
                        {"a": "analyze", "t": ""}],
}


def sem_variant_check(prop_id, tier, seed, families, variants, bounds=None, configs=None):
    t0 = time.time()
    parts, stats = sem_parts(prop_id, tier, families, bounds=bounds, configs=configs)
    allparts = []
    for v in variants:
        for p in parts:
            sc = p["scenarios"] if v == "plain" else inject_before_queries(p["scenarios"], VARIANTS[v])
            sc = [{"id": "%s-%s" % (s["id"], v), "steps": s["steps"]} for s in sc]
            allparts.append({"name": "%s_%s" % (p["name"], v), "scenarios": sc, "configs": p["configs"]})
    wd = os.path.join(vc.RUN, "work_%s" % prop_id)
    verdict, events, _ = ec.run_parts(prop_id, allparts, wd)
    return ec.finish(prop_id, tier, seed, t0, verdict, events, stats,
                     extra_cov={"families": families, "variants": variants})


JOIN_BOUNDS = {
    "quick":    {"Max1": 2, "Max2": 1, "IntVals": "{0, 1}", "StrVals": '{"a"}'},
    "thorough": {"Max1": 2, "Max2": 1, "IntVals": "{0, 1}", "StrVals": '{"a"}'},
}
JOIN_VARIANTS = {"quick": ["plain", "indexed_analyze"], "thorough": ["plain", "analyze", "indexed", "indexed_analyze"]}


@prop("C05")
def check_c05(prop_id, tier, seed):
    return sem_variant_check(prop_id, tier, seed, ["F3", "F8"], JOIN_VARIANTS[tier], bounds=JOIN_BOUNDS[tier])


@prop("C06")
def check_c06(prop_id, tier, seed):
    return sem_variant_check(prop_id, tier, seed, ["F1", "F1L", "F1C"], ["plain", "indexed"])


@prop("C07")
def check_c07(prop_id, tier, seed):
    return sem_variant_check(prop_id, tier, seed, ["F4", "F4S", "F4M"], ["plain", "indexed"])


@prop("C08")
def check_c08(prop_id, tier, seed):
    return sem_variant_check(prop_id, tier, seed, ["F5", "F5S", "F6"], ["plain", "indexed"])


@prop("C32")
def check_c32(prop_id, tier, seed):
    return sem_variant_check(prop_id, tier, seed, ["F9"], JOIN_VARIANTS[tier], bounds=JOIN_BOUNDS[tier])


# ---------------------------------------------------------------- C03: columnar fast path = row execution
def harvest_queries(parts):
    """Distinct query actions of the generated scenarios (in first-seen order)."""
    seen, out = set(), []
    for p in parts:
        for sc in p["scenarios"]:
            for s in sc["steps"]:
                if s.get("a") == "q":
                    k = json.dumps(s, sort_keys=True)
                    if k not in seen:
                        seen.add(k)
                        out.append(s)
    return out


def jv(v):
    if v is None:
        return {"t": "n", "n": 0, "s": "", "d": 1}
    if isinstance(v, str):
        return {"t": "s", "n": 0, "s": v, "d": 1}
    return {"t": "i", "n": int(v), "s": "", "d": 1}


def lit(v):
    return {"k": "lit", "v": jv(v)}


def table_prefix(parts):
    """The DDL prefix (CREATE TABLE ... / CREATE VIEW ...) shared by the generated scenarios."""
    for p in parts:
        for sc in p["scenarios"]:
            return [s for s in sc["steps"] if s.get("a") in ("ct", "cv")]
    return []


def big_tables(seed, sizes, int_dom, str_dom, per_size=1):
    """Seeded larger tables for the shared schema T1(A INT, B INT), T2(A INT, C VARCHAR): the impl -> spec
    direction (sizes beyond what TLC enumerates exhaustively; the oracle is still TLC on the recorded trace)."""
    import random
    rnd = random.Random(seed)
    out = []
    for n in sizes:
        for k in range(per_size):
            nulls = rnd.choice([0.0, 0.2, 0.6, 1.0]) if k else rnd.choice([0.0, 0.3])
            pick = lambda dom: None if rnd.random() < nulls else rnd.choice(dom)
            t1 = [[jv(pick(int_dom)), jv(pick(int_dom))] for _ in range(n)]
            t2 = [[jv(pick(int_dom)), jv(pick(str_dom))] for _ in range(max(1, n // 2))]
            out.append((n, t1, t2))
    return out


def ins_action(t, rows):
    return {"a": "ins", "t": t, "cols": [], "mode": "plain", "rows": [[lit_of(v) for v in r] for r in rows]}


def lit_of(v):
    return {"k": "lit", "v": v}


def big_scenarios(prop_id, seed, ddl, queries, sizes, int_dom=(0, 1, 2, 3, 5, 7), str_dom=("a", "A", "b", "ab", ""), per_size=2, tag="big"):
    out = []
    for j, (n, t1, t2) in enumerate(big_tables(seed, sizes, list(int_dom), list(str_dom), per_size)):
        steps = list(ddl)
        # views of the DDL prefix must come after the tables exist but may precede the rows
        if t1:
            steps.append(ins_action("T1", t1))
        if t2:
            steps.append(ins_action("T2", t2))
        out.append({"id": "%s-%s-%03d-n%d" % (prop_id, tag, j, n), "steps": steps + queries})
    return out


def cfg_diff_owner(verdict, primary, reference):
    """Attribution for twin-configuration checks: a mismatch seen under `primary` but not at the same scenario
    step under `reference` (or seen only under `reference`) is a difference BETWEEN the configurations; one seen
    identically under both belongs to the property about the common semantics."""
    by = {}
    for b in verdict["bad"]:
        by.setdefault((b["sc"], b["i"], b["what"]), set()).add(b.get("cfg"))
    return lambda b: b.get("what") == "panic" or by.get((b["sc"], b["i"], b["what"]), set()) != {primary, reference}


COLUMNAR_CFGS = [{"name": "columnar", "args": []},
                 {"name": "rowpath", "args": [], "env": {"VIBESQL_VERIF_COLUMNAR": "off"}}]


@prop("C03")
def check_c03(prop_id, tier, seed):
    t0 = time.time()
    parts, stats = sem_parts(prop_id, tier, ["F4", "F4S"], configs=COLUMNAR_CFGS)
    qs = harvest_queries(parts)
    sizes = {"quick": [4, 7, 8, 9, 16, 17, 33], "thorough": [4, 5, 7, 8, 9, 15, 16, 17, 31, 32, 33, 40, 64, 65]}[tier]
    big = big_scenarios(prop_id, seed, table_prefix(parts), qs, sizes, per_size={"quick": 1, "thorough": 3}[tier])
    parts.append({"name": "big", "scenarios": big, "configs": COLUMNAR_CFGS})
    stats["exhaustive"] = False
    wd = os.path.join(vc.RUN, "work_%s" % prop_id)
    verdict, events, _ = ec.run_parts(prop_id, parts, wd)
    # large scale (several 1024-value batches of the SIMD kernels), decided by ConfigEq.tla: the observation of every
    # aggregate query must be the same with the columnar path on and off
    n_rows, nseeds = {"quick": (2600, 1), "thorough": (20000, 3)}[tier]
    large, nq = large_columnar_scenarios(prop_id, seed, n_rows, nseeds)
    da = ["--digest-above", "0", "--no-state"]
    large_cfgs = [{"name": "rowpath", "args": da, "env": {"VIBESQL_VERIF_COLUMNAR": "off"}}, {"name": "columnar", "args": da}]
    wd2 = os.path.join(vc.RUN, "work_%s_large" % prop_id)
    v2, ev2, _ = ec.run_parts(prop_id, [{"name": "large", "scenarios": large, "configs": large_cfgs}], wd2,
                              trace_module="ConfigEq", trace_cfg="ConfigEq.cfg", shards="by_scenario")
    okq = 0
    with open(ev2) as fh:
        for ln in fh:
            e = json.loads(ln)
            if e["a"].get("a") == "q" and e["out"] == "ok" and e.get("dg", {}).get("n", 0) > 0:
                okq += 1
    if okq < len(large) * nq * len(large_cfgs) // 2:
        raise vc.ToolError("large-scale part is vacuous: only %d successful non-empty query results" % okq)
    rc = ec.finish(prop_id, tier, seed, t0, verdict, events, stats, owns=cfg_diff_owner(verdict, "columnar", "rowpath"),
                   configs=COLUMNAR_CFGS, extra_bad=v2["bad"], extra_events=ev2, extra_cfgs=large_cfgs,
                   extra_cov={"families": ["F4", "F4S", "big", "large"], "configs": ["columnar", "rowpath"],
                              "seeded_table_sizes": sizes, "aggregate_queries": len(qs), "large_rows": n_rows,
                              "large_queries_compared": v2["cnt"].get("queries", 0), "large_nonempty_ok_results": okq})
    if rc == 0 and os.environ.get("VERIF_KEEP") != "1":
        shutil.rmtree(wd2, ignore_errors=True)
    return rc


def large_columnar_scenarios(prop_id, seed, n, nseeds):
    col = lambda kind, mod, nullp=0: {"kind": kind, "mod": mod, "nullp": nullp}
    q = lambda sql: {"a": "q", "raw": sql, "ord": False}
    aggs = ["COUNT(*)", "COUNT(B)", "SUM(A)", "SUM(B)", "AVG(B)", "MIN(ID)", "MAX(ID)", "MIN(B)", "MAX(B)", "MAX(A)", "MIN(C)", "MAX(C)",
            "SUM(ID), MAX(ID), MIN(ID), COUNT(*)"]
    wheres = ["", " WHERE A < 20", " WHERE B >= 10 AND A > 3", " WHERE ID > 1500", " WHERE B IS NOT NULL AND ID <= 2100"]
    queries = [q("SELECT %s FROM TB%s" % (a, w)) for a in aggs for w in wheres]
    out = []
    for k in range(nseeds):
        steps = [{"a": "sql", "sql": "CREATE TABLE TB (ID INTEGER PRIMARY KEY, A INTEGER, B INTEGER, C VARCHAR(10))"},
                 {"a": "load", "t": "TB", "n": n, "seed": seed * 100 + k,
                  "cols": [col("seq", 1), col("int", 40, 5), col("int", 2500, 10), col("str", 7, 5)]}]
        out.append({"id": "%s-large-%d" % (prop_id, k), "steps": steps + queries})
    return out, len(queries)


# ---------------------------------------------------------------- C12: referential integrity (MC_Fk)



@prop("C12")
def check_c12(prop_id, tier, seed):
    t0 = time.time()
    depth = 4
    parts, agg = [], {"states_generated": 0, "distinct_states": 0, "mc_ok": True, "exhaustive": True}
    cfgs = [{"name": "default", "args": ["--idx"]}]
    # thorough: the same depth over every combination of the three constants (depth 5 over five variants would be ~340 000 histories)
    variants = FK_VARIANTS if tier == "quick" else [(m, gm, wd_) for m in ("cascade", "setnull", "noaction") for gm in ("cascade", "noaction")
                                                     for wd_ in ("TRUE", "FALSE")]
    for m, gm, wd_ in variants:
        scen, stats = vc.gen_scenarios(prop_id, "MC_Fk", "MC_Fk.cfg", ec.ENGINE_DEPS,
                                       consts={"MaxDepth": depth, "Mode": '"%s"' % m, "GMode": '"%s"' % gm, "WithD": wd_}, workers=1)
        for k in ("states_generated", "distinct_states"):
            agg[k] += stats[k]
        agg["mc_ok"] = agg["mc_ok"] and stats["mc_ok"]
        tag = "%s_%s_%s" % (m, gm, wd_[0])
        scen = [{"id": "%s-%s" % (s["id"], tag), "steps": s["steps"]} for s in scen]
        parts.append({"name": tag, "scenarios": scen, "configs": cfgs})
    wd = os.path.join(vc.RUN, "work_%s" % prop_id)
    verdict, events, _ = ec.run_parts(prop_id, parts, wd)
    return ec.finish(prop_id, tier, seed, t0, verdict, events, agg, configs=cfgs, extra_cov={"fk_variants": ["/".join(v) for v in variants]})


# ---------------------------------------------------------------- C04: results independent of parallelism
def par_cfg(name, thr, threads, extra_args=None):
    env = {"RAYON_NUM_THREADS": str(threads)}
    if thr is not None:
        env["PARALLEL_THRESHOLD"] = str(thr)
    return {"name": name, "args": list(extra_args or []), "env": env}


def big_par_scenarios(prop_id, seed, n_tb, n_ts, nseeds):
    col = lambda kind, mod, nullp=0: {"kind": kind, "mod": mod, "nullp": nullp}
    ct = lambda t, cols: {"a": "sql", "sql": "CREATE TABLE %s (%s)" % (t, cols)}
    q = lambda sql, ordered=False: {"a": "q", "raw": sql, "ord": ordered}
    queries = [
        q("SELECT ID, A FROM TB WHERE A < 10"),
        q("SELECT ID FROM TB WHERE A = 3 AND B > 5"),
        q("SELECT ID, B FROM TB WHERE A BETWEEN 5 AND 9 AND C = 's2'"),
        q("SELECT * FROM TB ORDER BY A, ID", True),
        q("SELECT * FROM TB ORDER BY B DESC, ID ASC LIMIT 50", True),
        q("SELECT ID, C FROM TB WHERE B IS NOT NULL ORDER BY C, B, ID LIMIT 200 OFFSET 100", True),
        q("SELECT DISTINCT A, C FROM TB"),
        q("SELECT A, COUNT(*), SUM(B), MIN(B), MAX(C) FROM TB GROUP BY A"),
        q("SELECT COUNT(*), SUM(B), MIN(A), MAX(A) FROM TB WHERE B >= 10"),
        q("SELECT TB.ID, TS.ID FROM TB INNER JOIN TS ON TB.A = TS.A WHERE TS.D < 2"),
        q("SELECT TB.ID, TS.ID FROM TB LEFT JOIN TS ON TB.B = TS.A AND TS.D = 0 WHERE TB.A = 4"),
        q("SELECT ID FROM TB WHERE A IN (SELECT A FROM TS WHERE D = 1)"),
        q("SELECT ID FROM TB WHERE A NOT IN (SELECT A FROM TS WHERE D = 1 AND A IS NOT NULL)"),
        q("SELECT ID FROM TB WHERE EXISTS (SELECT 1 FROM TS WHERE TS.A = TB.B AND TS.D = 2)"),
        q("SELECT TB.A, COUNT(*) FROM TB, TS WHERE TB.A = TS.A AND TS.D = 3 GROUP BY TB.A"),
        q("SELECT A FROM TB WHERE B < 3 UNION SELECT A FROM TS WHERE D = 4"),
    ]
    out = []
    for k in range(nseeds):
        for indexed in (False, True):
            steps = [ct("TB", "ID INTEGER PRIMARY KEY, A INTEGER, B INTEGER, C VARCHAR(10)"),
                     ct("TS", "ID INTEGER PRIMARY KEY, A INTEGER, D INTEGER"),
                     {"a": "load", "t": "TB", "n": n_tb, "seed": seed * 100 + k,
                      "cols": [col("seq", 1), col("int", 40, 5), col("int", 25, 10), col("str", 7, 5)]},
                     {"a": "load", "t": "TS", "n": n_ts, "seed": seed * 100 + 50 + k,
                      "cols": [col("seq", 1), col("int", 60, 5), col("int", 6)]}]
            if indexed:
                steps += [{"a": "sql", "sql": "CREATE INDEX IXA ON TB (A)"}, {"a": "sql", "sql": "CREATE INDEX IXSA ON TS (A)"}]
            out.append({"id": "%s-big-%d-%s" % (prop_id, k, "idx" if indexed else "plain"), "steps": steps + queries})
    return out, len(queries)


@prop("C04")
def check_c04(prop_id, tier, seed):
    t0 = time.time()
    # (a) small scale, decided against the reference semantics: PARALLEL_THRESHOLD=0 drives every parallel branch even on
    # three rows; each query is executed twice in the process
    small_cfgs = [par_cfg("par0", 0, 4, ["--twice"]), par_cfg("seq", "max", 1, ["--twice"])]
    fams = ["F1", "F3", "F4", "F5", "F6", "F7"]
    parts, stats = sem_parts(prop_id, tier, fams, configs=small_cfgs, sample={"quick": 15, "thorough": 300}[tier], seed=seed)
    wd = os.path.join(vc.RUN, "work_%s" % prop_id)
    v1, ev1, _ = ec.run_parts(prop_id, parts, wd)
    # (b) large scale (above the row floors of the parallel hash build and of rayon's parallel sort), decided by
    # ConfigEq.tla: the observations under every parallelism configuration must be equal event by event
    n_tb, n_ts, nseeds = {"quick": (3000, 1200, 1), "thorough": (20000, 5000, 3)}[tier]
    big, nq = big_par_scenarios(prop_id, seed, n_tb, n_ts, nseeds)
    da = ["--digest-above", "0", "--no-state", "--twice"]
    big_cfgs = [par_cfg("seq", "max", 1, da), par_cfg("par0_t2", 0, 2, da), par_cfg("par0_t16", 0, 16, da),
                par_cfg("hw_t16", None, 16, da), par_cfg("par1000_t4", 1000, 4, da)]
    wd2 = os.path.join(vc.RUN, "work_%s_big" % prop_id)
    v2, ev2, _ = ec.run_parts(prop_id, [{"name": "big", "scenarios": big, "configs": big_cfgs}], wd2,
                              trace_module="ConfigEq", trace_cfg="ConfigEq.cfg", shards="by_scenario")
    # a load / DDL step that fails would make the comparison vacuous: count the successful queries
    okq = 0
    with open(ev2) as fh:
        for ln in fh:
            e = json.loads(ln)
            if e["a"].get("a") == "q" and e["out"] == "ok" and e.get("dg", {}).get("n", 0) > 0:
                okq += 1
    if okq < len(big) * nq * len(big_cfgs) // 2:
        raise vc.ToolError("large-scale part is vacuous: only %d successful non-empty query results" % okq)
    stats["exhaustive"] = False
    rc = ec.finish(prop_id, tier, seed, t0, v1, ev1, stats, configs=small_cfgs, extra_bad=v2["bad"], extra_events=ev2,
                   extra_cfgs=big_cfgs,
                   extra_cov={"families": fams, "small_configs": [c["name"] for c in small_cfgs],
                              "large_configs": [c["name"] for c in big_cfgs], "large_rows": [n_tb, n_ts],
                              "large_queries_compared": v2["cnt"].get("queries", 0), "large_nonempty_ok_results": okq})
    if rc == 0 and os.environ.get("VERIF_KEEP") != "1":
        import shutil
        shutil.rmtree(wd2, ignore_errors=True)
    return rc


# ---------------------------------------------------------------- C33: schema changes keep catalog, storage and indexes consistent
def _col(c, q=""):
    return {"k": "col", "c": c, "q": q}


def _cmp(op, l, r):
    return {"k": "cmp", "op": op, "l": l, "r": r}


def _sel(t, star=True, sel=None, where=None, order=None):
    return {"a": "q", "q": {"k": "select", "with": [], "from": {"k": "table", "t": t, "as": t}, "where": where or {"k": "none"}, "group": [],
                            "having": {"k": "none"}, "star": star, "sel": sel or [], "distinct": False, "order": order or [], "limit": -1, "offset": -1}}


DDL_PROBES = [
    _sel("T1"),
    _sel("T1", where=_cmp("=", _col("A"), lit(1))),
    _sel("T1", where=_cmp(">=", _col("B"), lit(1)), order=[{"e": _col("B"), "dir": "asc", "pos": 0}]),
    _sel("T1", star=False, sel=[{"e": _col("C"), "as": "C"}]),
    _sel("T1", star=False, sel=[{"e": _col("D"), "as": "D"}], where=_cmp("=", _col("D"), lit(1))),
]


@prop("C33")
def check_c33(prop_id, tier, seed):
    t0 = time.time()
    depth = {"quick": 4, "thorough": 5}[tier]
    scen, stats = vc.gen_scenarios(prop_id, "MC_Ddl", "MC_Ddl.cfg", ec.ENGINE_DEPS, consts={"MaxDepth": depth}, workers=1)
    stats["exhaustive"] = True
    scen = [{"id": s["id"], "steps": s["steps"] + DDL_PROBES} for s in scen]
    cfgs = [{"name": "default", "args": ["--idx"]}]
    wd = os.path.join(vc.RUN, "work_%s" % prop_id)
    verdict, events, _ = ec.run_parts(prop_id, [{"name": "ddl", "scenarios": scen, "configs": cfgs}], wd)
    return ec.finish(prop_id, tier, seed, t0, verdict, events, stats, configs=cfgs, extra_cov={"probes_per_history": len(DDL_PROBES)})


# ---------------------------------------------------------------- checks that live in their own modules (lib/checks_*.py)
import glob as _glob
import importlib as _importlib
for _f in sorted(_glob.glob(os.path.join(os.path.dirname(os.path.abspath(__file__)), "checks_*.py"))):
    _importlib.import_module(os.path.basename(_f)[:-3])


# ---------------------------------------------------------------- C34: triggers (MC_Trg)
TRG_SETS = ["row", "stmt", "when", "fail"]


@prop("C34")
def check_c34(prop_id, tier, seed):
    t0 = time.time()
    depth = {"quick": 3, "thorough": 4}[tier]
    parts, agg = [], {"exhaustive": True}
    cfgs = [{"name": "default", "args": []}]
    for ts in TRG_SETS:
        scen, stats = vc.gen_scenarios(prop_id, "MC_Trg", "MC_Trg.cfg", ec.ENGINE_DEPS, consts={"MaxDepth": depth, "TrgSet": '"%s"' % ts}, workers=1)
        _gen_add(agg, stats)
        parts.append({"name": ts, "scenarios": [{"id": "%s-%s" % (s["id"], ts), "steps": s["steps"]} for s in scen], "configs": cfgs})
    wd = os.path.join(vc.RUN, "work_%s" % prop_id)
    verdict, events, _ = ec.run_parts(prop_id, parts, wd)
    return ec.finish(prop_id, tier, seed, t0, verdict, events, agg, configs=cfgs, extra_cov={"trigger_sets": TRG_SETS})


# ---------------------------------------------------------------- C26: access control (MC_Sec)
@prop("C26")
def check_c26(prop_id, tier, seed):
    t0 = time.time()
    depth = {"quick": 3, "thorough": 4}[tier]
    scen, stats = vc.gen_scenarios(prop_id, "MC_Sec", "MC_Sec.cfg", ec.ENGINE_DEPS, consts={"MaxDepth": depth}, workers=1)
    stats["exhaustive"] = True
    cfgs = [{"name": "default", "args": []}]
    wd = os.path.join(vc.RUN, "work_%s" % prop_id)
    verdict, events, _ = ec.run_parts(prop_id, [{"name": "sec", "scenarios": scen, "configs": cfgs}], wd)
    denied = okr = 0
    with open(events) as fh:
        for ln in fh:
            if '"out":"denied"' in ln:
                denied += 1
    return ec.finish(prop_id, tier, seed, t0, verdict, events, stats, configs=cfgs, extra_cov={"statements_denied": denied})


# ---------------------------------------------------------------- C25: query result cache (MC_Cache)
@prop("C25")
def check_c25(prop_id, tier, seed):
    t0 = time.time()
    depth = {"quick": 4, "thorough": 5}[tier]
    # Fill = 1: one reader; Fill = 2: two readers that missed at the same time both store their result
    scen, stats = vc.gen_scenarios(prop_id, "MC_Cache", "MC_Cache.cfg", ec.ENGINE_DEPS, consts={"MaxDepth": depth, "Fill": 1}, workers=1)
    scen2, st2 = vc.gen_scenarios(prop_id, "MC_Cache", "MC_Cache.cfg", ec.ENGINE_DEPS, consts={"MaxDepth": 4, "Fill": 2}, workers=1)
    for k in ("states_generated", "distinct_states"):
        stats[k] = stats.get(k, 0) + st2.get(k, 0)
    stats["exhaustive"] = True
    cfgs = [{"name": "default", "args": []}]
    wd = os.path.join(vc.RUN, "work_%s" % prop_id)
    verdict, events, _ = ec.run_parts(prop_id, [{"name": "cache", "scenarios": scen, "configs": cfgs},
                                                {"name": "cache2", "scenarios": [{"id": x["id"] + "-fill2", "steps": x["steps"]} for x in scen2], "configs": cfgs}], wd)
    hits = 0
    with open(events) as fh:
        for ln in fh:
            if "-- cache hit" in ln:
                hits += 1
    if hits == 0:
        raise vc.ToolError("no cached query was answered from the cache: the check would be vacuous")
    return ec.finish(prop_id, tier, seed, t0, verdict, events, stats, configs=cfgs, extra_cov={"answers_served_from_cache": hits})


# ---------------------------------------------------------------- C30: Python DB-API parameter binding (MC_Bind)
PYBIND = os.path.join(vc.HARNESS, "py", "vq_pybind")


@prop("C30")
def check_c30(prop_id, tier, seed):
    t0 = time.time()
    vc.build_python_extension()
    scen, stats = vc.gen_scenarios(prop_id, "MC_Bind", "MC_Bind.cfg", ec.ENGINE_DEPS, consts={"MaxCalls": {"quick": 3, "thorough": 4}[tier]}, workers=1)
    stats["exhaustive"] = True
    cfgs = [{"name": "default", "args": []}]
    wd = os.path.join(vc.RUN, "work_%s" % prop_id)
    verdict, events, _ = ec.run_parts(prop_id, [{"name": "bind", "scenarios": scen, "configs": cfgs}], wd, harness_bin=PYBIND)
    return ec.finish(prop_id, tier, seed, t0, verdict, events, stats, configs=cfgs, harness_bin=PYBIND)
