"""Property table: which specification modules, scenario sources and configurations decide each property."""
import json
import os
import time

import engine_check as ec
import vcommon as vc

CHECKS = {}


def prop(*ids):
    def deco(f):
        for i in ids:
            CHECKS[i] = f
        return f
    return deco


def replay(prop_id, path):
    """Re-run one recorded scenario through RUN + VAL and print the verdict."""
    with open(path) as fh:
        r = json.load(fh)
    sc = r["scenario"]
    cfg = {"name": r.get("cfg") or "default", "args": r.get("cfg_args", [])}
    wd = os.path.join(vc.RUN, "replay_run_%s" % prop_id)
    verdict, events, _ = ec.run_parts(prop_id, [{"name": "replay", "scenarios": [sc], "configs": [cfg]}], wd)
    for e in vc.read_ndjson(events):
        print("%3s %-6s %s" % (e.get("i"), e.get("out"), e.get("sql")))
    print(json.dumps(verdict["bad"], indent=1))
    if verdict["bad"]:
        print("VIOLATION property=%s replay=%s" % (prop_id, path))
        return 1
    return 0


# ---------------------------------------------------------------- C13 / C14: transactions and savepoints
@prop("C13", "C14")
def check_txn(prop_id, tier, seed):
    t0 = time.time()
    depth = {"quick": 5, "thorough": 6}[tier]
    scen, stats = vc.gen_scenarios(prop_id, "MC_Txn", "MC_Txn.cfg", ec.ENGINE_DEPS, consts={"MaxDepth": depth})
    stats["exhaustive"] = True
    parts = [{"name": "txn", "scenarios": scen, "configs": [{"name": "default", "args": []}]}]
    wd = os.path.join(vc.RUN, "work_%s" % prop_id)
    verdict, events, _ = ec.run_parts(prop_id, parts, wd)
    return ec.finish(prop_id, tier, seed, t0, verdict, events, stats)
