"""Property table: which specification modules, scenario sources and configurations decide each property."""
import json
import os
import time

import engine_check as ec
import vcommon as vc

CHECKS = {}


def prop(*ids):
    def deco(f):
        for i in ids:
            CHECKS[i] = f
        return f
    return deco


def replay(prop_id, path):
    """Re-run one recorded scenario through RUN + VAL and print the verdict."""
    with open(path) as fh:
        r = json.load(fh)
    sc = r["scenario"]
    cfg = {"name": r.get("cfg") or "default", "args": r.get("cfg_args", []), "env": r.get("cfg_env") or None}
    wd = os.path.join(vc.RUN, "replay_run_%s" % prop_id)
    verdict, events, _ = ec.run_parts(prop_id, [{"name": "replay", "scenarios": [sc], "configs": [cfg]}], wd)
    for e in vc.read_ndjson(events):
        print("%3s %-6s %s" % (e.get("i"), e.get("out"), e.get("sql")))
    print(json.dumps(verdict["bad"], indent=1))
    if verdict["bad"]:
        print("VIOLATION property=%s replay=%s" % (prop_id, path))
        return 1
    return 0


# ---------------------------------------------------------------- C13 / C14: transactions and savepoints
@prop("C13", "C14")
def check_txn(prop_id, tier, seed):
    t0 = time.time()
    depth = {"quick": 6, "thorough": 8}[tier]
    scen, stats = vc.gen_scenarios(prop_id, "MC_Txn", "MC_Txn.cfg", ec.ENGINE_DEPS, consts={"MaxDepth": depth}, workers=1)
    stats["exhaustive"] = True
    parts = [{"name": "txn", "scenarios": scen, "configs": [{"name": "default", "args": ["--idx"]}]}]
    wd = os.path.join(vc.RUN, "work_%s" % prop_id)
    verdict, events, _ = ec.run_parts(prop_id, parts, wd)
    # C13 and C14 share scenarios and validation; a mismatch on SAVEPOINT / ROLLBACK TO / RELEASE belongs to C14,
    # one on COMMIT / ROLLBACK to C13, anything else (BEGIN, DML inside the transaction, DDL) is reported by both
    other = {"C13": ("sp", "rollto", "release"), "C14": ("commit", "rollback")}[prop_id]
    return ec.finish(prop_id, tier, seed, t0, verdict, events, stats, owns=lambda b: b.get("a") not in other,
                     configs=parts[0]["configs"])


# ---------------------------------------------------------------- query semantics families (MC_Sem)
SEM_BOUNDS = {
    "quick":    {"Max1": 2, "Max2": 1, "IntVals": "{0, 1}", "StrVals": '{"a", "A"}'},
    "thorough": {"Max1": 3, "Max2": 1, "IntVals": "{0, 1}", "StrVals": '{"a", "A"}'},
}


def merge_queries(scen, prop_id, fam):
    """Histories emitted by MC_Sem are <prefix of DDL/inserts> + one query; merge the queries that share a
    prefix (= one database state) into one scenario so the database is built once."""
    groups = {}
    order = []
    for sc in scen:
        steps = sc["steps"]
        k = json.dumps(steps[:-1], sort_keys=True)
        if k not in groups:
            groups[k] = {"id": "%s-%s-%05d" % (prop_id, fam, len(order)), "steps": list(steps[:-1])}
            order.append(k)
        groups[k]["steps"].append(steps[-1])
    return [groups[k] for k in order]


def sem_parts(prop_id, tier, families, configs=None, bounds=None, sample=None, seed=1):
    import random
    parts, agg = [], {"states_generated": 0, "distinct_states": 0, "mc_ok": True, "exhaustive": True}
    for fam in families:
        consts = dict(bounds or SEM_BOUNDS[tier])
        consts["Family"] = '"%s"' % fam
        scen, stats = vc.gen_scenarios(prop_id, "MC_Sem", "MC_Sem.cfg", ec.ENGINE_DEPS, consts=consts, workers=8)
        agg["states_generated"] += stats["states_generated"]
        agg["distinct_states"] += stats["distinct_states"]
        agg["mc_ok"] = agg["mc_ok"] and stats["mc_ok"]
        merged = merge_queries(scen, prop_id, fam)
        if sample and len(merged) > sample:
            rnd = random.Random(seed * 1000003 + hash(fam) % 1000)
            merged = rnd.sample(merged, sample)
            agg["exhaustive"] = False
        parts.append({"name": fam, "scenarios": merged, "configs": configs or [{"name": "default", "args": []}]})
    return parts, agg


def sem_check(prop_id, tier, seed, families, configs=None, sample=None):
    t0 = time.time()
    parts, stats = sem_parts(prop_id, tier, families, configs=configs, sample=sample, seed=seed)
    wd = os.path.join(vc.RUN, "work_%s" % prop_id)
    verdict, events, _ = ec.run_parts(prop_id, parts, wd)
    return ec.finish(prop_id, tier, seed, t0, verdict, events, stats)


@prop("C01")
def check_c01(prop_id, tier, seed):
    return sem_check(prop_id, tier, seed, ["F1", "F1L", "F2", "F3", "F4", "F4S", "F5", "F5S", "F6", "F7"])


# ---------------------------------------------------------------- DML under constraints (MC_Dml)
DML_OWNS = {
    # C09: a statement the spec accepts changed other rows / another number of rows than specified, or was refused
    "C09": lambda b: b.get("a") in ("ins", "upd", "del") and b.get("exp") == "ok" and b.get("what") in ("state", "cnt", "out", "panic"),
    # C10: a statement whose effect violates a declared constraint was accepted
    # (and: after an accepted statement the PK/UNIQUE hash indexes that enforcement relies on are out of step)
    "C10": lambda b: (b.get("exp") == "err" and b.get("obs") == "ok") or (b.get("exp") == "ok" and b.get("what") == "index")
                     or b.get("what") == "panic",
    # C11: a statement that failed (as specified) nevertheless changed the database or its indexes
    "C11": lambda b: (b.get("exp") == "err" and b.get("obs") != "ok" and b.get("what") in ("state", "index")) or b.get("what") == "panic",
}


@prop("C09", "C10", "C11")
def check_dml(prop_id, tier, seed):
    t0 = time.time()
    depth = {"quick": 6, "thorough": 8}[tier]
    scen, stats = vc.gen_scenarios(prop_id, "MC_Dml", "MC_Dml.cfg", ec.ENGINE_DEPS, consts={"MaxDepth": depth}, workers=1)
    stats["exhaustive"] = True
    parts = [{"name": "dml", "scenarios": scen, "configs": [{"name": "default", "args": ["--idx"]}]}]
    wd = os.path.join(vc.RUN, "work_%s" % prop_id)
    verdict, events, _ = ec.run_parts(prop_id, parts, wd)
    return ec.finish(prop_id, tier, seed, t0, verdict, events, stats, owns=DML_OWNS[prop_id], configs=parts[0]["configs"])


# ---------------------------------------------------------------- index families (MC_Idx)
def idx_scenarios(prop_id, tier, seed, sample, nprobes):
    import random
    depth = {"quick": 3, "thorough": 4}[tier]
    consts = {"MaxDepth": depth, "MaxRows": 3, "MaxIdx": 2}
    wd_out = {}
    scen, stats = vc.gen_scenarios(prop_id, "MC_Idx", "MC_Idx.cfg", ec.ENGINE_DEPS, consts=consts, workers=1, timeout=3000)
    probes = stats.get("probes")
    if probes is None:
        # the probe list is printed once by the model (ASSUME PrintT(<<"PROBES", ...>>)): regenerate it with a depth-0 run
        rc, out = vc.tlc("MC_Idx", "MC_Idx_probes.cfg", os.path.join(vc.RUN, "gen_probes_%d" % os.getpid()), workers=1, timeout=300)
        probes = vc.extract_tagged(out, "PROBES")[-1]
    rnd = random.Random(seed)
    stats["exhaustive"] = True
    if sample and len(scen) > sample:
        scen = rnd.sample(scen, sample)
        stats["exhaustive"] = False
    out = []
    for sc in scen:
        ps = probes if nprobes >= len(probes) else (rnd.sample(probes, nprobes) if nprobes else [])
        out.append({"id": sc["id"], "steps": sc["steps"] + ps})
    return out, stats


IDX_CONFIGS = {
    "default": {"name": "default", "args": ["--idx"]},
    "noindex": {"name": "noindex", "args": ["--elide-index"]},
    "spill": {"name": "spill", "args": ["--index-budget", "1", "--idx"]},
    "disk": {"name": "disk", "args": ["--idx"], "env": {"VIBESQL_VERIF_FORCE_DISK_INDEX": "1"}},
}


def idx_check(prop_id, tier, seed, cfg_names, owns=None, sample=None, nprobes=None):
    t0 = time.time()
    sample = sample or {"quick": 1500, "thorough": 12000}
    nprobes = nprobes or {"quick": 14, "thorough": 24}
    sample, nprobes = sample[tier], nprobes[tier]
    scen, stats = idx_scenarios(prop_id, tier, seed, sample, nprobes)
    parts = [{"name": "idx", "scenarios": scen, "configs": [IDX_CONFIGS[c] for c in cfg_names]}]
    wd = os.path.join(vc.RUN, "work_%s" % prop_id)
    verdict, events, _ = ec.run_parts(prop_id, parts, wd)
    return ec.finish(prop_id, tier, seed, t0, verdict, events, stats, owns=owns, configs=parts[0]["configs"])


@prop("C02")
def check_c02(prop_id, tier, seed):
    return idx_check(prop_id, tier, seed, ["default", "noindex"])


@prop("C15")
def check_c15(prop_id, tier, seed):
    # C15 is about the index structures themselves: it owns the IndexInv mismatches (what = index) and panics;
    # wrong query answers through an index belong to C02/C16, wrong statement outcomes to C09/C10
    # Queries do not change index structures, so no probes are appended: every history of the bounded graph is
    # replayed (quick: exhaustive at depth 3; thorough: depth 4, 125 038 histories).
    return idx_check(prop_id, tier, seed, ["default"], owns=lambda b: b.get("what") in ("index", "panic"),
                     sample={"quick": 10 ** 9, "thorough": 10 ** 9}, nprobes={"quick": 0, "thorough": 0})


@prop("C16")
def check_c16(prop_id, tier, seed):
    return idx_check(prop_id, tier, seed, ["default", "spill", "disk"])
