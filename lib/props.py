"""Property table: which specification modules, scenario sources and configurations decide each property."""
import json
import os
import time

import engine_check as ec
import vcommon as vc

CHECKS = {}


def prop(*ids):
    def deco(f):
        for i in ids:
            CHECKS[i] = f
        return f
    return deco


def replay(prop_id, path):
    """Re-run one recorded scenario through RUN + VAL and print the verdict."""
    with open(path) as fh:
        r = json.load(fh)
    sc = r["scenario"]
    cfg = {"name": r.get("cfg") or "default", "args": r.get("cfg_args", []), "env": r.get("cfg_env") or None}
    wd = os.path.join(vc.RUN, "replay_run_%s" % prop_id)
    verdict, events, _ = ec.run_parts(prop_id, [{"name": "replay", "scenarios": [sc], "configs": [cfg]}], wd)
    for e in vc.read_ndjson(events):
        print("%3s %-6s %s" % (e.get("i"), e.get("out"), e.get("sql")))
    print(json.dumps(verdict["bad"], indent=1))
    if verdict["bad"]:
        print("VIOLATION property=%s replay=%s" % (prop_id, path))
        return 1
    return 0


# ---------------------------------------------------------------- C13 / C14: transactions and savepoints
@prop("C13", "C14")
def check_txn(prop_id, tier, seed):
    t0 = time.time()
    depth = {"quick": 6, "thorough": 8}[tier]
    scen, stats = vc.gen_scenarios(prop_id, "MC_Txn", "MC_Txn.cfg", ec.ENGINE_DEPS, consts={"MaxDepth": depth}, workers=1)
    stats["exhaustive"] = True
    parts = [{"name": "txn", "scenarios": scen, "configs": [{"name": "default", "args": ["--idx"]}]}]
    wd = os.path.join(vc.RUN, "work_%s" % prop_id)
    verdict, events, _ = ec.run_parts(prop_id, parts, wd)
    # C13 and C14 share scenarios and validation; a mismatch on SAVEPOINT / ROLLBACK TO / RELEASE belongs to C14,
    # one on COMMIT / ROLLBACK to C13, anything else (BEGIN, DML inside the transaction, DDL) is reported by both
    other = {"C13": ("sp", "rollto", "release"), "C14": ("commit", "rollback")}[prop_id]
    return ec.finish(prop_id, tier, seed, t0, verdict, events, stats, owns=lambda b: b.get("a") not in other,
                     configs=parts[0]["configs"])


# ---------------------------------------------------------------- query semantics families (MC_Sem)
SEM_BOUNDS = {
    "quick":    {"Max1": 2, "Max2": 1, "IntVals": "{0, 1}", "StrVals": '{"a", "A"}'},
    "thorough": {"Max1": 3, "Max2": 1, "IntVals": "{0, 1}", "StrVals": '{"a", "A"}'},
}


def merge_queries(scen, prop_id, fam):
    """Histories emitted by MC_Sem are <prefix of DDL/inserts> + one query; merge the queries that share a
    prefix (= one database state) into one scenario so the database is built once."""
    groups = {}
    order = []
    for sc in scen:
        steps = sc["steps"]
        k = json.dumps(steps[:-1], sort_keys=True)
        if k not in groups:
            groups[k] = {"id": "%s-%s-%05d" % (prop_id, fam, len(order)), "steps": list(steps[:-1])}
            order.append(k)
        groups[k]["steps"].append(steps[-1])
    return [groups[k] for k in order]


def sem_parts(prop_id, tier, families, configs=None, bounds=None, sample=None, seed=1):
    import random
    parts, agg = [], {"states_generated": 0, "distinct_states": 0, "mc_ok": True, "exhaustive": True}
    for fam in families:
        consts = dict(bounds or SEM_BOUNDS[tier])
        consts["Family"] = '"%s"' % fam
        scen, stats = vc.gen_scenarios(prop_id, "MC_Sem", "MC_Sem.cfg", ec.ENGINE_DEPS, consts=consts, workers=8)
        agg["states_generated"] += stats["states_generated"]
        agg["distinct_states"] += stats["distinct_states"]
        agg["mc_ok"] = agg["mc_ok"] and stats["mc_ok"]
        merged = merge_queries(scen, prop_id, fam)
        if sample and len(merged) > sample:
            rnd = random.Random(seed * 1000003 + hash(fam) % 1000)
            merged = rnd.sample(merged, sample)
            agg["exhaustive"] = False
        parts.append({"name": fam, "scenarios": merged, "configs": configs or [{"name": "default", "args": []}]})
    return parts, agg


def sem_check(prop_id, tier, seed, families, configs=None, sample=None):
    t0 = time.time()
    parts, stats = sem_parts(prop_id, tier, families, configs=configs, sample=sample, seed=seed)
    wd = os.path.join(vc.RUN, "work_%s" % prop_id)
    verdict, events, _ = ec.run_parts(prop_id, parts, wd)
    return ec.finish(prop_id, tier, seed, t0, verdict, events, stats)


@prop("C01")
def check_c01(prop_id, tier, seed):
    return sem_check(prop_id, tier, seed, ["F1", "F1L", "F2", "F3", "F4", "F4S", "F5", "F5S", "F6", "F7"])


# ---------------------------------------------------------------- DML under constraints (MC_Dml)
DML_OWNS = {
    # C09: a statement the spec accepts changed other rows / another number of rows than specified, or was refused
    "C09": lambda b: b.get("a") in ("ins", "upd", "del") and b.get("exp") == "ok" and b.get("what") in ("state", "cnt", "out", "panic"),
    # C10: a statement whose effect violates a declared constraint was accepted
    # (and: after an accepted statement the PK/UNIQUE hash indexes that enforcement relies on are out of step)
    "C10": lambda b: (b.get("exp") == "err" and b.get("obs") == "ok") or (b.get("exp") == "ok" and b.get("what") == "index")
                     or b.get("what") == "panic",
    # C11: a statement that failed (as specified) nevertheless changed the database or its indexes
    "C11": lambda b: (b.get("exp") == "err" and b.get("obs") != "ok" and b.get("what") in ("state", "index")) or b.get("what") == "panic",
}


@prop("C09", "C10", "C11")
def check_dml(prop_id, tier, seed):
    t0 = time.time()
    depth = {"quick": 6, "thorough": 8}[tier]
    scen, stats = vc.gen_scenarios(prop_id, "MC_Dml", "MC_Dml.cfg", ec.ENGINE_DEPS, consts={"MaxDepth": depth}, workers=1)
    stats["exhaustive"] = True
    parts = [{"name": "dml", "scenarios": scen, "configs": [{"name": "default", "args": ["--idx"]}]}]
    wd = os.path.join(vc.RUN, "work_%s" % prop_id)
    verdict, events, _ = ec.run_parts(prop_id, parts, wd)
    return ec.finish(prop_id, tier, seed, t0, verdict, events, stats, owns=DML_OWNS[prop_id], configs=parts[0]["configs"])


# ---------------------------------------------------------------- index families (MC_Idx)
def idx_scenarios(prop_id, tier, seed, sample, nprobes):
    import random
    depth = {"quick": 3, "thorough": 4}[tier]
    consts = {"MaxDepth": depth, "MaxRows": 3, "MaxIdx": 2}
    wd_out = {}
    scen, stats = vc.gen_scenarios(prop_id, "MC_Idx", "MC_Idx.cfg", ec.ENGINE_DEPS, consts=consts, workers=1, timeout=3000)
    probes = stats.get("probes")
    if probes is None:
        # the probe list is printed once by the model (ASSUME PrintT(<<"PROBES", ...>>)): regenerate it with a depth-0 run
        rc, out = vc.tlc("MC_Idx", "MC_Idx_probes.cfg", os.path.join(vc.RUN, "gen_probes_%d" % os.getpid()), workers=1, timeout=300)
        probes = vc.extract_tagged(out, "PROBES")[-1]
    rnd = random.Random(seed)
    stats["exhaustive"] = True
    if sample and len(scen) > sample:
        scen = rnd.sample(scen, sample)
        stats["exhaustive"] = False
    out = []
    for sc in scen:
        ps = probes if nprobes >= len(probes) else (rnd.sample(probes, nprobes) if nprobes else [])
        out.append({"id": sc["id"], "steps": sc["steps"] + ps})
    return out, stats


IDX_CONFIGS = {
    "default": {"name": "default", "args": ["--idx"]},
    "noindex": {"name": "noindex", "args": ["--elide-index"]},
    "spill": {"name": "spill", "args": ["--index-budget", "1", "--idx"]},
    "disk": {"name": "disk", "args": ["--idx"], "env": {"VIBESQL_VERIF_FORCE_DISK_INDEX": "1"}},
}


def idx_check(prop_id, tier, seed, cfg_names, owns=None, sample=None, nprobes=None):
    t0 = time.time()
    sample = sample or {"quick": 1500, "thorough": 12000}
    nprobes = nprobes or {"quick": 14, "thorough": 24}
    sample, nprobes = sample[tier], nprobes[tier]
    scen, stats = idx_scenarios(prop_id, tier, seed, sample, nprobes)
    parts = [{"name": "idx", "scenarios": scen, "configs": [IDX_CONFIGS[c] for c in cfg_names]}]
    wd = os.path.join(vc.RUN, "work_%s" % prop_id)
    verdict, events, _ = ec.run_parts(prop_id, parts, wd)
    return ec.finish(prop_id, tier, seed, t0, verdict, events, stats, owns=owns, configs=parts[0]["configs"])


@prop("C02")
def check_c02(prop_id, tier, seed):
    return idx_check(prop_id, tier, seed, ["default", "noindex"])


@prop("C15")
def check_c15(prop_id, tier, seed):
    # C15 is about the index structures themselves: it owns the IndexInv mismatches (what = index) and panics;
    # wrong query answers through an index belong to C02/C16, wrong statement outcomes to C09/C10.
    # Queries do not change index structures, so no probes are appended: every history of the bounded graphs is
    # replayed.  Three models feed it: MC_Idx (user-defined indexes of every shape on an unconstrained table),
    # MC_Dml (the PRIMARY KEY / UNIQUE constraint hash indexes under key-changing, NULL-ing and rejected statements)
    # and MC_Txn (index contents across ROLLBACK / ROLLBACK TO SAVEPOINT).
    t0 = time.time()
    scen, stats = idx_scenarios(prop_id, tier, seed, 10 ** 9, 0)
    d = {"quick": 6, "thorough": 7}[tier]
    dml, st2 = vc.gen_scenarios(prop_id, "MC_Dml", "MC_Dml.cfg", ec.ENGINE_DEPS, consts={"MaxDepth": d}, workers=1)
    txn, st3 = vc.gen_scenarios(prop_id, "MC_Txn", "MC_Txn.cfg", ec.ENGINE_DEPS, consts={"MaxDepth": {"quick": 5, "thorough": 6}[tier]}, workers=1)
    for k in ("states_generated", "distinct_states"):
        stats[k] = stats.get(k, 0) + st2.get(k, 0) + st3.get(k, 0)
    cfgs = [IDX_CONFIGS["default"]]
    parts = [{"name": "idx", "scenarios": scen, "configs": cfgs}, {"name": "dml", "scenarios": dml, "configs": cfgs},
             {"name": "txn", "scenarios": txn, "configs": cfgs}]
    wd = os.path.join(vc.RUN, "work_%s" % prop_id)
    verdict, events, _ = ec.run_parts(prop_id, parts, wd)
    return ec.finish(prop_id, tier, seed, t0, verdict, events, stats, owns=lambda b: b.get("what") in ("index", "panic"),
                     configs=cfgs, extra_cov={"models": ["MC_Idx", "MC_Dml", "MC_Txn"]})


@prop("C16")
def check_c16(prop_id, tier, seed):
    return idx_check(prop_id, tier, seed, ["default", "spill", "disk"])


# ---------------------------------------------------------------- C05..C08, C32: the query families under the
# configurations that select the alternative execution mechanisms (cost-based join order after ANALYZE, index
# nested-loop / index scans when indexes exist).  Same oracle (SqlSem.tla via TraceEngine), same scenarios as the
# model MC_Sem emits; the spec-level theorems (ThmRewrite, ThmTLP, ThmSlice, ThmView) are checked by TLC while it
# generates them.
def inject_before_queries(scen, actions):
    """Insert abstract actions (ANALYZE, CREATE INDEX ...) just before the first query of each scenario."""
    out = []
    for sc in scen:
        steps = sc["steps"]
        k = next((i for i, s in enumerate(steps) if s.get("a") == "q"), len(steps))
        out.append({"id": sc["id"], "steps": steps[:k] + actions + steps[k:]})
    return out


def _ci(n, t, cols, uq=False):
    return {"a": "ci", "n": n, "t": t, "uq": uq, "cols": [{"c": c, "dir": d, "plen": 0} for c, d in cols]}


VARIANTS = {
    "plain": [],
    "analyze": [{"a": "analyze", "t": ""}],
    "indexed": [_ci("IX1A", "T1", [("A", "asc")]), _ci("IX2A", "T2", [("A", "asc")]), _ci("IX1B", "T1", [("B", "desc")])],
    "indexed_analyze": [_ci("IX1A", "T1", [("A", "asc")]), _ci("IX2A", "T2", [("A", "asc")]), _ci("IX1AB", "T1", [("A", "asc"), ("B", "asc")]),
                        {"a": "analyze", "t": ""}],
}


def sem_variant_check(prop_id, tier, seed, families, variants, bounds=None, configs=None):
    t0 = time.time()
    parts, stats = sem_parts(prop_id, tier, families, bounds=bounds, configs=configs)
    allparts = []
    for v in variants:
        for p in parts:
            sc = p["scenarios"] if v == "plain" else inject_before_queries(p["scenarios"], VARIANTS[v])
            sc = [{"id": "%s-%s" % (s["id"], v), "steps": s["steps"]} for s in sc]
            allparts.append({"name": "%s_%s" % (p["name"], v), "scenarios": sc, "configs": p["configs"]})
    wd = os.path.join(vc.RUN, "work_%s" % prop_id)
    verdict, events, _ = ec.run_parts(prop_id, allparts, wd)
    return ec.finish(prop_id, tier, seed, t0, verdict, events, stats,
                     extra_cov={"families": families, "variants": variants})


JOIN_BOUNDS = {
    "quick":    {"Max1": 2, "Max2": 1, "IntVals": "{0, 1}", "StrVals": '{"a"}'},
    "thorough": {"Max1": 2, "Max2": 2, "IntVals": "{0, 1}", "StrVals": '{"a"}'},
}
JOIN_VARIANTS = {"quick": ["plain", "indexed_analyze"], "thorough": ["plain", "analyze", "indexed", "indexed_analyze"]}


@prop("C05")
def check_c05(prop_id, tier, seed):
    return sem_variant_check(prop_id, tier, seed, ["F3", "F8"], JOIN_VARIANTS[tier], bounds=JOIN_BOUNDS[tier])


@prop("C06")
def check_c06(prop_id, tier, seed):
    return sem_variant_check(prop_id, tier, seed, ["F1", "F1L", "F1C"], ["plain", "indexed"])


@prop("C07")
def check_c07(prop_id, tier, seed):
    return sem_variant_check(prop_id, tier, seed, ["F4", "F4S"], ["plain", "indexed"])


@prop("C08")
def check_c08(prop_id, tier, seed):
    return sem_variant_check(prop_id, tier, seed, ["F5", "F5S", "F6"], ["plain", "indexed"])


@prop("C32")
def check_c32(prop_id, tier, seed):
    return sem_variant_check(prop_id, tier, seed, ["F9"], JOIN_VARIANTS[tier], bounds=JOIN_BOUNDS[tier])


# ---------------------------------------------------------------- C03: columnar fast path = row execution
def harvest_queries(parts):
    """Distinct query actions of the generated scenarios (in first-seen order)."""
    seen, out = set(), []
    for p in parts:
        for sc in p["scenarios"]:
            for s in sc["steps"]:
                if s.get("a") == "q":
                    k = json.dumps(s, sort_keys=True)
                    if k not in seen:
                        seen.add(k)
                        out.append(s)
    return out


def jv(v):
    if v is None:
        return {"t": "n", "n": 0, "s": "", "d": 1}
    if isinstance(v, str):
        return {"t": "s", "n": 0, "s": v, "d": 1}
    return {"t": "i", "n": int(v), "s": "", "d": 1}


def lit(v):
    return {"k": "lit", "v": jv(v)}


def table_prefix(parts):
    """The DDL prefix (CREATE TABLE ... / CREATE VIEW ...) shared by the generated scenarios."""
    for p in parts:
        for sc in p["scenarios"]:
            return [s for s in sc["steps"] if s.get("a") in ("ct", "cv")]
    return []


def big_tables(seed, sizes, int_dom, str_dom, per_size=1):
    """Seeded larger tables for the shared schema T1(A INT, B INT), T2(A INT, C VARCHAR): the impl -> spec
    direction (sizes beyond what TLC enumerates exhaustively; the oracle is still TLC on the recorded trace)."""
    import random
    rnd = random.Random(seed)
    out = []
    for n in sizes:
        for k in range(per_size):
            nulls = rnd.choice([0.0, 0.2, 0.6, 1.0]) if k else rnd.choice([0.0, 0.3])
            pick = lambda dom: None if rnd.random() < nulls else rnd.choice(dom)
            t1 = [[jv(pick(int_dom)), jv(pick(int_dom))] for _ in range(n)]
            t2 = [[jv(pick(int_dom)), jv(pick(str_dom))] for _ in range(max(1, n // 2))]
            out.append((n, t1, t2))
    return out


def ins_action(t, rows):
    return {"a": "ins", "t": t, "cols": [], "mode": "plain", "rows": [[lit_of(v) for v in r] for r in rows]}


def lit_of(v):
    return {"k": "lit", "v": v}


def big_scenarios(prop_id, seed, ddl, queries, sizes, int_dom=(0, 1, 2, 3, -1, 7), str_dom=("a", "A", "b", "ab", ""), per_size=2, tag="big"):
    out = []
    for j, (n, t1, t2) in enumerate(big_tables(seed, sizes, list(int_dom), list(str_dom), per_size)):
        steps = list(ddl)
        # views of the DDL prefix must come after the tables exist but may precede the rows
        if t1:
            steps.append(ins_action("T1", t1))
        if t2:
            steps.append(ins_action("T2", t2))
        out.append({"id": "%s-%s-%03d-n%d" % (prop_id, tag, j, n), "steps": steps + queries})
    return out


def cfg_diff_owner(verdict, primary, reference):
    """Attribution for twin-configuration checks: a mismatch seen under `primary` but not at the same scenario
    step under `reference` (or seen only under `reference`) is a difference BETWEEN the configurations; one seen
    identically under both belongs to the property about the common semantics."""
    by = {}
    for b in verdict["bad"]:
        by.setdefault((b["sc"], b["i"], b["what"]), set()).add(b.get("cfg"))
    return lambda b: b.get("what") == "panic" or by.get((b["sc"], b["i"], b["what"]), set()) != {primary, reference}


COLUMNAR_CFGS = [{"name": "columnar", "args": []},
                 {"name": "rowpath", "args": [], "env": {"VIBESQL_VERIF_COLUMNAR": "off"}}]


@prop("C03")
def check_c03(prop_id, tier, seed):
    t0 = time.time()
    parts, stats = sem_parts(prop_id, tier, ["F4", "F4S"], configs=COLUMNAR_CFGS)
    qs = harvest_queries(parts)
    sizes = {"quick": [4, 7, 8, 9, 16, 17, 33], "thorough": [4, 5, 7, 8, 9, 15, 16, 17, 31, 32, 33, 40, 64, 65]}[tier]
    big = big_scenarios(prop_id, seed, table_prefix(parts), qs, sizes, per_size={"quick": 1, "thorough": 3}[tier])
    parts.append({"name": "big", "scenarios": big, "configs": COLUMNAR_CFGS})
    stats["exhaustive"] = False
    wd = os.path.join(vc.RUN, "work_%s" % prop_id)
    verdict, events, _ = ec.run_parts(prop_id, parts, wd)
    return ec.finish(prop_id, tier, seed, t0, verdict, events, stats, owns=cfg_diff_owner(verdict, "columnar", "rowpath"),
                     configs=COLUMNAR_CFGS, extra_cov={"families": ["F4", "F4S", "big"], "configs": ["columnar", "rowpath"],
                                                       "seeded_table_sizes": sizes, "aggregate_queries": len(qs)})


# ---------------------------------------------------------------- C12: referential integrity (MC_Fk)
# ON DELETE / ON UPDATE RESTRICT is not accepted by the parser ("Expected NO ACTION, CASCADE, SET NULL, or SET DEFAULT"),
# so the restricting behaviour is exercised through NO ACTION (the executors treat both alike)
FK_MODES = ["cascade", "setnull", "noaction"]


@prop("C12")
def check_c12(prop_id, tier, seed):
    t0 = time.time()
    depth = {"quick": 4, "thorough": 5}[tier]
    parts, agg = [], {"states_generated": 0, "distinct_states": 0, "mc_ok": True, "exhaustive": True}
    cfgs = [{"name": "default", "args": ["--idx"]}]
    for m in FK_MODES:
        scen, stats = vc.gen_scenarios(prop_id, "MC_Fk", "MC_Fk.cfg", ec.ENGINE_DEPS, consts={"MaxDepth": depth, "Mode": '"%s"' % m}, workers=1)
        for k in ("states_generated", "distinct_states"):
            agg[k] += stats[k]
        agg["mc_ok"] = agg["mc_ok"] and stats["mc_ok"]
        scen = [{"id": "%s-%s" % (s["id"], m), "steps": s["steps"]} for s in scen]
        parts.append({"name": m, "scenarios": scen, "configs": cfgs})
    wd = os.path.join(vc.RUN, "work_%s" % prop_id)
    verdict, events, _ = ec.run_parts(prop_id, parts, wd)
    return ec.finish(prop_id, tier, seed, t0, verdict, events, agg, configs=cfgs, extra_cov={"fk_modes": FK_MODES})
