"""Property table: which specification modules, scenario sources and configurations decide each property."""
import json
import os
import time

import engine_check as ec
import vcommon as vc

CHECKS = {}


def prop(*ids):
    def deco(f):
        for i in ids:
            CHECKS[i] = f
        return f
    return deco


def replay(prop_id, path):
    """Re-run one recorded scenario through RUN + VAL and print the verdict."""
    with open(path) as fh:
        r = json.load(fh)
    sc = r["scenario"]
    cfg = {"name": r.get("cfg") or "default", "args": r.get("cfg_args", [])}
    wd = os.path.join(vc.RUN, "replay_run_%s" % prop_id)
    verdict, events, _ = ec.run_parts(prop_id, [{"name": "replay", "scenarios": [sc], "configs": [cfg]}], wd)
    for e in vc.read_ndjson(events):
        print("%3s %-6s %s" % (e.get("i"), e.get("out"), e.get("sql")))
    print(json.dumps(verdict["bad"], indent=1))
    if verdict["bad"]:
        print("VIOLATION property=%s replay=%s" % (prop_id, path))
        return 1
    return 0


# ---------------------------------------------------------------- C13 / C14: transactions and savepoints
@prop("C13", "C14")
def check_txn(prop_id, tier, seed):
    t0 = time.time()
    depth = {"quick": 5, "thorough": 6}[tier]
    scen, stats = vc.gen_scenarios(prop_id, "MC_Txn", "MC_Txn.cfg", ec.ENGINE_DEPS, consts={"MaxDepth": depth})
    stats["exhaustive"] = True
    parts = [{"name": "txn", "scenarios": scen, "configs": [{"name": "default", "args": []}]}]
    wd = os.path.join(vc.RUN, "work_%s" % prop_id)
    verdict, events, _ = ec.run_parts(prop_id, parts, wd)
    return ec.finish(prop_id, tier, seed, t0, verdict, events, stats)


# ---------------------------------------------------------------- query semantics families (MC_Sem)
SEM_BOUNDS = {
    "quick":    {"Max1": 2, "Max2": 1, "IntVals": "{0, 1}", "StrVals": '{"a", "A"}'},
    "thorough": {"Max1": 3, "Max2": 2, "IntVals": "{0, 1}", "StrVals": '{"a", "A"}'},
}


def merge_queries(scen, prop_id, fam):
    """Histories emitted by MC_Sem are <prefix of DDL/inserts> + one query; merge the queries that share a
    prefix (= one database state) into one scenario so the database is built once."""
    groups = {}
    order = []
    for sc in scen:
        steps = sc["steps"]
        k = json.dumps(steps[:-1], sort_keys=True)
        if k not in groups:
            groups[k] = {"id": "%s-%s-%05d" % (prop_id, fam, len(order)), "steps": list(steps[:-1])}
            order.append(k)
        groups[k]["steps"].append(steps[-1])
    return [groups[k] for k in order]


def sem_parts(prop_id, tier, families, configs=None, bounds=None, sample=None, seed=1):
    import random
    parts, agg = [], {"states_generated": 0, "distinct_states": 0, "mc_ok": True, "exhaustive": True}
    for fam in families:
        consts = dict(bounds or SEM_BOUNDS[tier])
        consts["Family"] = '"%s"' % fam
        scen, stats = vc.gen_scenarios(prop_id, "MC_Sem", "MC_Sem.cfg", ec.ENGINE_DEPS, consts=consts, workers=8)
        agg["states_generated"] += stats["states_generated"]
        agg["distinct_states"] += stats["distinct_states"]
        agg["mc_ok"] = agg["mc_ok"] and stats["mc_ok"]
        merged = merge_queries(scen, prop_id, fam)
        if sample and len(merged) > sample:
            rnd = random.Random(seed * 1000003 + hash(fam) % 1000)
            merged = rnd.sample(merged, sample)
            agg["exhaustive"] = False
        parts.append({"name": fam, "scenarios": merged, "configs": configs or [{"name": "default", "args": []}]})
    return parts, agg


def sem_check(prop_id, tier, seed, families, configs=None, sample=None):
    t0 = time.time()
    parts, stats = sem_parts(prop_id, tier, families, configs=configs, sample=sample, seed=seed)
    wd = os.path.join(vc.RUN, "work_%s" % prop_id)
    verdict, events, _ = ec.run_parts(prop_id, parts, wd)
    return ec.finish(prop_id, tier, seed, t0, verdict, events, stats)


@prop("C01")
def check_c01(prop_id, tier, seed):
    return sem_check(prop_id, tier, seed, ["F1", "F1L", "F2", "F3", "F4", "F4S", "F5", "F5S", "F6", "F7"])


# ---------------------------------------------------------------- index families (MC_Idx)
def idx_scenarios(prop_id, tier, seed, sample, nprobes):
    import random
    depth = {"quick": 3, "thorough": 4}[tier]
    consts = {"MaxDepth": depth, "MaxRows": 3, "MaxIdx": 2}
    wd_out = {}
    scen, stats = vc.gen_scenarios(prop_id, "MC_Idx", "MC_Idx.cfg", ec.ENGINE_DEPS, consts=consts, workers=8, timeout=3000)
    probes = stats.get("probes")
    if probes is None:
        # the probe list is printed once by the model (ASSUME PrintT(<<"PROBES", ...>>)): regenerate it with a depth-0 run
        rc, out = vc.tlc("MC_Idx", "MC_Idx_probes.cfg", os.path.join(vc.RUN, "gen_probes_%d" % os.getpid()), workers=1, timeout=300)
        probes = vc.extract_tagged(out, "PROBES")[-1]
    rnd = random.Random(seed)
    stats["exhaustive"] = True
    if sample and len(scen) > sample:
        scen = rnd.sample(scen, sample)
        stats["exhaustive"] = False
    out = []
    for sc in scen:
        ps = probes if nprobes >= len(probes) else rnd.sample(probes, nprobes)
        out.append({"id": sc["id"], "steps": sc["steps"] + ps})
    return out, stats


IDX_CONFIGS = {
    "default": {"name": "default", "args": ["--idx"]},
    "noindex": {"name": "noindex", "args": ["--elide-index"]},
    "spill": {"name": "spill", "args": ["--index-budget", "1", "--idx"]},
    "disk": {"name": "disk", "args": ["--idx"], "env": {"VIBESQL_VERIF_FORCE_DISK_INDEX": "1"}},
}


def idx_check(prop_id, tier, seed, cfg_names):
    t0 = time.time()
    sample = {"quick": 1500, "thorough": 12000}[tier]
    nprobes = {"quick": 14, "thorough": 24}[tier]
    scen, stats = idx_scenarios(prop_id, tier, seed, sample, nprobes)
    parts = [{"name": "idx", "scenarios": scen, "configs": [IDX_CONFIGS[c] for c in cfg_names]}]
    wd = os.path.join(vc.RUN, "work_%s" % prop_id)
    verdict, events, _ = ec.run_parts(prop_id, parts, wd)
    return ec.finish(prop_id, tier, seed, t0, verdict, events, stats)


@prop("C02")
def check_c02(prop_id, tier, seed):
    return idx_check(prop_id, tier, seed, ["default", "noindex"])


@prop("C15")
def check_c15(prop_id, tier, seed):
    return idx_check(prop_id, tier, seed, ["default"])


@prop("C16")
def check_c16(prop_id, tier, seed):
    return idx_check(prop_id, tier, seed, ["default", "spill", "disk"])
