"""Shared plumbing for /verif/bin/check: GEN (TLC) -> RUN (Rust harness) -> VAL (TLC trace validation),
known-finding classification, evidence writing.  No expectations about the engine live here: the only
oracle is the TLA+ specification evaluated by TLC."""
import concurrent.futures
import hashlib
import json
import os
import re
import shutil
import subprocess
import sys
import time

VERIF = os.path.dirname(os.path.dirname(os.path.abspath(__file__)))
SPEC = os.path.join(VERIF, "spec")
# scratch directory (VERIF_RUN_DIR lets a second run work next to a first one; the GEN cache is shared)
RUN = os.environ.get("VERIF_RUN_DIR") or os.path.join(VERIF, "run")
HARNESS = os.path.join(VERIF, "harness")
TARGET = os.path.join(HARNESS, "target", "debug")
# (a run in a private VERIF_RUN_DIR keeps its evidence there and leaves the registered location to the registered commands)
EVIDENCE = os.path.join(os.environ["VERIF_RUN_DIR"], "evidence") if os.environ.get("VERIF_RUN_DIR") else os.path.join(VERIF, "evidence")
JAVA_CP = "/opt/veriftools/tla/tla2tools.jar:/opt/veriftools/tla/CommunityModules-deps.jar"
NCPU = os.cpu_count() or 4


class ToolError(Exception):
    pass


def log(*a):
    print(*a, file=sys.stderr, flush=True)


def sh(cmd, cwd=None, env=None, timeout=None, check=True, capture=True):
    e = dict(os.environ)
    if env:
        e.update(env)
    r = subprocess.run(cmd, cwd=cwd, env=e, timeout=timeout, stdout=subprocess.PIPE if capture else None,
                       stderr=subprocess.STDOUT if capture else None, text=True)
    if check and r.returncode != 0:
        raise ToolError("command failed (%d): %s\n%s" % (r.returncode, " ".join(cmd), (r.stdout or "")[-4000:]))
    return r


# ------------------------------------------------------------------ harness build
_built = set()


def build_harness(bins):
    """Incremental cargo build of the harness against /repo's current working tree."""
    todo = [b for b in bins if b not in _built and not b.startswith("/")]      # absolute paths are script drivers, not cargo bins
    if not todo:
        return
    cmd = ["cargo", "build", "--offline", "-q"]
    for b in todo:
        cmd += ["--bin", b]
    t0 = time.time()
    env = {"CARGO_NET_OFFLINE": "true", "RUSTC_WRAPPER": ""}
    r = sh(cmd, cwd=HARNESS, env=env, timeout=3600, check=False)
    if r.returncode != 0:
        # keep only the error part
        out = r.stdout or ""
        errs = [l for l in out.splitlines() if l.startswith("error") or "error[" in l]
        raise ToolError("harness build failed:\n" + "\n".join(errs[:40]) + "\n" + out[-3000:])
    _built.update(todo)
    log("[build] %s in %.1fs" % (",".join(todo), time.time() - t0))


def hbin(name):
    return name if name.startswith("/") else os.path.join(TARGET, name)


def build_python_extension():
    """Build the Python extension from /repo's working tree (hooks on, like every other build of the checks) and put it next to
    the driver as vibesql.so."""
    tdir = os.path.join(HARNESS, "target", "py")
    t0 = time.time()
    env = {"CARGO_NET_OFFLINE": "true", "RUSTC_WRAPPER": "", "RUSTFLAGS": "--cfg vibesql_verif --check-cfg cfg(vibesql_verif)"}
    r = sh(["cargo", "build", "--offline", "-q", "--manifest-path", "/repo/Cargo.toml", "-p", "vibesql-python-bindings", "--target-dir", tdir],
           cwd=HARNESS, env=env, timeout=3600, check=False)
    if r.returncode != 0:
        raise ToolError("python extension build failed:\n" + (r.stdout or "")[-3000:])
    ext = os.path.join(HARNESS, "py", "ext")
    os.makedirs(ext, exist_ok=True)
    shutil.copyfile(os.path.join(tdir, "debug", "libvibesql.so"), os.path.join(ext, "vibesql.so"))
    log("[build] python extension in %.1fs" % (time.time() - t0))


# ------------------------------------------------------------------ TLC
def tlc(module, cfg, workdir, env=None, workers=1, timeout=1800, simulate=None, xmx="4g", extra=None, deque=False):
    """Run TLC on spec/<module>.tla with spec/<cfg>; returns stdout text. Raises ToolError on tool failure."""
    os.makedirs(workdir, exist_ok=True)
    meta = os.path.join(workdir, "meta")
    shutil.rmtree(meta, ignore_errors=True)
    jopts = (["-XX:+UseSerialGC", "-XX:ActiveProcessorCount=2"] if workers == 1 else ["-XX:+UseParallelGC"]) + ["-Xss1g", "-Xmx" + xmx]
    if deque:
        jopts.append("-Dtlc2.tool.queue.IStateQueue=StateDeque")
    cmd = ["java"] + jopts + ["-cp", JAVA_CP, "tlc2.TLC", "-workers", str(workers), "-metadir", meta, "-cleanup",
                              # no checkpoints: the depth-first state queue used for trace validation cannot write them, and a
                              # validation shard that runs for 30 minutes would die at TLC's first checkpoint
                              "-checkpoint", "0",
                              "-noGenerateSpecTE", "-config", cfg]
    if simulate:
        cmd += ["-simulate", simulate]
    if extra:
        cmd += extra
    cmd += [module + ".tla"]
    try:
        r = sh(["timeout", str(timeout)] + cmd, cwd=SPEC, env=env, check=False, timeout=timeout + 60)
    except subprocess.TimeoutExpired:
        raise ToolError("TLC timeout: %s" % module)
    shutil.rmtree(meta, ignore_errors=True)
    return r.returncode, r.stdout or ""


_STATS = re.compile(r"(\d+) states generated, (\d+) distinct states found")


def tlc_stats(out):
    m = None
    for m in _STATS.finditer(out):
        pass
    if not m:
        return 0, 0
    return int(m.group(1)), int(m.group(2))


def tla_unescape(body):
    return json.loads('"' + body + '"')


def extract_tagged(out, tag):
    """Lines printed by PrintT(<<tag, ToJson(x)>>) -> list of parsed JSON values."""
    res = []
    pre = '<<"%s", "' % tag
    for line in out.splitlines():
        line = line.strip()
        if line.startswith(pre) and line.endswith('">>'):
            res.append(json.loads(tla_unescape(line[len(pre):-3])))
    return res


def spec_hash(files):
    h = hashlib.sha256()
    for f in sorted(files):
        with open(os.path.join(SPEC, f), "rb") as fh:
            h.update(f.encode())
            h.update(fh.read())
    return h.hexdigest()[:16]


def gen_scenarios(prop, module, cfg, deps, consts=None, workers=4, timeout=1800, simulate=None, tag="REPLAY"):
    """GEN: run the model checker on MC module; every emitted history is one scenario.
    Models that cut the search with a CONSTRAINT on the history length while the VIEW hides the history (MC_Txn,
    MC_Idx) must be generated with workers=1: only strict breadth-first order guarantees that every state is
    first reached by a shortest history, i.e. that the bound means "all histories up to that depth" and that the
    emitted set is the same on every run.
    Cached in run/cache by the hash of the spec files + cfg + constants.
    Returns (scenarios, stats) where stats = dict(states_generated, distinct_states, mc_ok, wall)."""
    cfg_text = open(os.path.join(SPEC, cfg)).read()
    if consts:
        for k, v in consts.items():
            cfg_text = re.sub(r"(?m)^(\s*%s\s*=).*$" % re.escape(k), r"\1 %s" % v, cfg_text)
    key = spec_hash(deps + [module + ".tla"]) + hashlib.sha256((cfg_text + str(simulate)).encode()).hexdigest()[:12]
    cdir = os.path.join(VERIF, "run", "cache")
    os.makedirs(cdir, exist_ok=True)
    cpath = os.path.join(cdir, "%s_%s.json" % (module, key))
    if os.path.exists(cpath):
        with open(cpath) as fh:
            d = json.load(fh)
        for i, sc in enumerate(d["scenarios"]):     # the cache is shared between properties: ids carry the caller's
            sc["id"] = "%s-%s-%06d" % (prop, module, i)
        return d["scenarios"], d["stats"]
    wd = os.path.join(RUN, "gen_%s_%s_%d" % (prop, module, os.getpid()))
    os.makedirs(wd, exist_ok=True)
    cfg_run = os.path.join(SPEC, "_run_%s_%d.cfg" % (module, os.getpid()))
    with open(cfg_run, "w") as fh:
        fh.write(cfg_text)
    t0 = time.time()
    try:
        rc, out = tlc(module, os.path.basename(cfg_run), wd, workers=workers, timeout=timeout, simulate=simulate)
    finally:
        os.remove(cfg_run)
        shutil.rmtree(wd, ignore_errors=True)
    gen, dist = tlc_stats(out)
    ok = ("Model checking completed. No error has been found." in out) or (simulate is not None and rc in (0,))
    if not ok and "Error:" in out:
        # a violated invariant/property of the model itself or an evaluation error: tool-level failure
        tail = "\n".join(l for l in out.splitlines() if not l.startswith('<<"%s"' % tag))[-3000:]
        raise ToolError("TLC reported an error on %s/%s:\n%s" % (module, cfg, tail))
    hists = extract_tagged(out, tag)
    scen = [{"id": "%s-%s-%06d" % (prop, module, i), "steps": h} for i, h in enumerate(hists)]
    stats = {"states_generated": gen, "distinct_states": dist, "mc_ok": ok, "wall": round(time.time() - t0, 1)}
    tmp = "%s.%d.tmp" % (cpath, os.getpid())          # atomic: checks that share a model may run concurrently
    with open(tmp, "w") as fh:
        json.dump({"scenarios": scen, "stats": stats}, fh)
    os.replace(tmp, cpath)
    return scen, stats


# ------------------------------------------------------------------ RUN
def write_ndjson(path, items):
    with open(path, "w") as fh:
        for it in items:
            fh.write(json.dumps(it, separators=(",", ":")))
            fh.write("\n")


def read_ndjson(path):
    with open(path) as fh:
        return [json.loads(l) for l in fh if l.strip()]


def run_harness(binname, scen_path, out_path, args=None, env=None, timeout=1800):
    cmd = [hbin(binname), "--in", scen_path, "--out", out_path] + (args or [])
    r = sh(cmd, env=env, check=False, timeout=timeout)
    if r.returncode != 0:
        raise ToolError("harness %s failed (%d): %s" % (binname, r.returncode, (r.stdout or "")[-2000:]))
    return r.stdout


# ------------------------------------------------------------------ VAL
def _val_one(args):
    module, cfg, shard_path, wd, timeout = args
    rc, out = tlc(module, cfg, wd, env={"TRACE": shard_path}, workers=1, timeout=timeout, xmx="3g", deque=True)
    v = extract_tagged(out, "VERDICT")
    if not v:
        tail = "\n".join(out.splitlines()[-40:])
        raise ToolError("trace validation produced no verdict for %s:\n%s" % (shard_path, tail))
    post_ok = "Error:" not in out
    return v[-1], post_ok, out


def validate(module, cfg, events_path, workdir, shards=None, timeout=3000):
    """VAL: shard the event file at scenario boundaries, validate shards in parallel TLC processes,
    merge the verdicts."""
    os.makedirs(workdir, exist_ok=True)
    lines = open(events_path).read().splitlines()
    # group by scenario (a reset event starts each scenario)
    groups, cur = [], []
    for ln in lines:
        if '"a":{"a":"reset"}' in ln and cur:
            groups.append(cur)
            cur = []
        cur.append(ln)
    if cur:
        groups.append(cur)
    if shards == "by_scenario":
        # cross-configuration comparison: all events of one scenario id (under every configuration) go to one shard
        by, order = {}, []
        for g in groups:
            try:
                k = json.loads(g[0]).get("sc")
            except ValueError:
                k = None
            if k not in by:
                by[k] = []
                order.append(k)
            by[k].extend(g)
        groups = [by[k] for k in order]
        shards = None
    n = shards or max(1, min(NCPU - 3, len(lines) // 1500 + 1))
    buckets = [[] for _ in range(n)]
    sizes = [0] * n
    for g in groups:
        k = sizes.index(min(sizes))
        buckets[k].extend(g)
        sizes[k] += len(g)
    jobs = []
    for k, b in enumerate(buckets):
        if not b:
            continue
        sp = os.path.join(workdir, "shard_%d.ndjson" % k)
        with open(sp, "w") as fh:
            fh.write("\n".join(b) + "\n")
        jobs.append((module, cfg, sp, os.path.join(workdir, "tlc_%d" % k), timeout))
    merged = {"n": 0, "nbad": 0, "bad": [], "cnt": {}}
    with concurrent.futures.ThreadPoolExecutor(max_workers=len(jobs)) as ex:
        for v, post_ok, out in ex.map(_val_one, jobs):
            if not post_ok:
                raise ToolError("trace validation did not consume the whole trace:\n" + "\n".join(out.splitlines()[-30:]))
            merged["n"] += v["n"]
            merged["nbad"] += v["nbad"]
            merged["bad"].extend(v["bad"])
            for k2, x in v["cnt"].items():
                merged["cnt"][k2] = merged["cnt"].get(k2, 0) + x
    return merged


# ------------------------------------------------------------------ known findings
def load_known():
    p = os.path.join(VERIF, "known_findings.json")
    if not os.path.exists(p):
        return []
    with open(p) as fh:
        return json.load(fh).get("findings", [])


def match_known(known, prop, bad, event):
    """A known finding matches iff every key of its 'match' object matches the bad record / event."""
    for k in known:
        if k.get("status") != "known":
            continue
        if prop not in k.get("properties", [k.get("property")]):
            continue
        m = k.get("match", {})
        ok = True
        for key, want in m.items():
            if key == "sql_regex":
                ok = ok and event is not None and re.search(want, event.get("sql", "")) is not None
            elif key == "msg_regex":
                ok = ok and event is not None and re.search(want, event.get("msg", "")) is not None
            elif key == "history_regex":
                ok = ok and event is not None and re.search(want, event.get("_history", "")) is not None
            else:
                ok = ok and bad.get(key) == want
        if ok and m:
            return k
    return None


# ------------------------------------------------------------------ evidence
def write_evidence(prop, tier, seed, level, coverage, wall, violations, assumptions=None, extra=None):
    os.makedirs(EVIDENCE, exist_ok=True)
    ev = {"property_id": prop, "tier": tier, "seed": int(seed), "level": level, "coverage": coverage,
          "assumptions": assumptions or [], "wall_s": round(wall, 2), "violations": int(violations)}
    if extra:
        ev.update(extra)
    with open(os.path.join(EVIDENCE, prop + ".json"), "w") as fh:
        json.dump(ev, fh, indent=1)
    return ev
