CONSTANTS
  MaxDepth = 1
  Shape = "pk1"
INIT Init
NEXT Next
VIEW View
ACTION_CONSTRAINT Emit
INVARIANT Inv
INVARIANT SelectAgrees
PROPERTY DeleteExact
PROPERTY UpdateExact
CHECK_DEADLOCK FALSE
