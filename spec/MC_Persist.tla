------------------------------ MODULE MC_Persist -----------------------------
(***************************************************************************)
(* GEN for C18 / C19 (value half) and C20.                                  *)
(* A table TV with one column per supported type class is filled, through   *)
(* the storage API, with rows of abstract VALUE CLASSES: extreme integers,  *)
(* NaN, infinities, negative zero, subnormal; empty, quote, backslash,      *)
(* semicolon, newline, comment-looking and Unicode strings; dates and times *)
(* at field boundaries.  Then the database is saved in one format and       *)
(* loaded back - mode rt: Engine!Apply says the reload is the identity and  *)
(* TraceEngine compares rows, column types, nullability and the answer of   *)
(* SELECT * - or the saved file is damaged by a fault of the fault model    *)
(* below and loaded in a child process - mode fault: the outcome must be ok *)
(* or err, never panic, abort, out-of-memory or hang.  The harness          *)
(* concretises classes and faults; it decides nothing.                      *)
(***************************************************************************)
EXTENDS Engine, Json
CONSTANTS Mode, MaxRows, MaxAt, Stride, MaxStrides, Stride2, MaxStrides2

Classes == [ int       |-> <<"0", "neg", "i32max", "max", "min">>,
             bigint    |-> <<"7", "max", "min">>,
             smallint  |-> <<"1", "max", "min">>,
             double    |-> <<"1.5", "frac", "nan", "inf", "ninf", "negzero", "max", "tiny">>,
             str       |-> <<"plain", "empty", "quote", "backslash", "semicolon", "newline", "dashdash", "unicode", "nullword", "sqlish", "spaces", "crlf", "cr", "tab">>,
             bool      |-> <<"true", "false">>,
             date      |-> <<"2024-02-29", "0001-01-01", "9999-12-31">>,
             time      |-> <<"00:00:00", "23:59:59">>,
             timestamp |-> <<"2024-02-29 23:59:59", "1970-01-01 00:00:00">> ]
ColOrder == << "int", "bigint", "smallint", "double", "str", "bool", "date", "time", "timestamp" >>
ColNamesTV == << "I", "BI", "SI", "D", "V", "BO", "DT", "TM", "TS" >>
ColTypes == << "INTEGER", "BIGINT", "SMALLINT", "DOUBLE PRECISION", "VARCHAR(50)", "BOOLEAN", "DATE", "TIME", "TIMESTAMP" >>
NullV == [c |-> "int", v |-> "null"]
\* a row that holds one class in one column and NULL elsewhere
OneRow(k, j) == [i \in 1..9 |-> IF i = k THEN [c |-> ColOrder[k], v |-> Classes[ColOrder[k]][j]] ELSE NullV]
\* rows that hold the j-th class (cyclically) of every column at once
FullRow(j) == [i \in 1..9 |-> [c |-> ColOrder[i], v |-> Classes[ColOrder[i]][((j - 1) % Len(Classes[ColOrder[i]])) + 1]]]

Setup == << CreateTable("TV", [i \in 1..9 |-> ColDef(ColNamesTV[i], ColTypes[i])]),
            [a |-> "ci", n |-> "IV", t |-> "TV", cols |-> << [c |-> "V", dir |-> "asc", plen |-> 0] >>, uq |-> FALSE],
            \* (index keys are kept as f64 by the engine; the 64-bit extremes of I and BI have no exact f64 image and stay unindexed here)
            [a |-> "ci", n |-> "II", t |-> "TV", cols |-> << [c |-> "SI", dir |-> "asc", plen |-> 0], [c |-> "D", dir |-> "asc", plen |-> 0] >>, uq |-> FALSE] >>
ApiRow(r) == [a |-> "apirow", t |-> "TV", vals |-> r]
Fmts == {"binary", "compressed", "json", "sql"}
SelAll == QueryA(BaseSel(TableRef("TV")))
RowChoices == UNION { { OneRow(k, j) : j \in 1..Len(Classes[ColOrder[k]]) } : k \in 1..9 } \cup { FullRow(j) : j \in 1..14 }

\* ---------- round trips: every single row, every format; plus all full rows together ----------
RtScenarios ==   { Setup \o << ApiRow(r), [a |-> "saveload", fmt |-> f], SelAll >> : r \in RowChoices, f \in Fmts }
            \cup { Setup \o [j \in 1..MaxRows |-> ApiRow(FullRow(j))] \o << [a |-> "saveload", fmt |-> f], SelAll,
                              [a |-> "saveload", fmt |-> f], SelAll >> : f \in Fmts }
            \cup { Setup \o << [a |-> "saveload", fmt |-> f], SelAll >> : f \in Fmts }                    \* empty table

\* ---------- a second table with the parameterised types: lengths above 255, precision / scale, single-precision floats ----------
Classes2 == [ char3   |-> <<"abc", "a", "uni">>,         char300 |-> <<"plain", "long280">>,
              vc1000  |-> <<"long600", "plain">>,        vcu     |-> <<"plain", "long600">>,
              numeric |-> <<"1.50", "-0.01", "12345678.91">>,  decimal |-> <<"7", "-99999">>,
              real    |-> <<"1.5", "0.1">>,              float   |-> <<"2.5", "-0.3">> ]
ColOrder2 == << "char3", "char300", "vc1000", "vcu", "numeric", "decimal", "real", "float" >>
Kind2 == << "chr", "chr", "str", "str", "numeric", "numeric", "real", "float" >>      \* how the harness builds the value
ColNamesTW == << "C3", "C300", "V1000", "VU", "N", "DE", "R", "F" >>
ColTypes2 == << "CHAR(3)", "CHAR(300)", "VARCHAR(1000)", "VARCHAR", "NUMERIC(10, 2)", "DECIMAL(5, 0)", "REAL", "FLOAT" >>
Cls2(i, j) == [c |-> Kind2[i], v |-> Classes2[ColOrder2[i]][((j - 1) % Len(Classes2[ColOrder2[i]])) + 1]]
OneRow2(k, j) == [i \in 1..8 |-> IF i = k THEN Cls2(k, j) ELSE NullV]
FullRow2(j) == [i \in 1..8 |-> Cls2(i, j)]
Setup2 == << CreateTable("TW", [i \in 1..8 |-> ColDef(ColNamesTW[i], ColTypes2[i])]),
             [a |-> "ci", n |-> "IW", t |-> "TW", cols |-> << [c |-> "C300", dir |-> "asc", plen |-> 0] >>, uq |-> FALSE] >>
ApiRow2(r) == [a |-> "apirow", t |-> "TW", vals |-> r]
SelAll2 == QueryA(BaseSel(TableRef("TW")))
RowChoices2 == UNION { { OneRow2(k, j) : j \in 1..Len(Classes2[ColOrder2[k]]) } : k \in 1..8 } \cup { FullRow2(j) : j \in 1..3 }
RtScenarios2 ==   { Setup2 \o << ApiRow2(r), [a |-> "saveload", fmt |-> f], SelAll2 >> : r \in RowChoices2, f \in Fmts }
             \cup { Setup2 \o [j \in 1..3 |-> ApiRow2(FullRow2(j))] \o << [a |-> "saveload", fmt |-> f], SelAll2,
                                [a |-> "saveload", fmt |-> f], SelAll2 >> : f \in Fmts }
             \cup { Setup2 \o << [a |-> "saveload", fmt |-> f], SelAll2 >> : f \in Fmts }

\* ---------- fault model (C20) ----------
\* offsets are absolute from the start (0 .. MaxAt) or from the end (negative); offsets outside the file are skipped
\* plus every Stride-th byte of the first MaxStrides * Stride bytes: the middle of the file holds the catalog (expression trees of
\* CHECK constraints, triggers and views, with their element counts) and the row data
Ats == (0..MaxAt) \cup { -k : k \in 1..16 } \cup { k * Stride : k \in 1..MaxStrides }
Faults ==   { [kind |-> "trunc", at |-> k, bit |-> 0, v |-> "", seed |-> 0] : k \in Ats }
       \cup { [kind |-> "flip", at |-> k, bit |-> b, v |-> "", seed |-> 0] : k \in Ats, b \in {0, 7} }
       \cup { [kind |-> "set4", at |-> k, bit |-> 0, v |-> x, seed |-> 0] : k \in Ats, x \in {"0", "1", "7fffffff", "ffffffff"} }
       \cup { [kind |-> "garbage", at |-> k, bit |-> 0, v |-> "", seed |-> s] : k \in {0, 5, 6, 16, 64}, s \in 1..3 }
Ats2 == { k * Stride2 : k \in 0..MaxStrides2 } \cup { -k : k \in 1..16 }
Faults2 ==   { [kind |-> "trunc", at |-> k, bit |-> 0, v |-> "", seed |-> 0] : k \in Ats2 }
        \cup { [kind |-> "flip", at |-> k, bit |-> b, v |-> "", seed |-> 0] : k \in Ats2, b \in {0, 4, 7} }
        \cup { [kind |-> "set4", at |-> k, bit |-> 0, v |-> x, seed |-> 0] : k \in Ats2, x \in {"0", "1", "7fffffff", "ffffffff"} }
FaultBase == Setup \o << ApiRow(FullRow(1)), ApiRow(FullRow(2)), ApiRow(FullRow(3)) >>
\* a second saved database whose catalog holds expression trees with lists: a CHECK constraint, a trigger whose WHEN has an IN
\* list and a function call, a view with CASE and an IN list
C2(n, ty) == [n |-> n, ty |-> ty, nn |-> FALSE, pk |-> FALSE, uq |-> FALSE, def |-> NoDef]
WhenE == AndE(InListE(QCol("NEW", "V"), <<Lit(I(1)), Lit(I(2)), Lit(I(3))>>, FALSE), CmpE(">", CoalesceE(<<QCol("NEW", "ID"), Lit(I(0))>>), Lit(I(0))))
FaultBase2 == << [a |-> "ct", t |-> "T1", cols |-> << C2("ID", "INTEGER"), C2("V", "INTEGER") >>, pk |-> <<>>, uqs |-> <<>>,
                  checks |-> << InListE(Col("V"), <<Lit(I(0)), Lit(I(1)), Lit(I(2)), Lit(I(3))>>, FALSE) >>, fks |-> <<>>],
                 [a |-> "ct", t |-> "AUD", cols |-> << C2("TG", "VARCHAR(10)"), C2("OID", "INTEGER"), C2("OV", "INTEGER"), C2("NID", "INTEGER"), C2("NV", "INTEGER") >>,
                  pk |-> <<>>, uqs |-> <<>>, checks |-> <<>>, fks |-> <<>>],
                 [a |-> "ctrg", n |-> "WI", t |-> "T1", timing |-> "after", ev |-> "ins", gran |-> "row", ofcols |-> <<>>, when |-> WhenE,
                  body |-> [k |-> "audit", into |-> "AUD", tag |-> "WI", src |-> ""], c |-> <<"ID", "V">>],
                 [a |-> "cv", n |-> "V1", cols |-> <<>>,
                  q |-> [BaseSel(TableRef("T1")) EXCEPT !.where = InListE(Col("V"), <<Lit(I(1)), Lit(I(2))>>, FALSE)]],
                 InsertV("T1", << <<I(1), I(1)>>, <<I(2), I(0)>> >>) >>
FaultScenarios ==   { FaultBase \o << [a |-> "corruptload", fmt |-> f, fault |-> x] >> : f \in Fmts, x \in Faults }
               \* (the catalog of the second database is sampled densely in the binary format: every Stride2-th byte)
               \cup { FaultBase2 \o << [a |-> "corruptload", fmt |-> "binary", fault |-> x] >> : x \in Faults2 }

Scenarios == IF Mode = "rt" THEN RtScenarios \cup RtScenarios2 ELSE FaultScenarios
ASSUME \A s \in Scenarios : PrintT(<<"REPLAY", ToJson(s)>>)

\* spec-level sanity: the reload and the damaged load leave the specification state alone
RECURSIVE Run(_,_)
Run(s, as) == IF as = <<>> THEN s ELSE Run(Apply(s, Head(as)).st, Tail(as))
ASSUME LET s0 == Run(InitSt, Setup) IN
       /\ \A f \in Fmts : Apply(s0, [a |-> "saveload", fmt |-> f]).st = s0 /\ Apply(s0, [a |-> "saveload", fmt |-> f]).out = "ok"
       /\ \A f \in Fmts : Apply(s0, [a |-> "corruptload", fmt |-> f, fault |-> [kind |-> "trunc", at |-> 0]]).st = s0

VARIABLE x
Init == x = 0
Next == x' = x
=============================================================================
