------------------------------- MODULE MC_Dml2 ------------------------------
(***************************************************************************)
(* GEN for C10 / C11 (second model): INSERT ... SELECT into a constrained   *)
(* table.  T1(ID PK, U UNIQUE, N NOT NULL CHECK N <= 1) is the destination, *)
(* T0 (same columns, no constraints) the source.  Two statement shapes      *)
(* reach the two implementations: INSERT INTO T1 SELECT * FROM T0 (the      *)
(* "bulk transfer" path) and INSERT INTO T1 (ID, U, N) SELECT ID, U, N FROM *)
(* T0 [WHERE ..] (the general path).  Source rows are chosen so that the    *)
(* first, a middle or the last row of the statement violates PRIMARY KEY,   *)
(* UNIQUE, NOT NULL or CHECK, against stored rows and against earlier rows  *)
(* of the same statement; four ascending single-row inserts first arm the   *)
(* destination's "append mode".  A UNIQUE index on T1(N) can be created.    *)
(***************************************************************************)
EXTENDS Engine, Json
CONSTANTS MaxDepth
VARIABLES st, hist, base
vars == <<st, hist, base>>

C(n, ty, nn, pk, uq) == [n |-> n, ty |-> ty, nn |-> nn, pk |-> pk, uq |-> uq, def |-> NoDef]
Setup == << [a |-> "ct", t |-> "T1",
             cols |-> << C("ID", "INTEGER", FALSE, TRUE, FALSE), C("U", "INTEGER", FALSE, FALSE, TRUE), C("N", "INTEGER", TRUE, FALSE, FALSE) >>,
             pk |-> <<>>, uqs |-> <<>>, checks |-> << CmpE("<=", Col("N"), Lit(I(1))) >>, fks |-> <<>>],
            [a |-> "ct", t |-> "T0",
             cols |-> << C("ID", "INTEGER", FALSE, FALSE, FALSE), C("U", "INTEGER", FALSE, FALSE, FALSE), C("N", "INTEGER", FALSE, FALSE, FALSE) >>,
             pk |-> <<>>, uqs |-> <<>>, checks |-> <<>>, fks |-> <<>>] >>
RECURSIVE Run(_,_)
Run(s, as) == IF as = <<>> THEN s ELSE Run(Apply(s, Head(as)).st, Tail(as))

R(id, u, n) == <<id, u, n>>
L(k) == Lit(I(k))
From0 == TableRef("T0")
SelAll(w) == [BaseSel(From0) EXCEPT !.where = w]
SelCols(w) == [BaseSel(From0) EXCEPT !.star = FALSE, !.sel = <<SelItem(Col("ID"), "ID"), SelItem(Col("U"), "U"), SelItem(Col("N"), "N")>>, !.where = w]
InsSel(cols, q) == [a |-> "inssel", t |-> "T1", cols |-> cols, q |-> q]
IdxCol(c, dir, plen) == [c |-> c, dir |-> dir, plen |-> plen]
Alphabet ==
      \* source rows: fine; same key as another source row; NULL key; NOT NULL / CHECK violations; same U
      { InsertV("T0", <<R(I(5), NULL, I(0))>>), InsertV("T0", <<R(I(6), I(1), I(0))>>), InsertV("T0", <<R(I(5), I(2), I(1))>>),
        InsertV("T0", <<R(I(2), I(7), I(0))>>), InsertV("T0", <<R(I(7), I(1), I(0))>>), InsertV("T0", <<R(I(8), NULL, NULL)>>),
        InsertV("T0", <<R(I(9), NULL, I(2))>>), InsertV("T0", <<R(NULL, NULL, I(0))>>),
        DeleteA("T0", NoExpr), DeleteA("T0", CmpE("=", Col("ID"), L(5))) }
      \* destination rows
 \cup { InsertV("T1", <<R(I(1), NULL, I(0))>>), InsertV("T1", <<R(I(2), I(1), I(0))>>), DeleteA("T1", CmpE("=", Col("ID"), L(2))) }
      \* the statements under test
 \cup { InsSel(<<>>, SelAll(NoExpr)), InsSel(<<"ID", "U", "N">>, SelCols(NoExpr)),
        InsSel(<<"ID", "U", "N">>, SelCols(CmpE(">=", Col("ID"), L(6)))), InsSel(<<>>, SelAll(CmpE("<", Col("ID"), L(7)))) }
 \cup { [a |-> "ci", n |-> "UN", t |-> "T1", cols |-> <<IdxCol("N", "asc", 0)>>, uq |-> TRUE] }

\* starting points: empty; destination armed for append mode (four ascending single-row inserts); the same with sources
Asc == << InsertV("T1", <<R(I(1), NULL, I(0))>>), InsertV("T1", <<R(I(2), NULL, I(0))>>), InsertV("T1", <<R(I(3), NULL, I(0))>>),
          InsertV("T1", <<R(I(4), NULL, I(0))>>) >>
Prefixes == { <<>>, Asc, Asc \o << InsertV("T0", <<R(I(9), NULL, I(0))>>), InsertV("T0", <<R(I(2), I(7), I(0))>>) >>,
              << InsertV("T0", <<R(I(5), NULL, I(0))>>), InsertV("T0", <<R(I(6), I(1), I(0))>>) >> }
Init == \E pre \in Prefixes : st = Run(InitSt, Setup \o pre) /\ hist = Setup \o pre /\ base = Len(Setup \o pre)
Next == \E a \in Alphabet : st' = Apply(st, a).st /\ hist' = Append(hist, a) /\ base' = base
View == st
Bound == Len(hist) < MaxDepth + base /\ Len(st.tabs["T0"].rows) <= 3
Emit == PrintT(<<"REPLAY", ToJson(hist')>>)
Inv == ConstraintsHold(st)
FailedIsStutter == [][ hist' # hist => (Apply(st, hist'[Len(hist')]).out = "err" => st' = st) ]_vars
=============================================================================
