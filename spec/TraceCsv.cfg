INIT Init
NEXT Next
INVARIANT Done
POSTCONDITION Post
CHECK_DEADLOCK FALSE
