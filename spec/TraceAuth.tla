------------------------------ MODULE TraceAuth ------------------------------
(***************************************************************************)
(* VAL for C29: validates an ndjson trace recorded by vq_auth from the     *)
(* server's real PasswordStore against Auth.tla.  Deterministic fold, one  *)
(* TLC state per event; the model store is rebuilt from the add / load     *)
(* events, every verify_cleartext / verify_md5 answer (accept | reject |   *)
(* panic) is compared with Auth!VerifyClear / Auth!VerifyMd5 evaluated on  *)
(* the ABSTRACT request (user, password; user, salt, response form and     *)
(* digest material) - the concrete strings in the event (cu, cp, cresp)    *)
(* are never read here.                                                    *)
(***************************************************************************)
EXTENDS Auth, Integers, FiniteSets, TLC, Json, IOUtils

Rec == ndJsonDeserialize(IOEnv.TRACE)
MaxBad == 25        \* mismatch records kept per kind of deviation and shard; every mismatch is counted in cnt["bad:<kind>"]
VARIABLES l, store, bad, cnt
vars == <<l, store, bad, cnt>>

Inc(c, k) == IF k \in DOMAIN c THEN [c EXCEPT ![k] = @ + 1] ELSE c @@ (k :> 1)
BadRec(e, what, exp, want) == [sc |-> e.sc, i |-> e.i, a |-> e.a.a, what |-> what, exp |-> exp, obs |-> e.out, dev |-> "",
                               cfg |-> e.cfg, want |-> want]
AddBad(b, r) == IF Cardinality({ i \in 1..Len(b) : b[i].what = r.what /\ b[i].obs = r.obs }) < MaxBad THEN Append(b, r) ELSE b
Init == l = 1 /\ store = EmptyStore /\ bad = <<>> /\ cnt = [ok |-> 0, queries |-> 0]

Entries(s) == { [u |-> u, k |-> s[u].k, pw |-> s[u].pw] : u \in DOMAIN s }
StepBuild(e, s2) ==
   /\ store' = s2
   /\ bad' = IF e.out = "ok" THEN bad ELSE AddBad(bad, BadRec(e, "build", "ok", <<>>))
   /\ cnt' = IF e.out = "ok" THEN Inc(Inc(cnt, "ok"), "build:" \o e.a.a) ELSE Inc(cnt, "bad:build")
StepVerify(e, accept, tag) ==
   LET exp == Verdict(accept)
       w == IF e.out = exp THEN "" ELSE IF e.out \notin {"accept", "reject"} THEN e.out
            ELSE IF accept THEN "rejects_right" ELSE "accepts_wrong"
       c1 == Inc(Inc(cnt, "queries"), tag \o ":" \o exp) IN
   /\ store' = store
   /\ bad' = IF w = "" THEN bad ELSE AddBad(bad, BadRec(e, w, exp, Entries(store)))
   /\ cnt' = IF w = "" THEN Inc(c1, "ok") ELSE Inc(c1, "bad:" \o w)
Step(e) ==
   LET a == e.a IN
   CASE a.a = "reset" -> StepBuild(e, EmptyStore)
     [] a.a = "add"   -> StepBuild(e, Put(store, a.u, a.mode, a.pw))
     [] a.a = "load"  -> StepBuild(e, Load(a.ents))
     [] a.a = "clear" -> StepVerify(e, VerifyClear(store, a.u, a.p), "clear")
     [] a.a = "md5"   -> StepVerify(e, VerifyMd5(store, a.u, Resp(a.form, a.dpw, a.du, a.dsalt), a.salt), "md5:" \o a.form)
Next == l <= Len(Rec) /\ Step(Rec[l]) /\ l' = l + 1
Result == [n |-> Len(Rec), nbad |-> Len(bad), cnt |-> cnt, bad |-> bad]
Done == l > Len(Rec) => PrintT(<<"VERDICT", ToJson(Result)>>)
Post == TLCGet("stats").diameter = Len(Rec) + 1
=============================================================================
