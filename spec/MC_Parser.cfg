CONSTANTS
  Mode = "nest"
  MaxLen = 2
  MaxMut = 1
INIT Init
NEXT Next
CHECK_DEADLOCK FALSE
