------------------------------- MODULE MC_Sem -------------------------------
(***************************************************************************)
(* GEN for the query-semantics properties (C01, C05, C06, C07, C08, C32 and *)
(* the configuration-independence properties C02, C03, C04, C16 that reuse  *)
(* the same scenarios under other configurations).                          *)
(* TLC enumerates every database over the small value domain (tables        *)
(* T1(A INT, B INT), T2(A INT, C VARCHAR), canonical row order) and, in     *)
(* every database state, every query of the chosen family; each Query       *)
(* transition is emitted as one replayable history.                         *)
(* The model also checks spec-level theorems on every (database, query)     *)
(* pair it visits: the TLP partition law (C06), rewrite equivalences (C05), *)
(* view/CTE = derived table (C32), LIMIT/OFFSET = slice (C08).              *)
(***************************************************************************)
EXTENDS Engine, Json
CONSTANTS Family, Max1, Max2, IntVals, StrVals
VARIABLES st, hist
vars == <<st, hist>>

Setup == << CreateTable("T1", << ColDef("A", "INTEGER"), ColDef("B", "INTEGER") >>),
            CreateTable("T2", << ColDef("A", "INTEGER"), ColDef("C", "VARCHAR(10)") >>) >>
RECURSIVE Run(_,_)
Run(s, as) == IF as = <<>> THEN s ELSE Run(Apply(s, Head(as)).st, Tail(as))

\* ---------- value domains ----------
IV == {NULL} \cup { I(k) : k \in IntVals }
SV == {NULL} \cup { S(x) : x \in StrVals }
\* canonical order on rows so that each bag of rows is reached once
ValRank(v) == IF IsNull(v) THEN 0 ELSE IF v.t = "i" THEN 10 + v.n ELSE 100 + StrIdx(v.s)
RowRank(r) == ValRank(r[1]) * 1000 + ValRank(r[2])
LastRank(s, t) == IF s.tabs[t].rows = <<>> THEN -1 ELSE RowRank(s.tabs[t].rows[Len(s.tabs[t].rows)])

\* ---------- building blocks ----------
A1 == Col("A")   B1 == Col("B")   C2 == Col("C")
T1A == QCol("T1", "A")  T1B == QCol("T1", "B")  T2A == QCol("T2", "A")  T2C == QCol("T2", "C")
L(k) == Lit(I(k))   LN == Lit(NULL)   LS(x) == Lit(S(x))
From1 == TableRef("T1")   From2 == TableRef("T2")
Sel1(w) == [BaseSel(From1) EXCEPT !.where = w]
SelX(from, items, w) == [BaseSel(from) EXCEPT !.star = FALSE, !.sel = items, !.where = w]
It(e, as) == SelItem(e, as)
Ops == {"=", "<>", "<", "<=", ">", ">="}

\* atomic predicates over T1's columns
Atoms ==    { CmpE(op, A1, L(k)) : op \in Ops, k \in {0, 1} }
      \cup  { CmpE(op, A1, B1) : op \in Ops }
      \cup  { CmpE(op, A1, LN) : op \in {"=", "<>", "<"} }
      \cup  { IsNullE(A1, n) : n \in BOOLEAN } \cup { IsNullE(B1, FALSE) }
      \cup  { BetweenE(A1, L(0), L(1), n) : n \in BOOLEAN } \cup { BetweenE(B1, A1, L(1), FALSE), BetweenE(A1, LN, L(1), FALSE) }
      \cup  { InListE(A1, <<L(0), L(1)>>, n) : n \in BOOLEAN }
      \cup  { InListE(A1, <<L(0), LN>>, n) : n \in BOOLEAN }
      \cup  { InListE(B1, <<A1, L(1)>>, FALSE) }
      \cup  { CmpE("=", ArE("+", A1, B1), L(1)), CmpE(">", ArE("*", A1, B1), L(0)), CmpE("<", ArE("-", A1, L(1)), B1) }
      \cup  { CmpE("=", CaseE(<<[c |-> CmpE("=", A1, L(0)), v |-> L(1)]>>, NoExpr), L(1)),
              CmpE("=", CaseE(<<[c |-> IsNullE(A1, FALSE), v |-> L(0)]>>, B1), L(0)),
              CmpE("=", CoalesceE(<<A1, B1>>), L(0)), CmpE(">=", CoalesceE(<<A1, L(1)>>), B1) }
SmallAtoms == { CmpE("=", A1, L(0)), CmpE("<", A1, B1), CmpE(">", B1, L(0)), IsNullE(B1, FALSE), CmpE("=", A1, LN),
                InListE(A1, <<L(0), LN>>, TRUE), BetweenE(A1, L(0), B1, FALSE), CmpE("<>", A1, B1) }
Preds == Atoms \cup { NotE(p) : p \in Atoms }
        \cup { AndE(p, q) : p, q \in SmallAtoms } \cup { OrE(p, q) : p, q \in SmallAtoms }
        \cup { NotE(AndE(p, q)) : p, q \in {CmpE("=", A1, L(0)), CmpE("<", A1, B1), IsNullE(B1, FALSE)} }
\* LIKE lives on the VARCHAR column of T2
LikePreds == { LikeE(C2, LS(p), n) : p \in {"a%", "%", "_", "a_", "%b", "a"}, n \in BOOLEAN }
             \cup { LikeE(C2, LN, FALSE), CmpE("=", C2, LS("a")), CmpE("<", C2, LS("a")), CmpE(">=", C2, LS("A")) }

\* ---------- families ----------
\* F1: filters and three-valued logic; each predicate also appears negated, IS NULL-tested and in the
\* select list, which is the TLP family of C06
TlpOf(from, p) == { [BaseSel(from) EXCEPT !.where = p], [BaseSel(from) EXCEPT !.where = NotE(p)],
                    [BaseSel(from) EXCEPT !.where = IsNullE(p, FALSE)],
                    [BaseSel(from) EXCEPT !.star = FALSE, !.sel = <<It(p, "P")>>] }
F1 == UNION { TlpOf(From1, p) : p \in Preds }
F1L == UNION { TlpOf(From2, p) : p \in LikePreds }
\* TLP in other contexts: DISTINCT, GROUP BY / aggregate, under a join
F1C == UNION { UNION { {[q EXCEPT !.where = p], [q EXCEPT !.where = NotE(p)], [q EXCEPT !.where = IsNullE(p, FALSE)]}
                       : q \in { [BaseSel(From1) EXCEPT !.star = FALSE, !.sel = <<It(B1, "B")>>, !.distinct = TRUE],
                                 [BaseSel(From1) EXCEPT !.star = FALSE, !.sel = <<It(CountStar, "N"), It(AggE("sum", A1, FALSE), "S")>>],
                                 [BaseSel(From1) EXCEPT !.star = FALSE, !.sel = <<It(B1, "B"), It(CountStar, "N")>>, !.group = <<B1>>],
                                 [BaseSel(From1) EXCEPT !.star = FALSE, !.sel = <<It(B1, "B")>>, !.group = <<B1>>, !.having = CmpE(">=", CountStar, L(1))] } }
               : p \in SmallAtoms \cup {NotE(CmpE("=", A1, L(0))), OrE(CmpE("=", A1, LN), CmpE("=", B1, L(1)))} }

\* F2: projections, arithmetic, CASE, COALESCE
Exprs == { ArE(op, A1, B1) : op \in {"+", "-", "*"} } \cup { ArE("+", A1, L(1)), ArE("*", L(2), B1), NegE(A1), NegE(ArE("-", A1, B1)) }
     \cup { CoalesceE(<<A1, B1>>), CoalesceE(<<A1, L(9)>>), CoalesceE(<<LN, B1, L(7)>>) }
     \cup { CaseE(<<[c |-> CmpE("=", A1, L(1)), v |-> B1]>>, L(7)), CaseE(<<[c |-> CmpE(">", A1, B1), v |-> L(1)]>>, NoExpr),
            CaseE(<<[c |-> IsNullE(A1, FALSE), v |-> L(0)], [c |-> CmpE("=", A1, L(0)), v |-> L(5)]>>, ArE("+", A1, B1)),
            SCaseE(A1, <<[c |-> L(0), v |-> L(5)], [c |-> L(1), v |-> B1]>>, NoExpr),
            SCaseE(A1, <<[c |-> LN, v |-> L(5)]>>, L(6)), SCaseE(ArE("+", A1, B1), <<[c |-> L(1), v |-> L(1)]>>, L(0)) }
F2 == { SelX(From1, <<It(e, "X")>>, NoExpr) : e \in Exprs }
      \cup { SelX(From1, <<It(A1, "A"), It(e, "X"), It(B1, "B")>>, CmpE(">=", e, L(0))) : e \in Exprs }
      \cup { SelX(NoFrom, <<It(e, "X")>>, NoExpr) : e \in { ArE("+", L(1), L(2)), ArE("*", LN, L(2)), CoalesceE(<<LN, L(3)>>), CmpE("=", LN, LN),
                                                             CaseE(<<[c |-> LN, v |-> L(1)]>>, L(2)), NotE(LN), AndE(LN, Lit(FF)), OrE(LN, Lit(TT)) } }
      \cup { SelX(NoFrom, <<It(L(1), "X")>>, w) : w \in { LN, Lit(TT), Lit(FF), CmpE("=", L(1), L(1)), CmpE("=", LN, L(1)) } }

\* F3: joins
JoinConds == { CmpE("=", T1A, T2A), CmpE("<", T1A, T2A), AndE(CmpE("=", T1A, T2A), CmpE("=", T1B, L(0))),
               AndE(CmpE("=", T1A, T2A), CmpE("=", T2C, LS("a"))), OrE(CmpE("=", T1A, T2A), IsNullE(T2A, FALSE)), CmpE("=", T1B, T2A) }
JSel == <<It(T1A, "A1"), It(T1B, "B"), It(T2A, "A2"), It(T2C, "C")>>
F3 ==    { SelX(JoinF(jt, From1, From2, c), JSel, NoExpr) : jt \in {"inner", "left"}, c \in JoinConds }
   \cup  { SelX(JoinF("left", From2, From1, c), JSel, NoExpr) : c \in JoinConds }
   \cup  { SelX(JoinF("comma", From1, From2, NoExpr), JSel, c) : c \in JoinConds }
   \cup  { SelX(JoinF("comma", From2, From1, NoExpr), JSel, c) : c \in JoinConds }
   \cup  { SelX(JoinF("cross", From1, From2, NoExpr), JSel, NoExpr), [BaseSel(JoinF("inner", From1, From2, CmpE("=", T1A, T2A))) EXCEPT !.where = NoExpr] }
   \cup  { SelX(JoinF("left", From1, From2, CmpE("=", T1A, T2A)), JSel, w) : w \in {IsNullE(T2A, FALSE), IsNullE(T2C, TRUE), CmpE("=", T1B, L(1))} }
   \cup  { SelX(JoinF("inner", TableAs("T1", "X"), TableAs("T1", "Y"), CmpE("=", QCol("X", "A"), QCol("Y", "B"))),
                <<It(QCol("X", "A"), "XA"), It(QCol("Y", "A"), "YA")>>, NoExpr),
           SelX(JoinF("inner", JoinF("inner", From1, From2, CmpE("=", T1A, T2A)), TableAs("T1", "Z"), CmpE("=", QCol("Z", "A"), T2A)),
                <<It(T1B, "B"), It(T2C, "C"), It(QCol("Z", "B"), "ZB")>>, NoExpr),
           SelX(JoinF("comma", JoinF("comma", From1, From2, NoExpr), TableAs("T1", "Z"), NoExpr),
                <<It(T1B, "B"), It(T2C, "C"), It(QCol("Z", "B"), "ZB")>>, AndE(CmpE("=", T1A, T2A), CmpE("=", QCol("Z", "A"), T2A))) }
   \cup  { SelX(JoinF("inner", From1, Derived(SelX(From2, <<It(A1, "A"), It(C2, "C")>>, w), "D"), CmpE("=", T1A, QCol("D", "A"))),
                <<It(T1A, "A1"), It(QCol("D", "C"), "C")>>, NoExpr) : w \in {NoExpr, IsNullE(C2, TRUE)} }

\* F4: GROUP BY / HAVING / aggregates (both execution paths see these)
Aggs1 == { CountStar } \cup { AggE(f, B1, d) : f \in {"count", "sum", "avg", "min", "max"}, d \in BOOLEAN }
AggSel == << It(CountStar, "N"), It(AggE("count", B1, FALSE), "CB"), It(AggE("sum", B1, FALSE), "SB"), It(AggE("avg", B1, FALSE), "AB"),
             It(AggE("min", B1, FALSE), "MI"), It(AggE("max", B1, FALSE), "MA") >>
AggWheres == { NoExpr, CmpE("=", A1, L(0)), CmpE(">", A1, L(0)), BetweenE(A1, L(0), L(1), FALSE), CmpE("=", A1, LN),
               AndE(CmpE(">=", A1, L(0)), CmpE("<", B1, L(1))), IsNullE(B1, FALSE), CmpE(">", A1, L(5)) }
F4 ==   { SelX(From1, <<It(g, "X")>>, w) : g \in Aggs1, w \in AggWheres }
   \cup { SelX(From1, AggSel, w) : w \in AggWheres }
   \cup { [SelX(From1, <<It(A1, "A")>> \o AggSel, w) EXCEPT !.group = <<A1>>] : w \in {NoExpr, IsNullE(B1, TRUE), CmpE(">", A1, L(0))} }
   \cup { [SelX(From1, <<It(A1, "A"), It(B1, "B"), It(CountStar, "N")>>, NoExpr) EXCEPT !.group = <<A1, B1>>] }
   \cup { [SelX(From1, <<It(A1, "A"), It(g, "X")>>, NoExpr) EXCEPT !.group = <<A1>>, !.having = h] :
             g \in {CountStar, AggE("sum", B1, FALSE)},
             h \in { CmpE(">", CountStar, L(1)), IsNullE(AggE("sum", B1, FALSE), FALSE), CmpE(">=", AggE("max", B1, FALSE), L(1)), CmpE("=", A1, L(0)) } }
   \cup { [SelX(From1, <<It(g, "X")>>, NoExpr) EXCEPT !.having = h] : g \in {CountStar, AggE("sum", B1, FALSE)},
             h \in { CmpE(">", CountStar, L(1)), CmpE("=", CountStar, L(0)), IsNullE(AggE("sum", B1, FALSE), FALSE) } }
   \cup { [SelX(From1, <<It(ArE("+", A1, B1), "K"), It(CountStar, "N")>>, NoExpr) EXCEPT !.group = <<ArE("+", A1, B1)>>] }
   \cup { [SelX(From1, <<It(g, "X")>>, w) EXCEPT !.limit = l, !.offset = o] :
             g \in {CountStar, AggE("sum", B1, FALSE)}, w \in {NoExpr, CmpE(">", A1, L(5))}, l \in {-1, 0, 1}, o \in {-1, 1} }

F4S ==  { SelX(From2, <<It(AggE(f, C2, d), "X")>>, w) : f \in {"count", "min", "max"}, d \in BOOLEAN, w \in {NoExpr, CmpE("=", A1, L(0)), CmpE("=", C2, LS("a"))} }
   \cup { [SelX(From2, <<It(C2, "C"), It(CountStar, "N"), It(AggE("sum", A1, FALSE), "S")>>, NoExpr) EXCEPT !.group = <<C2>>] }
   \cup { [SelX(From2, <<It(C2, "C")>>, NoExpr) EXCEPT !.distinct = TRUE], SelX(From2, <<It(CountStar, "N"), It(AggE("min", C2, FALSE), "MI"), It(AggE("max", A1, FALSE), "MA")>>, NoExpr) }

\* F4M: several aggregating blocks inside ONE statement that spell the same aggregate (branches of a set operation, an aggregate
\* over an aggregating derived table, an aggregating CTE): each block aggregates its own rows - whatever an implementation
\* remembers about "SUM(A)" or "COUNT(*)" while it evaluates one block says nothing about the next
SumA(f, w) == SelX(f, <<It(AggE("sum", A1, FALSE), "X")>>, w)
CntS(f, w) == SelX(f, <<It(CountStar, "N")>>, w)
GrpA(f)    == [SelX(f, <<It(A1, "A"), It(CountStar, "N"), It(AggE("max", A1, FALSE), "M")>>, NoExpr) EXCEPT !.group = <<A1>>]
F4M ==  { SetOp("union", TRUE, SumA(From1, NoExpr), SumA(From2, NoExpr)), SetOp("union", TRUE, SumA(From2, NoExpr), SumA(From1, NoExpr)),
          SetOp("union", TRUE, CntS(From1, NoExpr), CntS(From2, NoExpr)), SetOp("union", TRUE, CntS(From1, CmpE("=", A1, L(0))), CntS(From1, CmpE(">", A1, L(0)))),
          SetOp("union", TRUE, GrpA(From1), GrpA(From2)), SetOp("except", TRUE, GrpA(From1), GrpA(From2)),
          SetOp("union", FALSE, SumA(From1, NoExpr), SumA(From2, NoExpr)) }
   \cup { SelX(Derived(GrpA(From1), "D"), <<It(CountStar, "N")>>, NoExpr),
          SelX(Derived(GrpA(From1), "D"), <<It(CountStar, "N"), It(AggE("max", Col("A"), FALSE), "M"), It(AggE("sum", QCol("D", "N"), FALSE), "S")>>, NoExpr),
          [SelX(Derived(GrpA(From1), "D"), <<It(QCol("D", "N"), "K"), It(CountStar, "N")>>, NoExpr) EXCEPT !.group = <<QCol("D", "N")>>] }
   \* a scalar subquery next to an aggregate, in HAVING and in the select list: evaluated also for the one (empty) group of an
   \* aggregate query over an empty table
   \cup { [SelX(From1, <<It(CountStar, "N")>>, NoExpr) EXCEPT !.having = CmpE(c[1], ScalarE(CntS(From2, NoExpr)), L(c[2]))] : c \in {<<">", 0>>, <<"=", 0>>} }
   \cup { SelX(From1, <<It(CountStar, "N"), It(ScalarE(SelX(From2, <<It(AggE("max", A1, FALSE), "X")>>, NoExpr)), "S")>>, NoExpr),
          [SelX(From1, <<It(CountStar, "N")>>, NoExpr) EXCEPT !.having = ExistsE(SelX(From2, <<It(L(1), "X")>>, NoExpr), FALSE)] }
   \cup { [SelX(TableRef("W"), <<It(CountStar, "N")>>, NoExpr) EXCEPT !.with = <<[n |-> "W", q |-> GrpA(From1), cols |-> <<>>]>>],
          [SelX(TableRef("W"), <<It(CountStar, "N"), It(AggE("max", Col("A"), FALSE), "M")>>, CmpE(">", Col("N"), L(0)))
              EXCEPT !.with = <<[n |-> "W", q |-> GrpA(From1), cols |-> <<>>]>>] }

\* F5: DISTINCT / ORDER BY / LIMIT / OFFSET
Orders == { <<OrdE(A1, d)>> : d \in {"asc", "desc"} } \cup { <<OrdE(B1, "asc")>>, <<OrdE(A1, "asc"), OrdE(B1, "desc")>>, <<OrdE(A1, "desc"), OrdE(B1, "asc")>>,
            <<OrdPos(1, "asc")>>, <<OrdPos(2, "desc"), OrdPos(1, "asc")>>, <<OrdE(ArE("+", A1, B1), "asc")>>, <<OrdE(ArE("+", A1, B1), "desc"), OrdE(A1, "asc")>> }
Lims == { <<-1, -1>>, <<0, -1>>, <<1, -1>>, <<2, -1>>, <<5, -1>>, <<1, 1>>, <<2, 1>>, <<5, 2>>, <<1, 5>>, <<-1, 1>>, <<0, 0>> }
F5 ==   { [SelX(From1, <<It(A1, "A"), It(B1, "B")>>, NoExpr) EXCEPT !.order = o, !.limit = lm[1], !.offset = lm[2]] : o \in Orders, lm \in Lims }
   \cup { [SelX(From1, <<It(A1, "A"), It(B1, "B")>>, NoExpr) EXCEPT !.distinct = TRUE, !.order = o, !.limit = lm[1]] :
             o \in {<<>>, <<OrdE(A1, "asc")>>, <<OrdE(B1, "desc"), OrdE(A1, "asc")>>}, lm \in {<<-1, -1>>, <<1, -1>>, <<2, -1>>} }
   \cup { [SelX(From1, <<It(A1, "A")>>, NoExpr) EXCEPT !.distinct = d, !.order = o] : d \in BOOLEAN, o \in {<<>>, <<OrdE(A1, "desc")>>} }
   \cup { [SelX(From1, <<It(ArE("+", A1, B1), "S"), It(A1, "A")>>, NoExpr) EXCEPT !.order = <<OrdE(Col("S"), d)>>, !.limit = l] : d \in {"asc", "desc"}, l \in {-1, 2} }
   \cup { [SelX(From1, <<It(A1, "A"), It(CountStar, "N")>>, NoExpr) EXCEPT !.group = <<A1>>, !.order = o, !.limit = l] :
             o \in {<<OrdE(A1, "asc")>>, <<OrdPos(2, "desc"), OrdPos(1, "asc")>>, <<OrdE(Col("N"), "desc"), OrdE(A1, "desc")>>}, l \in {-1, 1} }
   \cup { [BaseSel(From1) EXCEPT !.order = <<OrdE(A1, "asc")>>, !.where = w, !.limit = l] : w \in {CmpE(">=", A1, L(0)), IsNullE(B1, TRUE)}, l \in {-1, 1} }
   \* ordering combined with the access paths an index offers for the filter: an IN list that is NOT in ascending order, a
   \* BETWEEN, an OR of two keys - the order of the answer is the ORDER BY's, whatever order the probes were made in
   \cup { [BaseSel(From1) EXCEPT !.order = o, !.where = w, !.limit = lm[1], !.offset = lm[2]] :
             o \in { <<OrdE(A1, "asc")>>, <<OrdE(A1, "desc")>>, <<OrdE(A1, "asc"), OrdE(B1, "desc")>> },
             w \in { InListE(A1, <<L(1), L(0)>>, FALSE), InListE(A1, <<L(1), L(0), L(1)>>, FALSE), OrE(CmpE("=", A1, L(1)), CmpE("=", A1, L(0))),
                     BetweenE(A1, L(0), L(1), FALSE) },
             lm \in { <<-1, -1>>, <<1, -1>>, <<1, 1>> } }
F5S ==  { [SelX(From2, <<It(C2, "C"), It(A1, "A")>>, NoExpr) EXCEPT !.order = o, !.limit = l] :
             o \in {<<OrdE(C2, "asc")>>, <<OrdE(C2, "desc"), OrdE(A1, "asc")>>, <<OrdPos(1, "desc")>>}, l \in {-1, 1, 2} }

\* F6: set operations
SA1 == SelX(From1, <<It(A1, "A")>>, NoExpr)   SA2 == SelX(From2, <<It(A1, "A")>>, NoExpr)   SB1 == SelX(From1, <<It(B1, "B")>>, NoExpr)
SAB == SelX(From1, <<It(A1, "A"), It(B1, "B")>>, NoExpr)   SBA == SelX(From1, <<It(B1, "B"), It(A1, "A")>>, NoExpr)
SetOps == {"union", "intersect", "except"}
F6 ==   { SetOp(op, all, l, r) : op \in SetOps, all \in BOOLEAN, l \in {SA1, SB1}, r \in {SA2, SB1} }
   \cup { SetOp(op, all, SAB, SBA) : op \in SetOps, all \in BOOLEAN }
   \cup { [SetOp(op, all, SA1, SA2) EXCEPT !.order = <<OrdPos(1, d)>>, !.limit = l] : op \in SetOps, all \in BOOLEAN, d \in {"asc", "desc"}, l \in {-1, 1, 3} }
   \* chains are written without parentheses; only operators of equal precedence are mixed (left-associative in every dialect)
   \cup { SetOp(op2, a2, SetOp(op1, a1, SA1, SA2), SB1) : op1 \in {"union", "except"}, op2 \in {"union", "except"}, a1 \in BOOLEAN, a2 \in BOOLEAN }
   \cup { SetOp("intersect", a2, SetOp("intersect", a1, SA1, SA2), SB1) : a1 \in BOOLEAN, a2 \in BOOLEAN }
   \cup { SetOp("union", TRUE, SelX(From1, <<It(A1, "A")>>, CmpE("=", A1, L(0))), SelX(From1, <<It(A1, "A")>>, NotE(CmpE("=", A1, L(0))))) }

\* F7: subqueries
SubA2(w) == SelX(From2, <<It(A1, "A")>>, w)
Corr == CmpE("=", T2A, T1A)
F7 ==   { SelX(From1, <<It(A1, "A"), It(B1, "B")>>, InSubE(x, SubA2(w), n)) : x \in {A1, B1}, n \in BOOLEAN, w \in {NoExpr, IsNullE(A1, TRUE), CmpE("=", C2, LS("a"))} }
   \cup { SelX(From1, <<It(A1, "A"), It(B1, "B")>>, ExistsE(SelX(From2, <<It(L(1), "X")>>, c), n)) : n \in BOOLEAN,
             c \in {Corr, AndE(Corr, IsNullE(T2C, TRUE)), CmpE("<", T2A, T1B), NoExpr} }
   \cup { SelX(From1, <<It(A1, "A"), It(ScalarE(SelX(From2, <<It(g, "X")>>, c)), "S")>>, NoExpr) :
             g \in {CountStar, AggE("max", A1, FALSE), AggE("min", C2, FALSE)}, c \in {NoExpr, Corr} }
   \cup { SelX(From1, <<It(A1, "A")>>, CmpE(op, A1, ScalarE(SelX(From2, <<It(AggE("max", A1, FALSE), "X")>>, NoExpr)))) : op \in {"=", "<", ">="} }
   \cup { SelX(From1, <<It(A1, "A")>>, CmpE("=", B1, ScalarE(SubA2(CmpE("=", C2, LS("a")))))) }       \* may have > 1 row: error
   \cup { SelX(Derived(SelX(From1, <<It(A1, "A"), It(ArE("+", A1, B1), "S")>>, w), "D"), <<It(QCol("D", "S"), "S"), It(QCol("D", "A"), "A")>>, CmpE(">=", QCol("D", "S"), L(0))) :
             w \in {NoExpr, IsNullE(B1, TRUE)} }
   \cup { SelX(From1, <<It(A1, "A")>>, InSubE(A1, SetOp("union", FALSE, SA2, SB1), n)) : n \in BOOLEAN }

\* C05 rewrite families: each group lists semantically equal queries (checked below as a theorem of the spec)
JoinOut == <<It(T1A, "A1"), It(T1B, "B"), It(T2C, "C")>>
Rw1(c) == { SelX(JoinF("inner", From1, From2, c), JoinOut, NoExpr), SelX(JoinF("inner", From2, From1, c), JoinOut, NoExpr),
            SelX(JoinF("comma", From1, From2, NoExpr), JoinOut, c), SelX(JoinF("comma", From2, From1, NoExpr), JoinOut, c),
            SelX(JoinF("cross", From1, From2, NoExpr), JoinOut, c),
            SelX(JoinF("inner", Derived(BaseSel(From1), "T1"), From2, c), JoinOut, NoExpr),
            SelX(JoinF("comma", From1, Derived(BaseSel(From2), "T2"), NoExpr), JoinOut, c) }
SemiOut == <<It(T1A, "A"), It(T1B, "B")>>
Rw2 == { SelX(From1, SemiOut, InSubE(T1A, SelX(From2, <<It(T2A, "A")>>, NoExpr), FALSE)),
         SelX(From1, SemiOut, ExistsE(SelX(From2, <<It(L(1), "X")>>, CmpE("=", T2A, T1A)), FALSE)),
         SelX(From1, SemiOut, InSubE(T1A, SelX(From2, <<It(T2A, "A")>>, IsNullE(T2A, TRUE)), FALSE)),
         [SelX(JoinF("inner", From1, Derived([SelX(From2, <<It(T2A, "A")>>, NoExpr) EXCEPT !.distinct = TRUE], "D"), CmpE("=", T1A, QCol("D", "A"))), SemiOut, NoExpr) EXCEPT !.distinct = FALSE] }
Rw3 == { SelX(From1, SemiOut, ExistsE(SelX(From2, <<It(L(1), "X")>>, CmpE("=", T2A, T1A)), TRUE)),
         SelX(From1, SemiOut, NotE(ExistsE(SelX(From2, <<It(L(1), "X")>>, CmpE("=", T2A, T1A)), FALSE))) }
\* NOT IN keeps its own NULL semantics: equal to NOT EXISTS only when neither side has NULLs (RwNotIn)
NotInQ == SelX(From1, SemiOut, InSubE(T1A, SelX(From2, <<It(T2A, "A")>>, NoExpr), TRUE))
NotExQ == SelX(From1, SemiOut, ExistsE(SelX(From2, <<It(L(1), "X")>>, CmpE("=", T2A, T1A)), TRUE))
\* semi / anti joins whose correlation is an equality plus a conjunct that reads OUTER columns only inside BETWEEN bounds or an
\* IN list (the inner column stands alone on the left): per outer ROW, not per outer key - two outer rows with the same key
\* and different bounds must be able to get different answers
ExQ(c, n) == SelX(From1, SemiOut, ExistsE(SelX(From2, <<It(L(1), "X")>>, c), n))
ResBetween == AndE(CmpE("=", T2A, T1A), BetweenE(T2A, T1B, T1A, FALSE))
ResPlain   == AndE(CmpE("=", T2A, T1A), AndE(CmpE("<=", T1B, T2A), CmpE("<=", T2A, T1A)))
ResInList  == AndE(CmpE("=", T2A, T1A), InListE(T2A, <<T1B, L(5)>>, FALSE))
ResInPlain == AndE(CmpE("=", T2A, T1A), OrE(CmpE("=", T2A, T1B), CmpE("=", T2A, L(5))))
Rw4 == { ExQ(ResBetween, FALSE), ExQ(ResPlain, FALSE) }
Rw5 == { ExQ(ResBetween, TRUE), ExQ(ResPlain, TRUE), SelX(From1, SemiOut, NotE(ExistsE(SelX(From2, <<It(L(1), "X")>>, ResBetween), FALSE))) }
Rw6 == { ExQ(ResInList, FALSE), ExQ(ResInPlain, FALSE) }
Rw7 == { ExQ(ResInList, TRUE), ExQ(ResInPlain, TRUE) }
RwGroups == { Rw1(c) : c \in {CmpE("=", T1A, T2A), AndE(CmpE("=", T1A, T2A), CmpE("=", T1B, L(0))), CmpE("<", T1A, T2A)} } \cup {Rw2, Rw3, Rw4, Rw5, Rw6, Rw7}
F8 == UNION RwGroups \cup {NotInQ, NotExQ}

\* C32: views and CTEs: the same defining query used as a view (V1, created in Setup2), a CTE and a derived table
ViewDefs == << SelX(From1, <<It(A1, "A"), It(ArE("+", A1, B1), "S")>>, CmpE(">=", A1, L(0))),
               [SelX(From1, <<It(A1, "A"), It(CountStar, "N")>>, NoExpr) EXCEPT !.group = <<A1>>],
               SelX(JoinF("inner", From1, From2, CmpE("=", T1A, T2A)), <<It(T1B, "B"), It(T2C, "C")>>, NoExpr),
               \* top-N definitions: whatever the outer query filters, it filters AFTER the definition's own LIMIT / OFFSET
               \* (SqlSem!BlockRows); the ORDER BY names every column, so the slice is a definite bag
               [SelX(From1, <<It(A1, "A"), It(B1, "B")>>, NoExpr) EXCEPT !.order = <<OrdE(A1, "desc"), OrdE(B1, "desc")>>, !.limit = 1],
               [SelX(From1, <<It(A1, "A"), It(B1, "B")>>, NoExpr) EXCEPT !.order = <<OrdE(B1, "asc"), OrdE(A1, "asc")>>, !.limit = 1, !.offset = 1] >>
ViewNames9 == << "V1", "V2", "V3", "V4", "V5" >>
ViewCols == << <<>>, <<"K", "CNT">>, <<>>, <<>>, <<>> >>
OuterOn(f, c1, c2) == { [BaseSel(f) EXCEPT !.where = NoExpr], SelX(f, <<It(Col(c1), c1)>>, IsNullE(Col(c2), TRUE)),
                        \* comparisons on the first (always INTEGER) output column: filters an optimizer may want to push into the definition
                        SelX(f, <<It(Col(c1), c1), It(Col(c2), c2)>>, CmpE("=", Col(c1), L(0))), SelX(f, <<It(Col(c1), c1)>>, CmpE("<", Col(c1), L(1))),
                        [SelX(f, <<It(Col(c1), c1), It(CountStar, "N")>>, NoExpr) EXCEPT !.group = <<Col(c1)>>] }
OutCols(i) == IF ViewCols[i] # <<>> THEN ViewCols[i] ELSE [j \in 1..Len(ViewDefs[i].sel) |-> ViewDefs[i].sel[j].as]
F9View(i) == OuterOn(TableRef(ViewNames9[i]), OutCols(i)[1], OutCols(i)[2])
F9Cte(i)  == { [q EXCEPT !.with = <<[n |-> "W", q |-> ViewDefs[i], cols |-> ViewCols[i]]>>] : q \in OuterOn(TableRef("W"), OutCols(i)[1], OutCols(i)[2]) }
RenamedDef(i) == IF ViewCols[i] = <<>> THEN ViewDefs[i] ELSE [ViewDefs[i] EXCEPT !.sel = [j \in 1..Len(@) |-> It(@[j].e, ViewCols[i][j])]]
F9Der(i)  == OuterOn(Derived(RenamedDef(i), "W"), OutCols(i)[1], OutCols(i)[2])
F9 == UNION { F9View(i) \cup F9Cte(i) \cup F9Der(i) : i \in 1..5 }
Setup9 == [i \in 1..5 |-> [a |-> "cv", n |-> ViewNames9[i], q |-> ViewDefs[i], cols |-> ViewCols[i]]]

Queries == CASE Family = "F1" -> F1 [] Family = "F1L" -> F1L [] Family = "F4S" -> F4S [] Family = "F5S" -> F5S [] Family = "F1C" -> F1C [] Family = "F2" -> F2 [] Family = "F3" -> F3 [] Family = "F4" -> F4 [] Family = "F4M" -> F4M
             [] Family = "F5" -> F5 [] Family = "F6" -> F6 [] Family = "F7" -> F7 [] Family = "F8" -> F8 [] Family = "F9" -> F9
UsesT1 == Family \notin {"F1L", "F4S", "F5S"}
UsesT2 == Family \in {"F1L", "F4S", "F5S", "F3", "F4M", "F6", "F7", "F8", "F9"}
FullSetup == IF Family = "F9" THEN Setup \o Setup9 ELSE Setup

\* ---------- the state machine ----------
Init == st = Run(InitSt, FullSetup) /\ hist = FullSetup
Ins1 == \E a \in IV, b \in IV :
          /\ UsesT1 /\ Len(st.tabs["T1"].rows) < Max1 /\ RowRank(<<a, b>>) >= LastRank(st, "T1")
          /\ st.tabs["T2"].rows = <<>>                                        \* T1 is filled before T2 (canonical histories)
          /\ LET act == InsertV("T1", << <<a, b>> >>) IN st' = Apply(st, act).st /\ hist' = Append(hist, act)
Ins2 == \E a \in IV, c \in SV :
          /\ UsesT2 /\ Len(st.tabs["T2"].rows) < Max2 /\ RowRank(<<a, c>>) >= LastRank(st, "T2")
          /\ LET act == InsertV("T2", << <<a, c>> >>) IN st' = Apply(st, act).st /\ hist' = Append(hist, act)
Query == \E q \in Queries : st' = st /\ hist' = Append(hist, QueryA(q))
Next == Ins1 \/ Ins2 \/ Query
View == st
IsQ(h) == h # <<>> /\ h[Len(h)].a = "q"
Emit == IsQ(hist') => PrintT(<<"REPLAY", ToJson(hist')>>)

\* ---------- spec-level theorems, checked in every reachable database state ----------
Db == DbOf(st)
RowsOf(q) == EvalQ(q, Db, <<>>)
SameBag(q1, q2) == LET r1 == RowsOf(q1) r2 == RowsOf(q2) IN r1.err = r2.err /\ (~r1.err => BagEq(r1.rows, r2.rows))
\* C06: Q = Q[p] + Q[NOT p] + Q[p IS NULL] as bags, and |Q[p]| = number of TRUE in SELECT p
TlpHolds(from, p) ==
   LET q == RowsOf(BaseSel(from)) t == RowsOf([BaseSel(from) EXCEPT !.where = p]) f == RowsOf([BaseSel(from) EXCEPT !.where = NotE(p)])
       u == RowsOf([BaseSel(from) EXCEPT !.where = IsNullE(p, FALSE)]) s == RowsOf([BaseSel(from) EXCEPT !.star = FALSE, !.sel = <<It(p, "P")>>])
   IN (t.err \/ f.err \/ u.err \/ s.err) \/
      (BagEq(q.rows, t.rows \o f.rows \o u.rows) /\ Len(t.rows) = Cardinality({ i \in 1..Len(s.rows) : s.rows[i][1] = TT }))
ThmTLP == (Family = "F1" => \A p \in Preds : TlpHolds(From1, p)) /\ (Family = "F1L" => \A p \in LikePreds : TlpHolds(From2, p))
\* C05: members of a rewrite group agree; NOT IN = NOT EXISTS exactly when no NULL keys are involved
NoNullKeys == (\A i \in 1..Len(st.tabs["T1"].rows) : ~IsNull(st.tabs["T1"].rows[i][1])) /\ (\A i \in 1..Len(st.tabs["T2"].rows) : ~IsNull(st.tabs["T2"].rows[i][1]))
ThmRewrite == Family = "F8" => /\ \A g \in RwGroups : \A q1, q2 \in g : SameBag(q1, q2)
                               /\ (NoNullKeys => SameBag(NotInQ, NotExQ))
\* C32: view reference = CTE reference = inlined derived table
ThmView == Family = "F9" => \A i \in 1..5 : \A qv \in F9View(i) : \A qc \in F9Cte(i) : \A qd \in F9Der(i) :
              (qv.star = qc.star /\ qv.sel = qc.sel /\ qv.group = qc.group /\ qc.star = qd.star /\ qc.sel = qd.sel /\ qc.group = qd.group
               /\ qv.where = qc.where /\ qc.where = qd.where)
                 => (SameBag(qv, qc) /\ SameBag(qc, qd))
\* C08: LIMIT n OFFSET m is the slice [m, m+n) of the sorted sequence: AcceptRes accepts exactly the spec's own slice
RECURSIVE SortIdx(_,_,_)      \* stable selection sort of the index set by the ORDER BY keys
SortIdx(R, order, rem) == IF rem = {} THEN <<>> ELSE
   LET m == CHOOSE i \in rem : \A j \in rem : ~KeyVecLess(R.keys[j], R.keys[i], order) /\ (~KeyVecLess(R.keys[i], R.keys[j], order) => i <= j)
   IN <<m>> \o SortIdx(R, order, rem \ {m})
SliceOf(q) == LET R == RowsOf(q) n == Len(R.rows) off == IF q.offset < 0 THEN 0 ELSE q.offset lim == IF q.limit < 0 THEN n ELSE q.limit
                  hi == IF off + lim > n THEN n ELSE off + lim
                  ix == SortIdx(R, q.order, 1..n) IN
              IF off >= n THEN <<>> ELSE [k \in 1..(hi - off) |-> R.rows[ix[off + k]]]
ThmSlice == Family \in {"F5", "F5S"} => \A q \in Queries : ~RowsOf(q).err => AcceptRes(q, RowsOf(q), SliceOf(q))
Theorems == ThmTLP /\ ThmRewrite /\ ThmView /\ ThmSlice
=============================================================================
