------------------------------- MODULE BTree -------------------------------
(***************************************************************************)
(* Reference model for property C17: the disk-backed B+ tree               *)
(* (vibesql_storage::btree::BTreeIndex) behaves as an ORDERED MULTIMAP      *)
(* key -> bag of row ids, and its persisted page structure stays           *)
(* well-formed.                                                            *)
(*                                                                         *)
(* Part 1 fixes the ORDER of index keys (a key is a tuple of SQL values;   *)
(* NULL sorts first, integers numerically, strings by code point, tuples   *)
(* lexicographically, a proper prefix before its extensions) and the key   *)
(* universes Univ(schema, nu): strictly increasing sequences of concrete   *)
(* keys.  A key is referred to everywhere else by its RANK in the universe *)
(* of the scenario, so that Part 2 - the multimap - is a function          *)
(*        m \in [1..nu -> Seq(RowId)]          (<<>> = key absent)          *)
(* whose order is the order of the integers.  The binding between ranks    *)
(* and concrete keys is StrictlySorted(Univ(..)), checked by TLC for every *)
(* scenario header (TraceBTree) and for every universe (MC_BTree).         *)
(*                                                                         *)
(* Part 3 states the acceptance sets for the answers of lookup,            *)
(* multi_lookup and range_scan (row ids of one key form a BAG: any order   *)
(* inside a key is accepted; keys must come in ascending order), Part 4    *)
(* the well-formedness of a dumped page structure.                         *)
(***************************************************************************)
EXTENDS Integers, Sequences, FiniteSets

Range(s) == { s[i] : i \in 1..Len(s) }

\* ------------------------------------------------------------------ Part 1: keys and their order
NullV     == [t |-> "n", n |-> 0, c |-> <<>>]
IntV(i)   == [t |-> "i", n |-> i, c |-> <<>>]
StrV(cs)  == [t |-> "s", n |-> 0, c |-> cs]          \* cs: sequence of Unicode code points

\* strict lexicographic order on sequences of integers (a proper prefix is smaller)
CodesLess(a, b) == \E i \in 1..Len(b) : /\ i <= Len(a) + 1
                                        /\ \A j \in 1..(i - 1) : a[j] = b[j]
                                        /\ (i = Len(a) + 1 \/ a[i] < b[i])
\* values of one key column have one type, or are NULL
ValLess(x, y) == IF x.t = "n" THEN y.t # "n"
                 ELSE IF y.t = "n" THEN FALSE
                 ELSE IF x.t = "i" THEN x.n < y.n
                 ELSE CodesLess(x.c, y.c)
KeyLess(a, b) == \E i \in 1..Len(b) : /\ i <= Len(a) + 1
                                      /\ \A j \in 1..(i - 1) : a[j] = b[j]
                                      /\ (i = Len(a) + 1 \/ ValLess(a[i], b[i]))
StrictlySorted(U) == \A i \in 1..(Len(U) - 1) : KeyLess(U[i], U[i + 1])

\* Key schemas (the harness maps the name to the column types; the B+ tree derives its degree from them):
\*   "v"  VARCHAR            degree 5 (the minimum)        "v6" VARCHAR(150)  degree 6
\*   "v9" VARCHAR(100)       degree 9                      "i"  INTEGER       degree 204
\*   "iv" (INTEGER, VARCHAR) degree 5, composite, NULL components, prefix keys (arity 1) as scan bounds
Schemas == {"v", "v6", "v9", "i", "iv"}
Arity(schema) == IF schema = "iv" THEN 2 ELSE 1

\* single VARCHAR column: NULL, "", then for every leading letter b: b, bA, ba, baa, b<e-acute>, b<euro sign>
VKey(i) == IF i = 1 THEN <<NullV>>
           ELSE IF i = 2 THEN <<StrV(<<>>)>>
           ELSE LET j == i - 3  b == 66 + (j \div 6)  v == j % 6 IN
                << StrV(CASE v = 0 -> <<b>>        [] v = 1 -> <<b, 65>>  [] v = 2 -> <<b, 97>>
                          [] v = 3 -> <<b, 97, 97>> [] v = 4 -> <<b, 233>> [] v = 5 -> <<b, 8364>>) >>
\* single INTEGER column: NULL, then negative to positive
IKey(i, nu) == IF i = 1 THEN <<NullV>> ELSE << IntV((i - (nu \div 2)) * 7) >>
\* (INTEGER, VARCHAR): groups of six per integer value x (NULL, -1, 0, 1, ..): <<x>>, <<x,NULL>>, <<x,"">>, <<x,"a">>, <<x,"aa">>, <<x,"b">>
IVKey(i) == LET g == (i - 1) \div 6  v == (i - 1) % 6
                x == IF g = 0 THEN NullV ELSE IntV(g - 2) IN
            CASE v = 0 -> <<x>>
              [] v = 1 -> <<x, NullV>>
              [] v = 2 -> <<x, StrV(<<>>)>>
              [] v = 3 -> <<x, StrV(<<97>>)>>
              [] v = 4 -> <<x, StrV(<<97, 97>>)>>
              [] v = 5 -> <<x, StrV(<<98>>)>>
Univ(schema, nu) == [i \in 1..nu |-> IF schema = "i" THEN IKey(i, nu) ELSE IF schema = "iv" THEN IVKey(i) ELSE VKey(i)]
\* ranks that may be stored in the index (full-arity keys); the other ranks are only used as probe arguments
Storable(schema, nu) == { i \in 1..nu : schema # "iv" \/ (i - 1) % 6 # 0 }

\* ------------------------------------------------------------------ Part 2: the ordered multimap over ranks
EmptyMap(nu)   == [i \in 1..nu |-> <<>>]
Present(m)     == { i \in DOMAIN m : m[i] # <<>> }
Size(m)        == Cardinality(Present(m))
Has(s, r)      == \E i \in 1..Len(s) : s[i] = r
Count(s, r)    == Cardinality({ i \in 1..Len(s) : s[i] = r })
BagEq(s, t)    == Len(s) = Len(t) /\ \A x \in Range(s) : Count(s, x) = Count(t, x)
RemoveOne(s, r) == LET i == CHOOSE i \in 1..Len(s) : s[i] = r /\ \A j \in 1..(i - 1) : s[j] # r
                   IN SubSeq(s, 1, i - 1) \o SubSeq(s, i + 1, Len(s))

Insert(m, k, r)         == [m EXCEPT ![k] = Append(@, r)]
Delete(m, k)            == [st |-> [m EXCEPT ![k] = <<>>], ret |-> m[k] # <<>>]
DeleteSpecific(m, k, r) == IF Has(m[k], r) THEN [st |-> [m EXCEPT ![k] = RemoveOne(@, r)], ret |-> TRUE]
                                           ELSE [st |-> m, ret |-> FALSE]
\* bulk_load takes entries <<rank, rowid>> sorted by key (equal keys adjacent)
SortedEnts(ents) == \A i \in 1..(Len(ents) - 1) : ents[i][1] <= ents[i + 1][1]
RECURSIVE LoadFrom(_, _)
LoadFrom(m, ents)   == IF ents = <<>> THEN m ELSE LoadFrom(Insert(m, ents[1][1], ents[1][2]), Tail(ents))
BulkLoad(nu, ents)  == LoadFrom(EmptyMap(nu), ents)

\* One abstract call.  ret is meaningful when hasret (delete / delete_specific return "found").
\* reload = BTreeIndex::load over the same PageManager; reopen = drop everything, open the file again, load:
\* both must leave the multimap as it was (the tree is persistent).
Apply(m, a) ==
   CASE a.a = "new"    -> [st |-> EmptyMap(a.nu), ret |-> TRUE, hasret |-> FALSE]
     [] a.a = "bulk"   -> [st |-> BulkLoad(a.nu, a.ents), ret |-> TRUE, hasret |-> FALSE]
     [] a.a = "ins"    -> [st |-> Insert(m, a.k, a.r), ret |-> TRUE, hasret |-> FALSE]
     [] a.a = "seq"    -> [st |-> LoadFrom(m, a.ops), ret |-> TRUE, hasret |-> FALSE]       \* a run of inserts <<rank, rowid>>
     [] a.a = "del"    -> [st |-> Delete(m, a.k).st, ret |-> Delete(m, a.k).ret, hasret |-> TRUE]
     [] a.a = "dels"   -> [st |-> DeleteSpecific(m, a.k, a.r).st, ret |-> DeleteSpecific(m, a.k, a.r).ret, hasret |-> TRUE]
     [] a.a \in {"reload", "reopen"} -> [st |-> m, ret |-> TRUE, hasret |-> FALSE]

\* ------------------------------------------------------------------ Part 3: answers and their acceptance sets
Lookup(m, k) == IF k \in DOMAIN m THEN m[k] ELSE <<>>
\* a range is <<lo, hi, li, ri>>: bounds are ranks (0 = unbounded), li/ri = 1 iff the bound is inclusive
Rg(lo, hi, li, ri) == <<lo, hi, IF li THEN 1 ELSE 0, IF ri THEN 1 ELSE 0>>
InRange(i, r) == /\ (r[1] = 0 \/ i > r[1] \/ (r[3] = 1 /\ i = r[1]))
                 /\ (r[2] = 0 \/ i < r[2] \/ (r[4] = 1 /\ i = r[2]))
Ranks(nu)     == [i \in 1..nu |-> i]
RangeKeys(m, r)   == SelectSeq(Ranks(Len(m)), LAMBDA i : m[i] # <<>> /\ InRange(i, r))
RangeGroups(m, r) == LET ks == RangeKeys(m, r) IN [j \in 1..Len(ks) |-> m[ks[j]]]
MultiGroups(m, ks) == [j \in 1..Len(ks) |-> Lookup(m, ks[j])]
RECURSIVE Flat(_)
Flat(gs) == IF gs = <<>> THEN <<>> ELSE Head(gs) \o Flat(Tail(gs))
\* res is the concatenation, group by group, of some arrangement of each group's bag
RECURSIVE AcceptConcat(_, _)
AcceptConcat(res, gs) ==
   IF gs = <<>> THEN res = <<>>
   ELSE LET g == Head(gs) IN /\ Len(res) >= Len(g)
                             /\ BagEq(SubSeq(res, 1, Len(g)), g)
                             /\ AcceptConcat(SubSeq(res, Len(g) + 1, Len(res)), Tail(gs))
Accept(res, gs)        == res = Flat(gs) \/ AcceptConcat(res, gs)
AcceptLookup(m, k, res) == BagEq(res, Lookup(m, k))
AcceptRange(m, r, res)  == Accept(res, RangeGroups(m, r))
AcceptMulti(m, ks, res) == Accept(res, MultiGroups(m, ks))

\* Evaluation shortcuts for the validator (MC_BTree checks on every reachable multimap that they equal the definitions):
\* the full scan in model order, the running total of row ids up to each rank, and a scan as a segment of the full scan.
RECURSIVE FlatTo(_, _)
FlatTo(m, i) == IF i = 0 THEN <<>> ELSE FlatTo(m, i - 1) \o m[i]
RECURSIVE CumTo(_, _)
CumTo(m, i) == IF i = 0 THEN <<>> ELSE LET p == CumTo(m, i - 1) IN Append(p, (IF i = 1 THEN 0 ELSE p[i - 1]) + Len(m[i]))
FirstIn(r)      == IF r[1] = 0 THEN 1 ELSE IF r[3] = 1 THEN r[1] ELSE r[1] + 1
LastIn(r, nu)   == IF r[2] = 0 THEN nu ELSE IF r[4] = 1 THEN r[2] ELSE r[2] - 1
Seg(fa, cu, r)  == LET a == FirstIn(r)  b == LastIn(r, Len(cu)) IN
                   IF a > b THEN <<>> ELSE SubSeq(fa, (IF a = 1 THEN 0 ELSE cu[a - 1]) + 1, cu[b])

\* The probe battery executed after a call (all arguments are ranks of the universe):
\*   lookup of every rank; the ranges below; the multi-lookups below.
\* bounds: every stride-th rank from 1, and the last rank
NBnd(nu, stride)  == ((nu - 1) \div stride) + 1 + (IF (nu - 1) % stride = 0 THEN 0 ELSE 1)
Bnd(nu, stride, j) == IF 1 + (j - 1) * stride <= nu THEN 1 + (j - 1) * stride ELSE nu
\* full scan; one-sided scans from / up to every bound (inclusive and exclusive); two-sided scans between a bound and
\* itself / the next / the next but one bound with the four inclusiveness combinations; inverted bounds (empty answer)
Ranges(nu, stride) ==
   LET NB == NBnd(nu, stride)
       B(j) == Bnd(nu, stride, IF j > NB THEN NB ELSE j) IN
        << Rg(0, 0, TRUE, TRUE) >>
   \o [t \in 1..(2 * NB)  |-> Rg(B((t + 1) \div 2), 0, t % 2 = 1, TRUE)]
   \o [t \in 1..(2 * NB)  |-> Rg(0, B((t + 1) \div 2), TRUE, t % 2 = 1)]
   \o [t \in 1..(12 * NB) |-> LET j == ((t - 1) \div 12) + 1  dd == ((t - 1) % 12) \div 4  q == (t - 1) % 4
                              IN Rg(B(j), B(j + dd), q \div 2 = 1, q % 2 = 1)]
   \o [t \in 1..(NB - 1)  |-> Rg(B(t + 1), B(t), TRUE, TRUE)]
Multis(nu) == << <<>>, <<1>>, <<nu, 1>>,
                 [j \in 1..((nu + 2) \div 3) |-> 3 * j - 2],                       \* ascending, every third rank
                 [j \in 1..((nu + 1) \div 2) |-> nu + 2 - 2 * j],                  \* descending, every second rank
                 <<2, 2, 3, 2>> >>                                                \* repeated key

\* ------------------------------------------------------------------ Part 4: well-formedness of the persisted tree
\* A dump d = [h, root, ok, nodes]: the pages reachable from the root in depth-first, left-to-right order,
\* node = [id, d (depth, root = 1), t ("I" | "L"), ks (ranks of the keys; 0 = a key outside the universe),
\*         ch (child page ids, internal), rs (row-id lists, leaf; parallel to ks), nx (next_leaf, leaf)].
NodeIds(d)    == { d.nodes[i].id : i \in 1..Len(d.nodes) }
NodeOf(d, id) == d.nodes[CHOOSE i \in 1..Len(d.nodes) : d.nodes[i].id = id]
Increasing(s) == \A i \in 1..(Len(s) - 1) : s[i] < s[i + 1]
Leaves(d)     == SelectSeq(d.nodes, LAMBDA n : n.t = "L")
RECURSIVE KeysUnder(_, _)
KeysUnder(d, id) == LET n == NodeOf(d, id) IN
                    IF n.t = "L" THEN Range(n.ks) ELSE UNION { KeysUnder(d, n.ch[j]) : j \in 1..Len(n.ch) }
\* every page decodable, reached once, children one level below their parent, node arities consistent
WfShape(d) == /\ d.ok /\ Len(d.nodes) >= 1
              /\ Cardinality(NodeIds(d)) = Len(d.nodes) /\ 0 \notin NodeIds(d)
              /\ d.nodes[1].id = d.root /\ d.nodes[1].d = 1
              /\ \A i \in 1..Len(d.nodes) : LET n == d.nodes[i] IN
                    /\ n.t \in {"I", "L"}
                    /\ n.t = "I" => /\ Len(n.ch) = Len(n.ks) + 1
                                    /\ \A j \in 1..Len(n.ch) : n.ch[j] \in NodeIds(d) /\ NodeOf(d, n.ch[j]).d = n.d + 1
                    /\ n.t = "L" => Len(n.rs) = Len(n.ks) /\ \A j \in 1..Len(n.rs) : n.rs[j] # <<>>
\* uniform leaf depth = the height recorded in the metadata
WfDepth(d) == \A i \in 1..Len(d.nodes) : LET n == d.nodes[i] IN IF n.t = "L" THEN n.d = d.h ELSE n.d < d.h
\* keys strictly increasing inside every node, all inside the universe
WfSorted(d, nu) == \A i \in 1..Len(d.nodes) : LET n == d.nodes[i] IN Increasing(n.ks) /\ \A j \in 1..Len(n.ks) : n.ks[j] \in 1..nu
\* separators route correctly: subtree j holds keys k with ks[j-1] <= k < ks[j]
WfSep(d) == \A i \in 1..Len(d.nodes) : LET n == d.nodes[i] IN
               n.t = "I" => \A j \in 1..Len(n.ch) : \A k \in KeysUnder(d, n.ch[j]) :
                               (j = 1 \/ k >= n.ks[j - 1]) /\ (j = Len(n.ch) \/ k < n.ks[j])
\* the leaf chain visits every leaf once, left to right, and ends
WfChain(d) == LET L == Leaves(d) IN /\ Len(L) >= 1
                                    /\ \A i \in 1..(Len(L) - 1) : L[i].nx = L[i + 1].id
                                    /\ L[Len(L)].nx = 0
\* the chain holds exactly the multimap
LeafKeys(d) == Flat([i \in 1..Len(Leaves(d)) |-> Leaves(d)[i].ks])
LeafRids(d) == Flat([i \in 1..Len(Leaves(d)) |-> Leaves(d)[i].rs])
WfContent(d, m) == /\ LeafKeys(d) = RangeKeys(m, Rg(0, 0, TRUE, TRUE))
                   /\ \A i \in 1..Len(LeafKeys(d)) : BagEq(LeafRids(d)[i], m[LeafKeys(d)[i]])
\* names of the violated clauses (the later clauses presuppose the shape)
WfFails(d, m, nu) ==
   IF ~WfShape(d) THEN <<"shape">>
   ELSE SelectSeq(<<"depth", "sorted", "sep", "chain", "content">>,
                  LAMBDA c : CASE c = "depth"   -> ~WfDepth(d)
                               [] c = "sorted"  -> ~WfSorted(d, nu)
                               [] c = "sep"     -> ~WfSep(d)
                               [] c = "chain"   -> ~WfChain(d)
                               [] c = "content" -> ~(WfSorted(d, nu) /\ WfContent(d, m)))
WellFormed(d, m, nu) == WfFails(d, m, nu) = <<>>
=============================================================================
