------------------------------ MODULE CsvJson ------------------------------
(***************************************************************************)
(* Reference model for C31 (CLI import / export).  Pure operators.         *)
(*                                                                         *)
(* A TEXT is a sequence of Unicode code points (44 = comma, 34 = double    *)
(* quote, 10 = LF, 13 = CR ...).  SQL values are uniformly typed records   *)
(*   Null, IntV(k), Str(text), Flt(decimal text)                            *)
(* and a table is [name, cols: <<[n: text, ty: "i"|"s"|"f"]>>, rows].      *)
(*                                                                         *)
(* CSV (RFC 4180): WriteCsv / ParseCsv.  A field is [x: text, q: BOOLEAN]  *)
(* (q = written between double quotes).  Fields that contain a comma, a    *)
(* double quote, CR or LF are quoted, quotes inside are doubled; records   *)
(* end with CRLF or LF, the last line end is optional; the first record is *)
(* the header.  ParseCsv is total: it answers ok + records, or not ok +    *)
(* the reason (quote inside an unquoted field, text after a closing quote, *)
(* unterminated quote, bare CR).  Theorem (checked by TLC in MC_Csv):      *)
(* ParseCsv(WriteCsv(recs)) = recs.                                        *)
(*                                                                         *)
(* JSON: JDoc parses `[ {"key": value, ..}, .. ]` (RFC 8259 strings with   *)
(* escapes, numbers, true/false/null, nested values kept as raw text);     *)
(* JWriteDoc writes it (compact or indented).  Theorem: JDoc(JWriteDoc(d)) *)
(* = d.                                                                    *)
(*                                                                         *)
(* MEANING of an import of a file into table T.  The file is read into     *)
(* RECORDS, each with a status and one cell per column of T:               *)
(*   must  the record has to be inserted                                   *)
(*   may   the property leaves it open whether the record is accepted      *)
(*   no    the record cannot be inserted as data (unknown column, wrong    *)
(*         number of fields, text that is not a number for a numeric       *)
(*         column): it has to be left out or the file refused               *)
(* and the file has a status must | may | no | malformed.  What the cells  *)
(* mean (CellDen) - decisions, following docs/CLI_GUIDE.md ("first row      *)
(* contains column names", "NULL values represented as empty fields"):     *)
(*   - a string column takes the field text exactly as it is: NULL, 007,   *)
(*     ' a ', SQL fragments are strings.  Quoting is syntax only.          *)
(*   - the empty UNQUOTED field is NULL (documented); for a string column  *)
(*     the empty string is accepted as well (acceptance set {NULL, ''});   *)
(*     the empty QUOTED field is the empty string.                         *)
(*   - a numeric column takes decimal integer (decimal number) texts by    *)
(*     value; anything else is not insertable; padded / signed forms and   *)
(*     the quoted empty field are left open (may).                         *)
(*   - JSON: string -> that string (also "NULL", "1"); null -> NULL;       *)
(*     number -> the number for numeric columns (must), its text for a     *)
(*     string column (may); true/false and nested values only as "may".    *)
(*     A key is a column NAME or the record is "no"; a missing key is NULL *)
(*     (may).                                                              *)
(*   - header: the column names of T in order (must); a permutation /      *)
(*     subset / different letter case or padding (may); a name that is not *)
(*     a column (no).  A file that names a column twice (repeated header,  *)
(*     repeated JSON key) has no defined records: treated like a malformed *)
(*     file.  The same rule for JSON keys.                                 *)
(* JudgeImport decides an observed import: every other table and the       *)
(* catalog are unchanged and the old rows of T are kept (ALWAYS, whatever   *)
(* the file is); an import that reports an error changed nothing; a file   *)
(* whose records are all "must" is not refused; the new rows are exactly   *)
(* the records (as a multiset; all "must", no "no" record).  For a         *)
(* malformed file only the ALWAYS part is required.                        *)
(* Round trip: ExportCsv / ExportJson are reference exporters and          *)
(* RefRows(Meaning(cols, Export(cols, rows))) = rows is checked by TLC.    *)
(***************************************************************************)
EXTENDS Integers, Sequences, FiniteSets

HT == 9   LF == 10   CR == 13   SP == 32   DQ == 34   SQ == 39   PLUS == 43   COMMA == 44   MINUS == 45   DOT == 46
SLASH == 47   COLON == 58   SEMI == 59   LBRK == 91   BSL == 92   RBRK == 93   LBRC == 123   RBRC == 125
Digit(c) == c >= 48 /\ c <= 57
AllDigits(x) == \A i \in 1..Len(x) : Digit(x[i])

Sub(s, i, j) == IF j < i THEN <<>> ELSE SubSeq(s, i, j)
RECURSIVE FlatR(_, _, _)
FlatR(ss, lo, hi) == IF lo > hi THEN <<>> ELSE IF lo = hi THEN ss[lo]
                     ELSE LET mid == (lo + hi) \div 2 IN FlatR(ss, lo, mid) \o FlatR(ss, mid + 1, hi)
Flat(ss) == FlatR(ss, 1, Len(ss))
Join(ss, sep) == Flat([i \in 1..Len(ss) |-> IF i = 1 THEN ss[i] ELSE sep \o ss[i]])
RemoveAt(s, j) == Sub(s, 1, j - 1) \o Sub(s, j + 1, Len(s))
First(S) == CHOOSE i \in S : \A j \in S : i <= j
\* TLC evaluates LET definitions and operator arguments at every use: a costly value is bound once as the only element of a set
Pick(S) == CHOOSE x \in S : TRUE
\* first index >= from with t[i] \in C; 0 if none
Find(t, from, C) == LET S == { i \in from..Len(t) : t[i] \in C } IN IF S = {} THEN 0 ELSE First(S)

\* ------------------------------------------------------------------ SQL values
Null   == [t |-> "n", n |-> 0, s |-> <<>>]
IntV(k) == [t |-> "i", n |-> k, s |-> <<>>]
Str(x) == [t |-> "s", n |-> 0, s |-> x]
Flt(x) == [t |-> "f", n |-> 0, s |-> x]

\* ------------------------------------------------------------------ numbers as text
Unsigned(x) == IF x # <<>> /\ x[1] = MINUS THEN Tail(x) ELSE x
IsIntText(x) == LET d == Unsigned(x) IN Len(d) >= 1 /\ Len(d) <= 9 /\ AllDigits(d)
RECURSIVE NatVal(_, _, _)
NatVal(d, i, acc) == IF i > Len(d) THEN acc ELSE NatVal(d, i + 1, acc * 10 + (d[i] - 48))
IntVal(x) == IF x[1] = MINUS THEN -NatVal(Tail(x), 1, 0) ELSE NatVal(x, 1, 0)
RECURSIVE NatText(_)
NatText(n) == IF n < 10 THEN <<48 + n>> ELSE Append(NatText(n \div 10), 48 + (n % 10))
IntText(n) == IF n < 0 THEN <<MINUS>> \o NatText(-n) ELSE NatText(n)
\* decimal numbers: -?digits(.digits)?
IsDecText(x) == LET b == Unsigned(x)
                    dot == Find(b, 1, {DOT})
                    ip == IF dot = 0 THEN b ELSE Sub(b, 1, dot - 1)
                    fp == IF dot = 0 THEN <<>> ELSE Sub(b, dot + 1, Len(b)) IN
                Len(ip) >= 1 /\ AllDigits(ip) /\ AllDigits(fp) /\ (dot = 0 \/ Len(fp) >= 1)
RECURSIVE StripLead(_)
StripLead(d) == IF Len(d) > 1 /\ d[1] = 48 THEN StripLead(Tail(d)) ELSE d
RECURSIVE StripTrail(_)
StripTrail(d) == IF d # <<>> /\ d[Len(d)] = 48 THEN StripTrail(Sub(d, 1, Len(d) - 1)) ELSE d
\* the number a decimal text denotes: <<negative, integer digits, fraction digits>> in lowest terms
NormDec(x) == LET b == Unsigned(x)
                  dot == Find(b, 1, {DOT})
                  ip == StripLead(IF dot = 0 THEN b ELSE Sub(b, 1, dot - 1))
                  fp == StripTrail(IF dot = 0 THEN <<>> ELSE Sub(b, dot + 1, Len(b))) IN
              << x[1] = MINUS /\ ~(ip = <<48>> /\ fp = <<>>), ip, fp >>
Trim(x) == LET S == { i \in 1..Len(x) : x[i] # SP } IN
           IF S = {} THEN <<>> ELSE Sub(x, First(S), CHOOSE i \in S : \A j \in S : j <= i)
Unplus(x) == IF x # <<>> /\ x[1] = PLUS THEN Tail(x) ELSE x

\* ================================================================== CSV (RFC 4180)
F(x, q) == [x |-> x, q |-> q]
NeedsQuote(x) == \E i \in 1..Len(x) : x[i] \in {COMMA, DQ, LF, CR}
WriteField(f) == IF f.q \/ NeedsQuote(f.x)
                 THEN <<DQ>> \o Flat([i \in 1..Len(f.x) |-> IF f.x[i] = DQ THEN <<DQ, DQ>> ELSE <<f.x[i]>>]) \o <<DQ>>
                 ELSE f.x
WriteRecord(r) == Join([i \in 1..Len(r) |-> WriteField(r[i])], <<COMMA>>)
\* eol: <<LF>> or <<CR, LF>>; final: the last record is followed by a line end
WriteCsv(recs, eol, final) == Join([i \in 1..Len(recs) |-> WriteRecord(recs[i])], eol) \o (IF final /\ recs # <<>> THEN eol ELSE <<>>)
\* what the parser reports for a written field
AsRead(f) == F(f.x, f.q \/ NeedsQuote(f.x))

CsvOk(recs) == [ok |-> TRUE, recs |-> recs, why |-> ""]
CsvBad(why) == [ok |-> FALSE, recs |-> <<>>, why |-> why]
\* st: sor (start of a record) | sof (start of a field) | unq (inside an unquoted field) | q (inside quotes) | qq (after a quote inside quotes)
RECURSIVE CsvR(_, _, _, _, _, _)
CsvR(t, i, st, fld, rec, recs) ==
   LET eof == i > Len(t)
       c == IF eof THEN -1 ELSE t[i]
       crlf == c = CR /\ i < Len(t) /\ t[i + 1] = LF
       endF(q) == Append(rec, F(fld, q))
   IN
   IF st = "sor" THEN (IF eof THEN CsvOk(recs) ELSE CsvR(t, i, "sof", <<>>, <<>>, recs))
   ELSE IF st \in {"sof", "unq", "qq"} THEN
      LET q == st = "qq" IN
      IF eof THEN CsvOk(Append(recs, endF(q)))
      ELSE IF c = COMMA THEN CsvR(t, i + 1, "sof", <<>>, endF(q), recs)
      ELSE IF c = LF THEN CsvR(t, i + 1, "sor", <<>>, <<>>, Append(recs, endF(q)))
      ELSE IF crlf THEN CsvR(t, i + 2, "sor", <<>>, <<>>, Append(recs, endF(q)))
      ELSE IF c = CR THEN CsvBad("bare CR")
      ELSE IF c = DQ THEN (IF st = "sof" THEN CsvR(t, i + 1, "q", <<>>, rec, recs)
                           ELSE IF st = "qq" THEN CsvR(t, i + 1, "q", Append(fld, DQ), rec, recs)
                           ELSE CsvBad("quote inside an unquoted field"))
      ELSE IF st = "qq" THEN CsvBad("text after a closing quote")
      ELSE CsvR(t, i + 1, "unq", Append(fld, c), rec, recs)
   ELSE \* st = "q"
      IF eof THEN CsvBad("unterminated quote")
      ELSE IF c = DQ THEN CsvR(t, i + 1, "qq", fld, rec, recs)
      ELSE CsvR(t, i + 1, "q", Append(fld, c), rec, recs)
ParseCsv(t) == CsvR(t, 1, "sor", <<>>, <<>>, <<>>)

\* ================================================================== JSON (the subset `array of objects`)
\* a JSON value: jt in s (string, x = its characters) | i (integer number, n its value, x its text) | f (other number, x its text)
\*               | n (null) | b (n = 1 true / 0 false) | x (array or object, x = its raw text)
JV(jt, x, n) == [jt |-> jt, x |-> x, n |-> n]
JNull == JV("n", <<>>, 0)
Ws(c) == c \in {SP, HT, LF, CR}
RECURSIVE SkipWs(_, _)
SkipWs(t, i) == IF i <= Len(t) /\ Ws(t[i]) THEN SkipWs(t, i + 1) ELSE i
Hex(c) == IF Digit(c) THEN c - 48 ELSE IF c >= 97 /\ c <= 102 THEN c - 87 ELSE IF c >= 65 /\ c <= 70 THEN c - 55 ELSE -1
JFail == [ok |-> FALSE, s |-> <<>>, j |-> 0]
\* the string that starts after the opening quote at t[i - 1]; j = index after the closing quote
RECURSIVE JStrR(_, _, _)
JStrR(t, i, acc) ==
   IF i > Len(t) THEN JFail
   ELSE LET c == t[i] IN
     IF c = DQ THEN [ok |-> TRUE, s |-> acc, j |-> i + 1]
     ELSE IF c < 32 THEN JFail
     ELSE IF c # BSL THEN JStrR(t, i + 1, Append(acc, c))
     ELSE IF i + 1 > Len(t) THEN JFail
     ELSE LET e == t[i + 1] IN
       IF e \in {DQ, BSL, SLASH} THEN JStrR(t, i + 2, Append(acc, e))
       ELSE IF e = 98 THEN JStrR(t, i + 2, Append(acc, 8))
       ELSE IF e = 102 THEN JStrR(t, i + 2, Append(acc, 12))
       ELSE IF e = 110 THEN JStrR(t, i + 2, Append(acc, LF))
       ELSE IF e = 114 THEN JStrR(t, i + 2, Append(acc, CR))
       ELSE IF e = 116 THEN JStrR(t, i + 2, Append(acc, HT))
       ELSE IF e = 117 /\ i + 5 <= Len(t) /\ \A k \in 2..5 : Hex(t[i + k]) >= 0 THEN
              LET cp == Hex(t[i + 2]) * 4096 + Hex(t[i + 3]) * 256 + Hex(t[i + 4]) * 16 + Hex(t[i + 5]) IN
              IF cp >= 55296 /\ cp <= 57343 THEN JFail          \* surrogate pairs are outside the model
              ELSE JStrR(t, i + 6, Append(acc, cp))
       ELSE JFail
JString(t, i) == IF i <= Len(t) /\ t[i] = DQ THEN JStrR(t, i + 1, <<>>) ELSE JFail

NumChar(c) == Digit(c) \/ c \in {MINUS, PLUS, DOT, 101, 69}
RECURSIVE NumEnd(_, _)
NumEnd(t, i) == IF i <= Len(t) /\ NumChar(t[i]) THEN NumEnd(t, i + 1) ELSE i
IsJsonNumber(x) == LET e == Find(x, 1, {101, 69})
                       m == IF e = 0 THEN x ELSE Sub(x, 1, e - 1)
                       ex == IF e = 0 THEN <<48>> ELSE Sub(x, e + 1, Len(x))
                       exd == IF ex # <<>> /\ ex[1] \in {PLUS, MINUS} THEN Tail(ex) ELSE ex
                       ip == LET b == Unsigned(m) d == Find(b, 1, {DOT}) IN IF d = 0 THEN b ELSE Sub(b, 1, d - 1) IN
                   IsDecText(m) /\ (Len(ip) = 1 \/ ip[1] # 48) /\ Len(exd) >= 1 /\ AllDigits(exd)
Lit(t, i, w) == i + Len(w) - 1 <= Len(t) /\ Sub(t, i, i + Len(w) - 1) = w
TrueW == <<116, 114, 117, 101>>   FalseW == <<102, 97, 108, 115, 101>>   NullW == <<110, 117, 108, 108>>

\* end (index after) of any JSON value that starts at t[i]; 0 = not a value
RECURSIVE JSkip(_, _), JSkipArr(_, _), JSkipObj(_, _)
JSkip(t, i) ==
   IF i > Len(t) THEN 0
   ELSE LET c == t[i] IN
     IF c = DQ THEN JString(t, i).j
     ELSE IF c = LBRK THEN (LET k == SkipWs(t, i + 1) IN IF k <= Len(t) /\ t[k] = RBRK THEN k + 1 ELSE JSkipArr(t, k))
     ELSE IF c = LBRC THEN (LET k == SkipWs(t, i + 1) IN IF k <= Len(t) /\ t[k] = RBRC THEN k + 1 ELSE JSkipObj(t, k))
     ELSE IF Lit(t, i, TrueW) THEN i + 4
     ELSE IF Lit(t, i, FalseW) THEN i + 5
     ELSE IF Lit(t, i, NullW) THEN i + 4
     ELSE LET k == NumEnd(t, i) IN IF k > i /\ IsJsonNumber(Sub(t, i, k - 1)) THEN k ELSE 0
JSkipArr(t, i) ==          \* at the first character of an element
   LET j == JSkip(t, i) IN
   IF j = 0 THEN 0
   ELSE LET k == SkipWs(t, j) IN
        IF k > Len(t) THEN 0
        ELSE IF t[k] = RBRK THEN k + 1
        ELSE IF t[k] = COMMA THEN JSkipArr(t, SkipWs(t, k + 1))
        ELSE 0
JSkipObj(t, i) ==          \* at the first character of a key
   LET s == JString(t, i) IN
   IF ~s.ok THEN 0
   ELSE LET c == SkipWs(t, s.j) IN
        IF c > Len(t) \/ t[c] # COLON THEN 0
        ELSE LET j == JSkip(t, SkipWs(t, c + 1)) IN
             IF j = 0 THEN 0
             ELSE LET k == SkipWs(t, j) IN
                  IF k > Len(t) THEN 0
                  ELSE IF t[k] = RBRC THEN k + 1
                  ELSE IF t[k] = COMMA THEN JSkipObj(t, SkipWs(t, k + 1))
                  ELSE 0

VFail == [ok |-> FALSE, v |-> JNull, j |-> 0]
JValue(t, i) ==
   IF i > Len(t) THEN VFail
   ELSE LET c == t[i] IN
     IF c = DQ THEN Pick({ IF s.ok THEN [ok |-> TRUE, v |-> JV("s", s.s, 0), j |-> s.j] ELSE VFail : s \in { JString(t, i) } })
     ELSE IF c \in {LBRK, LBRC} THEN (LET j == JSkip(t, i) IN IF j = 0 THEN VFail ELSE [ok |-> TRUE, v |-> JV("x", Sub(t, i, j - 1), 0), j |-> j])
     ELSE IF Lit(t, i, TrueW) THEN [ok |-> TRUE, v |-> JV("b", <<>>, 1), j |-> i + 4]
     ELSE IF Lit(t, i, FalseW) THEN [ok |-> TRUE, v |-> JV("b", <<>>, 0), j |-> i + 5]
     ELSE IF Lit(t, i, NullW) THEN [ok |-> TRUE, v |-> JNull, j |-> i + 4]
     ELSE LET k == NumEnd(t, i)
              x == Sub(t, i, k - 1) IN
          IF k = i \/ ~IsJsonNumber(x) THEN VFail
          ELSE [ok |-> TRUE, v |-> IF IsIntText(x) THEN JV("i", x, IntVal(x)) ELSE JV("f", x, 0), j |-> k]

OFail == [ok |-> FALSE, kv |-> <<>>, j |-> 0]
MFail == [ok |-> FALSE, k |-> <<>>, v |-> JNull, j |-> 0]
\* one member `"key" : value` that starts at t[i]
JMember(t, i) ==
   Pick({ IF ~s.ok THEN MFail
          ELSE LET c == SkipWs(t, s.j) IN
               IF c > Len(t) \/ t[c] # COLON THEN MFail
               ELSE Pick({ IF ~v.ok THEN MFail ELSE [ok |-> TRUE, k |-> s.s, v |-> v.v, j |-> v.j] : v \in { JValue(t, SkipWs(t, c + 1)) } })
          : s \in { JString(t, i) } })
\* members of an object; i = first character of a key
RECURSIVE JMembers(_, _, _)
JMembers(t, i, acc) ==
   Pick({ IF ~m.ok THEN OFail
          ELSE LET k == SkipWs(t, m.j)
                   acc2 == Append(acc, [k |-> m.k, v |-> m.v]) IN
               IF k > Len(t) THEN OFail
               ELSE IF t[k] = RBRC THEN [ok |-> TRUE, kv |-> acc2, j |-> k + 1]
               ELSE IF t[k] = COMMA THEN JMembers(t, SkipWs(t, k + 1), acc2)
               ELSE OFail
          : m \in { JMember(t, i) } })
JObject(t, i) ==
   IF i > Len(t) \/ t[i] # LBRC THEN OFail
   ELSE LET k == SkipWs(t, i + 1) IN
        IF k <= Len(t) /\ t[k] = RBRC THEN [ok |-> TRUE, kv |-> <<>>, j |-> k + 1] ELSE JMembers(t, k, <<>>)
DFail(why) == [ok |-> FALSE, objs |-> <<>>, why |-> why]
RECURSIVE JElems(_, _, _)
JElems(t, i, acc) ==
   Pick({ IF ~o.ok THEN DFail(IF JSkip(t, i) = 0 THEN "not JSON" ELSE "element is not an object")
          ELSE LET k == SkipWs(t, o.j)
                   acc2 == Append(acc, o.kv) IN
               IF k > Len(t) THEN DFail("not JSON")
               ELSE IF t[k] = RBRK THEN (IF SkipWs(t, k + 1) > Len(t) THEN [ok |-> TRUE, objs |-> acc2, why |-> ""] ELSE DFail("not JSON"))
               ELSE IF t[k] = COMMA THEN JElems(t, SkipWs(t, k + 1), acc2)
               ELSE DFail("not JSON")
          : o \in { JObject(t, i) } })
\* [ok, objs = sequence of objects, each a sequence of [k |-> key text, v |-> JV]]
JDoc(t) ==
   LET i == SkipWs(t, 1) IN
   IF i > Len(t) THEN DFail("not JSON")
   ELSE IF t[i] # LBRK THEN DFail(IF JSkip(t, i) # 0 /\ SkipWs(t, JSkip(t, i)) > Len(t) THEN "not an array" ELSE "not JSON")
   ELSE LET k == SkipWs(t, i + 1) IN
        IF k <= Len(t) /\ t[k] = RBRK THEN (IF SkipWs(t, k + 1) > Len(t) THEN [ok |-> TRUE, objs |-> <<>>, why |-> ""] ELSE DFail("not JSON"))
        ELSE JElems(t, k, <<>>)

\* ------------------------------------------------------------------ JSON writer
JEsc(c) == IF c = DQ THEN <<BSL, DQ>> ELSE IF c = BSL THEN <<BSL, BSL>> ELSE IF c = LF THEN <<BSL, 110>>
           ELSE IF c = CR THEN <<BSL, 114>> ELSE IF c = HT THEN <<BSL, 116>> ELSE <<c>>
JWriteStr(x) == <<DQ>> \o Flat([i \in 1..Len(x) |-> JEsc(x[i])]) \o <<DQ>>
JWriteVal(v) == CASE v.jt = "s" -> JWriteStr(v.x)
                  [] v.jt \in {"i", "f", "x"} -> v.x
                  [] v.jt = "n" -> NullW
                  [] v.jt = "b" -> IF v.n = 1 THEN TrueW ELSE FalseW
\* pretty = TRUE: one member per line, two-space indentation (as serde_json::to_string_pretty does)
JWriteObj(o, pretty) ==
   IF o = <<>> THEN <<LBRC, RBRC>>
   ELSE LET nl == IF pretty THEN <<LF, SP, SP, SP, SP>> ELSE <<>>
            sep == IF pretty THEN <<COLON, SP>> ELSE <<COLON>> IN
        <<LBRC>> \o Join([i \in 1..Len(o) |-> nl \o JWriteStr(o[i].k) \o sep \o JWriteVal(o[i].v)], <<COMMA>>)
                 \o (IF pretty THEN <<LF, SP, SP>> ELSE <<>>) \o <<RBRC>>
JWriteDoc(objs, pretty) ==
   IF objs = <<>> THEN <<LBRK, RBRK>>
   ELSE <<LBRK>> \o Join([i \in 1..Len(objs) |-> (IF pretty THEN <<LF, SP, SP>> ELSE <<>>) \o JWriteObj(objs[i], pretty)], <<COMMA>>)
                 \o (IF pretty THEN <<LF>> ELSE <<>>) \o <<RBRK>>

\* ================================================================== the meaning of a file for a table
\* a cell: what a record says about one column.  src: csv (x, q) | json (jt, x, n) | absent (the record does not mention the column)
Cell(src, x, q, jt, n) == [src |-> src, x |-> x, q |-> q, jt |-> jt, n |-> n]
CsvCell(f)  == Cell("csv", f.x, f.q, "", 0)
JsonCell(v) == Cell("json", v.x, FALSE, v.jt, v.n)
Absent      == Cell("absent", <<>>, FALSE, "", 0)
Worst(a, b) == IF "no" \in {a, b} THEN "no" ELSE IF "may" \in {a, b} THEN "may" ELSE "must"
RECURSIVE WorstOf(_)
WorstOf(s) == IF s = <<>> THEN "must" ELSE Worst(Head(s), WorstOf(Tail(s)))

LooseInt(x) == Unplus(Trim(x))
LooseDec(x) == Unplus(Trim(x))
BoolTexts(n) == IF n = 1 THEN { <<116, 114, 117, 101>>, <<84, 82, 85, 69>>, <<49>> } ELSE { <<102, 97, 108, 115, 101>>, <<70, 65, 76, 83, 69>>, <<48>> }
SameNumber(v, x) == v.t = "f" /\ IsDecText(v.s) /\ NormDec(v.s) = NormDec(x)

\* status of a cell for a column of type ty
CellStat(ty, c) ==
   IF c.src = "absent" THEN "may"
   ELSE IF c.src = "csv" THEN
      (IF ty = "s" THEN "must"
       ELSE IF c.x = <<>> THEN (IF c.q THEN "may" ELSE "must")
       ELSE IF ty = "i" THEN (IF IsIntText(c.x) THEN "must" ELSE IF IsIntText(LooseInt(c.x)) \/ IsDecText(LooseDec(c.x)) THEN "may" ELSE "no")
       ELSE IF ty = "f" THEN (IF IsDecText(c.x) THEN "must" ELSE IF IsDecText(LooseDec(c.x)) \/ IsJsonNumber(LooseDec(c.x)) THEN "may" ELSE "no")
       ELSE "may")
   ELSE \* json
      IF c.jt = "n" THEN "must"
      ELSE IF ty = "s" THEN (IF c.jt = "s" THEN "must" ELSE "may")
      ELSE IF ty = "i" THEN (IF c.jt = "i" THEN "must"
                             ELSE IF c.jt = "s" THEN (IF IsIntText(LooseInt(c.x)) THEN "may" ELSE "no")
                             ELSE IF c.jt \in {"f", "b"} THEN "may" ELSE "no")
      ELSE IF ty = "f" THEN (IF c.jt \in {"i", "f"} THEN (IF IsDecText(c.x) THEN "must" ELSE "may")
                             ELSE IF c.jt = "s" THEN (IF IsDecText(LooseDec(c.x)) THEN "may" ELSE "no")
                             ELSE IF c.jt = "b" THEN "may" ELSE "no")
      ELSE "may"
\* v is an acceptable stored value for the cell (only asked for cells whose status is not "no")
CellDen(ty, c, v) ==
   IF c.src = "absent" THEN v = Null
   ELSE IF c.src = "csv" THEN
      (IF c.x = <<>> /\ ~c.q THEN (v = Null \/ (ty = "s" /\ v = Str(<<>>)))
       ELSE IF ty = "s" THEN v = Str(c.x)
       ELSE IF c.x = <<>> THEN v = Null
       ELSE IF ty = "i" THEN (IF IsIntText(LooseInt(c.x)) THEN v = IntV(IntVal(LooseInt(c.x))) ELSE v.t = "i")
       ELSE IF ty = "f" THEN (IF IsDecText(LooseDec(c.x)) THEN SameNumber(v, LooseDec(c.x)) ELSE v.t = "f")
       ELSE TRUE)
   ELSE
      IF c.jt = "n" THEN v = Null
      ELSE IF ty = "s" THEN (IF c.jt \in {"s", "i", "f", "x"} THEN v = Str(c.x) ELSE v.t = "s" /\ v.s \in BoolTexts(c.n))
      ELSE IF ty = "i" THEN (IF c.jt = "i" THEN v = IntV(c.n)
                             ELSE IF c.jt = "s" THEN v = IntV(IntVal(LooseInt(c.x)))
                             ELSE IF c.jt = "b" THEN v = IntV(c.n) ELSE v.t = "i")
      ELSE IF ty = "f" THEN (IF c.jt \in {"i", "f"} /\ IsDecText(c.x) THEN SameNumber(v, c.x)
                             ELSE IF c.jt = "s" THEN SameNumber(v, LooseDec(c.x)) ELSE v.t = "f")
      ELSE TRUE
\* the reference reading (one member of every acceptance set): used for the round-trip theorem
RefVal(ty, c) ==
   IF c.src = "absent" THEN Null
   ELSE IF c.src = "csv" THEN
      (IF c.x = <<>> /\ ~c.q THEN Null
       ELSE IF ty = "s" THEN Str(c.x)
       ELSE IF c.x = <<>> THEN Null
       ELSE IF ty = "i" THEN IntV(IntVal(LooseInt(c.x)))
       ELSE Flt(LooseDec(c.x)))
   ELSE IF c.jt = "n" THEN Null
   ELSE IF ty = "s" THEN (IF c.jt = "b" THEN Str(IF c.n = 1 THEN TrueW ELSE FalseW) ELSE Str(c.x))
   ELSE IF ty = "i" THEN (IF c.jt = "s" THEN IntV(IntVal(LooseInt(c.x))) ELSE IntV(c.n))
   ELSE Flt(c.x)

Upper(c) == IF c >= 97 /\ c <= 122 THEN c - 32 ELSE c
UpperT(x) == [i \in 1..Len(x) |-> Upper(x[i])]
\* index of the column called x: exact name, else a unique match that ignores letter case and blanks around the name
\* (negative index), else 0
ColIndex(cols, x) ==
   LET E == { i \in 1..Len(cols) : cols[i].n = x }
       C == { i \in 1..Len(cols) : UpperT(cols[i].n) = UpperT(Trim(x)) } IN
   IF E # {} THEN First(E) ELSE IF Cardinality(C) = 1 THEN -First(C) ELSE 0
Abs(n) == IF n < 0 THEN -n ELSE n

Record(st, cells) == [st |-> st, cells |-> cells]
Meaning(fs, recs, why) == [fs |-> fs, recs |-> recs, why |-> why]
\* a record from named cells: names = sequence of column indices (signed, see ColIndex), vals = the cells in the same order
NamedRec(cols, idx, vals) ==
   LET known == \A k \in 1..Len(idx) : idx[k] # 0
       distinct == \A k, m \in 1..Len(idx) : Abs(idx[k]) = Abs(idx[m]) => k = m
       cellOf(c) == LET K == { k \in 1..Len(idx) : Abs(idx[k]) = c } IN IF K = {} THEN Absent ELSE vals[First(K)] IN
   IF ~known \/ ~distinct \/ Len(idx) # Len(vals) THEN Record("no", [c \in 1..Len(cols) |-> Absent])
   ELSE Pick({ Record(Worst(IF \E k \in 1..Len(idx) : idx[k] < 0 THEN "may" ELSE "must",
                         WorstOf([c \in 1..Len(cols) |-> CellStat(cols[c].ty, cells[c])])), cells)
               : cells \in { [c \in 1..Len(cols) |-> cellOf(c)] } })

CsvMeaningP(cols, p) ==
   IF ~p.ok THEN Meaning("malformed", <<>>, p.why)
   ELSE IF p.recs = <<>> THEN Meaning("no", <<>>, "no header")
   ELSE Pick({ LET known == \A k \in 1..Len(idx) : idx[k] # 0
                   distinct == \A k, m \in 1..Len(idx) : Abs(idx[k]) = Abs(idx[m]) => k = m
                   exact == Len(idx) = Len(cols) /\ \A k \in 1..Len(idx) : idx[k] = k IN
               IF ~known THEN Meaning("no", <<>>, "header does not name columns of the table")
               ELSE IF ~distinct THEN Meaning("malformed", <<>>, "repeated column name")
               ELSE Meaning(IF exact THEN "must" ELSE "may",
                            [r \in 1..(Len(p.recs) - 1) |-> NamedRec(cols, idx, [k \in 1..Len(p.recs[r + 1]) |-> CsvCell(p.recs[r + 1][k])])], "")
               : idx \in { [k \in 1..Len(p.recs[1]) |-> ColIndex(cols, p.recs[1][k].x)] } })
CsvMeaning(cols, text) == Pick({ CsvMeaningP(cols, p) : p \in { ParseCsv(text) } })

HasDupKeys(o) == \E k, m \in 1..Len(o) : k # m /\ UpperT(o[k].k) = UpperT(o[m].k)
JsonMeaningD(cols, d) ==
   IF ~d.ok THEN Meaning("malformed", <<>>, d.why)
   ELSE IF \E r \in 1..Len(d.objs) : HasDupKeys(d.objs[r]) THEN Meaning("malformed", <<>>, "repeated key")
   ELSE Meaning("must", [r \in 1..Len(d.objs) |->
                           LET o == d.objs[r] IN
                           NamedRec(cols, [k \in 1..Len(o) |-> ColIndex(cols, o[k].k)], [k \in 1..Len(o) |-> JsonCell(o[k].v)])], "")
JsonMeaning(cols, text) == Pick({ JsonMeaningD(cols, d) : d \in { JDoc(text) } })
FileMeaning(fmt, cols, text) == IF fmt = "json" THEN JsonMeaning(cols, text) ELSE CsvMeaning(cols, text)

RowDen(cols, r, row) == Len(row) = Len(cols) /\ \A c \in 1..Len(cols) : CellDen(cols[c].ty, r.cells[c], row[c])
RefRow(cols, r) == [c \in 1..Len(cols) |-> RefVal(cols[c].ty, r.cells[c])]
RefRows(cols, m) == [r \in 1..Len(m.recs) |-> RefRow(cols, m.recs[r])]
\* rows (a multiset) are exactly the records: every "must" record, no "no" record
RECURSIVE MatchBag(_, _, _)
MatchBag(cols, recs, rows) ==
   IF recs = <<>> THEN rows = <<>>
   ELSE LET r == Head(recs) IN
        \/ (r.st # "must" /\ MatchBag(cols, Tail(recs), rows))
        \/ (r.st # "no" /\ \E j \in 1..Len(rows) : RowDen(cols, r, rows[j]) /\ MatchBag(cols, Tail(recs), RemoveAt(rows, j)))
\* multiset difference b - a; ok = every element of a was found in b
RECURSIVE BagMinus(_, _)
BagMinus(b, a) ==
   IF a = <<>> THEN [ok |-> TRUE, rest |-> b]
   ELSE LET J == { j \in 1..Len(b) : b[j] = Head(a) } IN
        IF J = {} THEN [ok |-> FALSE, rest |-> b] ELSE BagMinus(RemoveAt(b, First(J)), Tail(a))
SameBag(a, b) == Len(a) = Len(b) /\ BagMinus(b, a).ok

\* ------------------------------------------------------------------ databases and the verdict on one import
\* db: sequence of tables [name, cols, rows]
TableOf(db, name) == LET S == { i \in 1..Len(db) : db[i].name = name } IN IF S = {} THEN 0 ELSE First(S)
Others(db, name) == { db[i] : i \in { k \in 1..Len(db) : db[k].name # name } }
\* "" = accepted, otherwise the kind of deviation
JudgeRows(cols, m, rest, out) ==
   IF m.fs = "malformed" THEN ""
   ELSE IF m.fs = "no" THEN (IF rest = <<>> THEN "" ELSE "rows")
   ELSE IF rest = <<>> /\ (m.fs = "may" \/ out = "err") THEN
          (IF m.fs = "may" \/ m.recs = <<>> \/ \E r \in 1..Len(m.recs) : m.recs[r].st # "must" THEN "" ELSE "rejected")
   ELSE IF MatchBag(cols, m.recs, rest) THEN "" ELSE "rows"
\* m = FileMeaning(fmt, columns of the table, text)
JudgeImportM(m, name, before, after, out) ==
   LET b == TableOf(before, name)
       a == TableOf(after, name) IN
   IF out \notin {"ok", "err"} THEN out
   ELSE IF Others(before, name) # Others(after, name) \/ Len(before) # Len(after) THEN "unsafe"
   ELSE IF b = 0 THEN (IF out = "err" THEN "" ELSE "notable")
   ELSE IF a = 0 \/ after[a].cols # before[b].cols THEN "unsafe"
   ELSE Pick({ IF ~d.ok THEN "lost"
               ELSE IF out = "err" /\ d.rest # <<>> THEN "partial"
               ELSE JudgeRows(before[b].cols, m, d.rest, out)
               : d \in { BagMinus(after[a].rows, before[b].rows) } })
ColsOf(db, name) == IF TableOf(db, name) = 0 THEN <<>> ELSE db[TableOf(db, name)].cols
JudgeImport(fmt, name, text, before, after, out) ==
   Pick({ JudgeImportM(m, name, before, after, out) : m \in { FileMeaning(fmt, ColsOf(before, name), text) } })

\* ------------------------------------------------------------------ reference exporters
CsvFieldOf(v) == IF v.t = "n" THEN F(<<>>, FALSE) ELSE IF v.t = "i" THEN F(IntText(v.n), FALSE) ELSE F(v.s, v.t = "s" /\ v.s = <<>>)
ExportCsv(cols, rows) ==
   WriteCsv(<< [c \in 1..Len(cols) |-> F(cols[c].n, FALSE)] >> \o [r \in 1..Len(rows) |-> [c \in 1..Len(cols) |-> CsvFieldOf(rows[r][c])]], <<LF>>, TRUE)
JsonValOf(v) == IF v.t = "n" THEN JNull ELSE IF v.t = "i" THEN JV("i", IntText(v.n), v.n) ELSE IF v.t = "f" THEN JV("f", v.s, 0) ELSE JV("s", v.s, 0)
ExportJson(cols, rows) ==
   JWriteDoc([r \in 1..Len(rows) |-> [c \in 1..Len(cols) |-> [k |-> cols[c].n, v |-> JsonValOf(rows[r][c])]]], TRUE)
Export(fmt, cols, rows) == IF fmt = "json" THEN ExportJson(cols, rows) ELSE ExportCsv(cols, rows)
=============================================================================
