------------------------------ MODULE ConfigEq ------------------------------
(***************************************************************************)
(* Cross-configuration trace equality (DESIGN.md 2.4) for workloads whose   *)
(* data is too large for TLC to evaluate the reference semantics on: the    *)
(* same scenarios are executed under several configurations (parallelism    *)
(* thresholds, worker counts, index back-ends ...) that are invisible in     *)
(* the specification, so their observations must be equal event by event:   *)
(*   - same outcome class and affected-row count;                           *)
(*   - a query whose ORDER BY ends in a unique key (a.ord = TRUE) must give   *)
(*     the same row SEQUENCE; any other query the same row MULTISET;         *)
(*   - a repeated execution (dg2) under one configuration must agree with    *)
(*     the first one by the same rule.                                       *)
(* The harness only canonicalises results into digests (n, seq, bag); the    *)
(* comparison is made here.  Deterministic fold, one TLC state per event.    *)
(***************************************************************************)
EXTENDS Integers, Sequences, FiniteSets, TLC, Json, IOUtils

Rec == ndJsonDeserialize(IOEnv.TRACE)
MaxBad == 200
VARIABLES l, seen, bad
vars == <<l, seen, bad>>

OutClass(o) == IF o = "ok" THEN "ok" ELSE IF o \in {"err", "parse", "denied"} THEN "err" ELSE o
Key(e) == <<e.sc, e.i>>
IsQ(e) == e.a.a = "q"
Ord(e) == IsQ(e) /\ "ord" \in DOMAIN e.a /\ e.a.ord
HasDg(e) == "dg" \in DOMAIN e
DgEq(e, d1, d2) == d1.n = d2.n /\ d1.bag = d2.bag /\ (Ord(e) => d1.seq = d2.seq)
Obs(e) == [out |-> OutClass(e.out), cnt |-> e.cnt, dg |-> IF HasDg(e) THEN e.dg ELSE [n |-> 0, seq |-> "", bag |-> ""], cfg |-> e.cfg]
BadRec(e, what, other) == [sc |-> e.sc, i |-> e.i, a |-> e.a.a, what |-> what, cfg |-> e.cfg, other |-> other, exp |-> "", obs |-> e.out, dev |-> "", want |-> <<>>]

Init == l = 1 /\ seen = <<>> /\ bad = <<>>
Step(e) ==
   LET k == Key(e)
       o == Obs(e)
       rptBad == IsQ(e) /\ "dg2" \in DOMAIN e /\ (e.out2 # e.out \/ (HasDg(e) /\ ~DgEq(e, e.dg, e.dg2)))
       first == k \notin DOMAIN seen
       cfgBad == ~first /\ (seen[k].out # o.out \/ (o.out = "ok" /\ ~IsQ(e) /\ seen[k].cnt # o.cnt) \/ (IsQ(e) /\ o.out = "ok" /\ ~DgEq(e, seen[k].dg, o.dg)))
       panicBad == e.out = "panic"
       b1 == IF panicBad /\ Len(bad) < MaxBad THEN Append(bad, BadRec(e, "panic", "")) ELSE bad
       b2 == IF rptBad /\ Len(b1) < MaxBad THEN Append(b1, BadRec(e, "repeat", e.cfg)) ELSE b1
       b3 == IF cfgBad /\ Len(b2) < MaxBad THEN Append(b2, BadRec(e, "cfgdiff", seen[k].cfg)) ELSE b2
   IN /\ bad' = b3
      /\ seen' = IF first THEN [x \in (DOMAIN seen) \cup {k} |-> IF x = k THEN o ELSE seen[x]] ELSE seen
Next == l <= Len(Rec) /\ Step(Rec[l]) /\ l' = l + 1
Verdict == [n |-> Len(Rec), nbad |-> Len(bad), cnt |-> [ok |-> Len(Rec) - Len(bad), queries |-> Cardinality({ i \in 1..Len(Rec) : Rec[i].a.a = "q" })], bad |-> bad]
Done == l > Len(Rec) => PrintT(<<"VERDICT", ToJson(Verdict)>>)
Post == TLCGet("stats").diameter = Len(Rec) + 1
=============================================================================
