----------------------------- MODULE MC_Temporal -----------------------------
(***************************************************************************)
(* GEN for C22 and the spec-level theorems about Temporal.                  *)
(*                                                                         *)
(* Mode = "enum": pure input enumeration (printed from ASSUMEs)             *)
(*   rt  every valid DATE / TIME / TIMESTAMP over the boundary components:   *)
(*       build the value, format it, read the text back;                     *)
(*   pf  every other text form of those values (fraction written with more   *)
(*       digits, 'T' separator, date-only timestamp) must read as the value; *)
(*   iv  every text form (single unit and compound) of the boundary          *)
(*       INTERVAL values must denote the value.                              *)
(* Mode = "mut": totality.  A state machine mutates the character sequence   *)
(*   of valid texts (replace / insert / delete / duplicate / swap /          *)
(*   truncate, alphabet with signs, separators, over-long digit runs and     *)
(*   multi-byte characters the harness concretises); every transition emits   *)
(*   the mutant.  Mode "mut" = all mutants up to MaxMut edits; Mode "deep"   *)
(*   = Fan pseudo-random edits of every reached text, MaxMut levels deep.    *)
(* Theorems (ASSUME, checked by TLC before anything is emitted): the         *)
(* Gregorian 400-year cycle has 146097 valid dates; month lengths add up;    *)
(* the canonical text is injective; no text is a form of two values; the     *)
(* reference reader inverts the canonical writer.                           *)
(***************************************************************************)
EXTENDS Temporal, Json, SequencesExt

CONSTANTS Mode,        \* "enum" | "mut" (all edits) | "deep" (Fan pseudo-random edits of every reached text)
          Tier,        \* "quick" | "thorough"
          MaxMut,      \* edits per mutant
          Fan,         \* Mode "deep": pseudo-random edits explored per reached text
          Seed         \* Mode "deep": start of the pseudo-random draw

Thorough == Tier = "thorough"
Comps(y, m, d, h, mi, s, ns) == [y |-> y, m |-> m, d |-> d, h |-> h, mi |-> mi, s |-> s, ns |-> ns]

\* ---------------------------------------------------------------- boundary components
Years   == {1, 999, 1900, 1999, 2000, 2023, 2024, 9999} \cup (IF Thorough THEN {4, 100, 400, 1000, 1600, 2100, 2400, 9996} ELSE {})
Months  == 1..12
Days    == IF Thorough THEN 1..31 ELSE {1, 2, 9, 10, 28, 29, 30, 31}
Hours   == {0, 1, 12, 23} \cup (IF Thorough THEN {9, 10, 11, 13, 22} ELSE {})
Minutes == {0, 30, 59} \cup (IF Thorough THEN {1, 9, 10} ELSE {})
Seconds == {0, 45, 59} \cup (IF Thorough THEN {1, 9, 10} ELSE {})
\* fractional part: 0 .. 9 significant digits, inner zeros, all nines
Nanos   == {0, 1, 10, 100, 1000, 10000, 100000, 1000000, 10000000, 100000000, 999999999, 123456789, 500000000, 120000000, 999999000, 1001}
           \cup (IF Thorough THEN {2, 90, 123, 123456, 100000001, 999999990, 900000000, 12345678, 1234567} ELSE {})

DateVals == { Comps(y, m, d, 0, 0, 0, 0) : y \in Years, m \in Months, d \in Days }
TimeVals == { Comps(0, 0, 0, h, mi, s, ns) : h \in Hours, mi \in Minutes, s \in Seconds, ns \in Nanos }
TsDates  == {<<1, 1, 1>>, <<1999, 12, 31>>, <<2000, 2, 29>>, <<2024, 2, 29>>, <<9999, 12, 31>>} \cup (IF Thorough THEN {<<2000, 1, 1>>, <<1900, 2, 28>>, <<2023, 10, 9>>} ELSE {})
TsNanos  == {0, 1, 500000000, 999999999, 123456000} \cup (IF Thorough THEN {100000000, 1000, 999000000} ELSE {})
TsVals   == { Comps(dt[1], dt[2], dt[3], h, mi, s, ns) : dt \in TsDates, h \in {0, 23}, mi \in {0, 59}, s \in {0, 59}, ns \in TsNanos }
Vals(kind) == { c \in (CASE kind = "date" -> DateVals [] kind = "time" -> TimeVals [] kind = "ts" -> TsVals) : ValidValue(kind, c) }
Kinds == {"date", "time", "ts"}

Iv(mo, d, s, us) == [mo |-> mo, d |-> d, s |-> s, us |-> us]
IvMonths  == {0, 1, 11, 12, 13, 18, 24, 1200, 0 - 1, 0 - 12, 0 - 18} \cup (IF Thorough THEN {6, 120, 11988, 0 - 24} ELSE {})
IvDays    == {0, 1, 5, 30} \cup (IF Thorough THEN {31, 360, 365, 99999} ELSE {})
IvSecs    == {0, 1, 59, 60, 3599, 3600, 45045, 86399, 86400, 90000} \cup (IF Thorough THEN {61, 3601, 5400, 360000} ELSE {})
IvMicros  == {0, 1, 500000, 999999, 100000} \cup (IF Thorough THEN {10, 123456, 999000} ELSE {})
IvCand == { Iv(mo, 0, 0, 0) : mo \in IvMonths }
          \cup { Iv(0, d, s, us) : d \in IvDays, s \in IvSecs, us \in IvMicros }
          \cup { Iv(0, 0 - 1, 0, 0), Iv(0, 0 - 30, 0, 0), Iv(0, 0, 0 - 1, 0), Iv(0, 0, 0 - 3600, 0), Iv(0, 0, 0 - 1, 0 - 500000), Iv(0, 0, 0, 0 - 500000) }
IvVals == { v \in IvCand : IvForms(v) # {} }         \* days together with 24 hours or more have no literal form

\* ---------------------------------------------------------------- enumeration scenarios
Rt(kind, c)      == [a |-> "rt", k |-> kind, c |-> c]
Pf(kind, c, txt) == [a |-> "pf", k |-> kind, c |-> c, txt |-> txt]
IvA(v, fm)       == [a |-> "iv", v |-> v, f |-> fm.f, txt |-> fm.txt, ref |-> IvRef(v)]
\* one scenario per value: the round trip, then every other form
ValueScenario(kind, c) == <<Rt(kind, c)>> \o SetToSeq({ Pf(kind, c, t) : t \in Forms(kind, c) })
IvScenario(v)          == SetToSeq({ IvA(v, fm) : fm \in IvForms(v) })
EnumScenarios == UNION { { ValueScenario(kind, c) : c \in Vals(kind) } : kind \in Kinds } \cup { IvScenario(v) : v \in IvVals }

ASSUME Mode = "enum" => \A v \in IvVals : IvValid(v)
ASSUME Mode = "enum" => \A sc \in EnumScenarios : PrintT(<<"REPLAY", ToJson(sc)>>)
ASSUME Mode = "enum" => PrintT(<<"GENSTATS", ToJson([dates |-> Cardinality(Vals("date")), times |-> Cardinality(Vals("time")), tss |-> Cardinality(Vals("ts")),
                                                    intervals |-> Cardinality(IvVals),
                                                    ivforms |-> Cardinality(UNION { { <<v, fm>> : fm \in IvForms(v) } : v \in IvVals })])>>)

\* ---------------------------------------------------------------- theorems about the calendar and the text forms
\* characters of the canonical text (the mutation model and the reference reader work on character sequences)
DigitsOf(n, w) == [i \in 1..w |-> ToString((n \div Pow10(w - i)) % 10)]
DateChars(c)   == DigitsOf(c.y, 4) \o <<"-">> \o DigitsOf(c.m, 2) \o <<"-">> \o DigitsOf(c.d, 2)
TimeCharsK(c, k) == DigitsOf(c.h, 2) \o <<":">> \o DigitsOf(c.mi, 2) \o <<":">> \o DigitsOf(c.s, 2)
                    \o (IF k = 0 THEN <<>> ELSE <<".">> \o DigitsOf(c.ns \div Pow10(9 - k), k))
TimeChars(c)   == TimeCharsK(c, MinFrac(c.ns, 9))
CanonChars(kind, c) == CASE kind = "date" -> DateChars(c) [] kind = "time" -> TimeChars(c) [] kind = "ts" -> DateChars(c) \o <<" ">> \o TimeChars(c)
RECURSIVE Join(_)
Join(t) == IF t = <<>> THEN "" ELSE t[1] \o Join(Tail(t))

ASSUME Mode = "enum" => Cardinality({ ymd \in (1..400) \X (1..12) \X (1..31) : ValidDate(ymd[1], ymd[2], ymd[3]) }) = 146097
ASSUME Mode = "enum" => \A y \in Years : Cardinality({ md \in (1..12) \X (1..31) : ValidDate(y, md[1], md[2]) }) = DaysInYear(y)
ASSUME Mode = "enum" => ~ValidDate(1900, 2, 29) /\ ValidDate(2000, 2, 29) /\ ~ValidDate(2023, 2, 29) /\ ValidDate(2024, 2, 29) /\ ~ValidDate(2024, 4, 31)
\* canonical text: injective, equal to the joined character form, inverted by the reference reader, and a member of Display and Forms
ASSUME Mode = "enum" => \A kind \in Kinds : Cardinality({ Canon(kind, c) : c \in Vals(kind) }) = Cardinality(Vals(kind))
ASSUME Mode = "enum" => \A kind \in Kinds : \A c \in Vals(kind) :
          /\ Join(CanonChars(kind, c)) = Canon(kind, c)
          /\ Canon(kind, c) \in Display(kind, c) /\ Display(kind, c) \subseteq Forms(kind, c)
          /\ LET r == ReadCanon(kind, CanonChars(kind, c)) IN r.ok /\ SameValue(kind, c, r)
\* the reader also inverts every fraction precision, and rejects what is not canonical or not a valid value
ASSUME Mode = "enum" => \A c \in Vals("time") : \A k \in MinFrac(c.ns, 9)..9 : LET r == ReadCanon("time", TimeCharsK(c, k)) IN r.ok /\ SameValue("time", c, r)
ASSUME Mode = "enum" => /\ ~ReadCanon("date", <<"2", "0", "2", "3", "-", "0", "2", "-", "2", "9">>).ok
                        /\ ~ReadCanon("date", <<"2", "0", "2", "4", "-", "0", "2", "-", "2">>).ok
                        /\ ~ReadCanon("time", <<"2", "4", ":", "0", "0", ":", "0", "0">>).ok
                        /\ ~ReadCanon("time", <<"1", "2", ":", "0", "0", ":", "0", "0", ".">>).ok
\* no text is a form of two different values (otherwise "reads back as the value" would be unsatisfiable)
ASSUME Mode = "enum" => \A kind \in Kinds : Cardinality(UNION { Forms(kind, c) : c \in Vals(kind) }) = Cardinality(UNION { { <<t, c>> : t \in Forms(kind, c) } : c \in Vals(kind) })
ASSUME Mode = "enum" => Cardinality(UNION { { fm.txt : fm \in IvForms(v) } : v \in IvVals }) = Cardinality(UNION { { <<fm.txt, v>> : fm \in IvForms(v) } : v \in IvVals })
ASSUME Mode = "enum" => \A v \in IvVals : IvForms(v) # {} /\ (IvRef(v) # "" => IvRef(v) \in { fm.txt : fm \in IvForms(v) })

\* ---------------------------------------------------------------- totality: mutation state machine over character sequences
Word(w) == <<w>>
SeedDate == Comps(2024, 2, 29, 12, 30, 45, 123456000)
Seeds ==
   { [k |-> "date", toks |-> DateChars(SeedDate)],
     [k |-> "time", toks |-> TimeCharsK(SeedDate, 0)],
     [k |-> "time", toks |-> TimeCharsK(SeedDate, 1)],
     [k |-> "time", toks |-> TimeCharsK(SeedDate, 8)],
     [k |-> "time", toks |-> TimeCharsK(SeedDate, 9)],
     [k |-> "ts", toks |-> DateChars(SeedDate) \o <<" ">> \o TimeCharsK(SeedDate, 6)],
     [k |-> "ts", toks |-> DateChars(SeedDate) \o <<"T">> \o TimeCharsK(SeedDate, 0) \o <<"Z">>],
     [k |-> "ts", toks |-> DateChars(SeedDate) \o <<" ">> \o TimeCharsK(SeedDate, 0) \o <<"+", "0", "5", ":", "3", "0">>],
     [k |-> "ts", toks |-> DateChars(SeedDate)],
     [k |-> "interval", toks |-> <<"5", " ", "YEAR">>],
     [k |-> "interval", toks |-> <<"-", "3", " ", "DAY">>],
     [k |-> "interval", toks |-> <<"1", "-", "6", " ", "YEAR", " ", "TO", " ", "MONTH">>],
     [k |-> "interval", toks |-> <<"5", " ", "1", "2", ":", "3", "0", ":", "4", "5", " ", "DAY", " ", "TO", " ", "SECOND">>],
     [k |-> "interval", toks |-> <<"1", ".", "5", " ", "SECOND">>],
     [k |-> "interval", toks |-> <<"1", ".", "1", "2", "3", "4", "5", " ", "SECOND">>],
     [k |-> "interval", toks |-> <<"1", "2", ":", "3", "0", ":", "4", "5", ".", "5", " ", "HOUR", " ", "TO", " ", "SECOND">>],
     [k |-> "interval", toks |-> <<"9", "0", " ", "MINUTE">>],
     [k |-> "interval", toks |-> <<"2", "4", " ", "HOUR">>] }
\* "@..." names are classes the harness concretises: 2-, 3-, 4-byte characters (a digit of another script among them),
\* digit runs that overflow i32 after scaling / i32 / i64 / any integer type
CommonAlphabet == {"", "0", "1", "5", "9", "-", "+", ":", ".", " ", "T", "Z", "a", "@u2digit", "@u3digit", "@u2", "@u4", "@i32x12", "@i32max", "@i64max", "@long", "@nl"}
Alphabet(kind) == CommonAlphabet \cup (IF kind = "interval" THEN {"YEAR", "MONTH", "DAY", "HOUR", "MINUTE", "SECOND", "TO", "year"} ELSE {})

VARIABLES kind, toks, depth, rng
vars == <<kind, toks, depth, rng>>
SeedSeq == SetToSeq(Seeds)
Init == \E n \in 1..Len(SeedSeq) : kind = SeedSeq[n].k /\ toks = SeedSeq[n].toks /\ depth = 0
                                   /\ rng = IF Mode = "deep" THEN (Seed * 101 + n * 977) % 65537 ELSE 0
N == Len(toks)
\* an edit is data, so that the deep mode can draw a random subset of the edits of a state
Edit(op, i, t) == [op |-> op, i |-> i, t |-> t]
Edits == { Edit("replace", i, t) : i \in 1..N, t \in Alphabet(kind) }
         \cup { Edit("insert", i, t) : i \in 0..N, t \in Alphabet(kind) \ {""} }
         \cup { Edit(op, i, "") : op \in {"delete", "dup"}, i \in 1..N }
         \cup { Edit("swap", i, "") : i \in 1..(N - 1) }
         \cup { Edit("trunc", i, "") : i \in 0..(N - 1) }
ApplyEdit(m) == CASE m.op = "replace" -> [toks EXCEPT ![m.i] = m.t]
                  [] m.op = "insert"  -> SubSeq(toks, 1, m.i) \o <<m.t>> \o SubSeq(toks, m.i + 1, N)
                  [] m.op = "delete"  -> SubSeq(toks, 1, m.i - 1) \o SubSeq(toks, m.i + 1, N)
                  [] m.op = "dup"     -> SubSeq(toks, 1, m.i) \o SubSeq(toks, m.i, N)
                  [] m.op = "swap"    -> [toks EXCEPT ![m.i] = toks[m.i + 1], ![m.i + 1] = toks[m.i]]
                  [] m.op = "trunc"   -> SubSeq(toks, 1, m.i)
\* Mode "mut": every edit (exhaustive up to MaxMut edits).
\* Mode "deep": Fan pseudo-random edits per reached text, MaxMut levels; the draw is a small linear congruential generator
\* carried in the state and started from the constant Seed, so the emitted set is a function of (Seed, Fan, MaxMut).
LcgM == 65537
Lcg(r, j) == (r * 75 + 74 + j * 7919) % LcgM
EditSeq == SetToSeq(Edits)
Next == /\ depth < MaxMut
        /\ depth' = depth + 1 /\ kind' = kind
        /\ IF Mode = "deep"
           THEN \E j \in 1..Fan : LET r == Lcg(rng, j) IN rng' = r /\ toks' = ApplyEdit(EditSeq[(r % Len(EditSeq)) + 1])
           ELSE rng' = rng /\ \E m \in Edits : toks' = ApplyEdit(m) /\ toks' # toks
Mut(k, t) == [a |-> "mut", k |-> k, toks |-> t]
Emit == Mode \in {"mut", "deep"} => PrintT(<<"REPLAY", ToJson(<<Mut(kind', toks')>>)>>)
ASSUME Mode \in {"mut", "deep"} => \A sd \in Seeds : PrintT(<<"REPLAY", ToJson(<<Mut(sd.k, sd.toks)>>)>>)
\* every date / time / timestamp seed is a canonical text of a valid value for the reference reader
ASSUME \A sd \in Seeds : sd.k \in {"date", "time"} => ReadCanon(sd.k, sd.toks).ok
TypeOK == /\ kind \in Kinds \cup {"interval"} /\ depth \in 0..MaxMut
          /\ Len(toks) <= 26 + MaxMut
=============================================================================
