----------------------------- MODULE ValueLaws -----------------------------
(***************************************************************************)
(* C21: equality, total order and hashing of SQL values are mutually       *)
(* consistent.  The property demands LAWS, not a particular relation, so    *)
(* this module never predicts what `a == b`, `a.cmp(b)` or `hash(a)` should  *)
(* be: it takes a RECORDED relation table R over a finite universe           *)
(*    R.n            number of values (indices 1..n)                         *)
(*    R.eq[i][j]     1 iff  v_i == v_j            (PartialEq / Eq)            *)
(*    R.cmp[i][j]    -1 | 0 | 1                   (Ord::cmp)                  *)
(*    R.pc[i][j]     -1 | 0 | 1 | 2 (= None)      (PartialOrd::partial_cmp)   *)
(*    R.h[i]         the hash of v_i as a string  (Hash, fixed hasher)        *)
(* and returns, per law, the SET OF WITNESSES that violate it (empty set =   *)
(* law holds).  Consequences for containers and SQL operators are stated     *)
(* over the same recorded equality: an operator that removes duplicates must  *)
(* produce exactly the equivalence classes of R.eq.                          *)
(***************************************************************************)
EXTENDS Integers, Sequences, FiniteSets

Idx(R) == 1..R.n
Eq(R, i, j) == R.eq[i][j] = 1
Le(R, i, j) == R.cmp[i][j] <= 0

\* ---------------------------------------------------------------- equality used for grouping is an equivalence
EqReflW(R)  == { <<i>> : i \in { i \in Idx(R) : ~Eq(R, i, i) } }
EqPairs(R)  == { p \in Idx(R) \X Idx(R) : Eq(R, p[1], p[2]) }
EqSymW(R)   == { p \in EqPairs(R) : ~Eq(R, p[2], p[1]) }
\* a == b /\ b == c => a == c   (enumerated from the recorded equal pairs: exact, not an approximation)
EqTransW(R) == UNION { { <<p[1], p[2], k>> : k \in { k \in Idx(R) : Eq(R, p[2], k) /\ ~Eq(R, p[1], k) } } : p \in EqPairs(R) }

\* ---------------------------------------------------------------- the sort order is a total preorder ...
\* cmp(a,b) is the converse of cmp(b,a)  (totality + antisymmetry of the strict part; includes cmp(a,a) = Equal)
OrdConvW(R)  == { p \in Idx(R) \X Idx(R) : R.cmp[p[1]][p[2]] # 0 - R.cmp[p[2]][p[1]] }
\* a <= b /\ b <= c => a <= c
OrdTransW(R) == { t \in Idx(R) \X Idx(R) \X Idx(R) : Le(R, t[1], t[2]) /\ Le(R, t[2], t[3]) /\ ~Le(R, t[1], t[3]) }
\* ... whose symmetric part IS the grouping equality: cmp(a,b) = Equal <=> a == b  (antisymmetry up to ==)
OrdEqW(R)    == { p \in Idx(R) \X Idx(R) : (R.cmp[p[1]][p[2]] = 0) # Eq(R, p[1], p[2]) }
\* where the SQL comparison (partial_cmp) is defined at all it agrees with the total order
PcW(R)       == { p \in Idx(R) \X Idx(R) : R.pc[p[1]][p[2]] # 2 /\ R.pc[p[1]][p[2]] # R.cmp[p[1]][p[2]] }

\* ---------------------------------------------------------------- equal values hash equally
HashW(R)     == { p \in EqPairs(R) : R.h[p[1]] # R.h[p[2]] }

EqIsEquivalence(R) == EqReflW(R) = {} /\ EqSymW(R) = {} /\ EqTransW(R) = {}
OrdIsTotalPreorder(R) == OrdConvW(R) = {} /\ OrdTransW(R) = {}
CoreLawsHold(R) == EqIsEquivalence(R) /\ OrdIsTotalPreorder(R) /\ OrdEqW(R) = {} /\ PcW(R) = {} /\ HashW(R) = {}

\* ---------------------------------------------------------------- consequences
Class(R, i)  == { j \in Idx(R) : Eq(R, i, j) }
Classes(R)   == { Class(R, i) : i \in Idx(R) }
RangeOf(s)     == { s[k] : k \in 1..Len(s) }

\* A keyed container (hash map / ordered map) filled with v_1 .. v_n in order, first insertion wins;
\* m[i] = the index stored under the key found by looking v_i up (0 = not found).
\* It must behave as a map keyed by the equivalence classes: same entry <=> equal, and the entry is a member of the class.
MapW(R, m)   == { p \in Idx(R) \X Idx(R) : (m[p[1]] = m[p[2]]) # Eq(R, p[1], p[2]) }
               \cup { <<i, i>> : i \in { i \in Idx(R) : m[i] \notin Class(R, i) } }
\* a sorted sequence: a permutation of the universe that is non-decreasing under the recorded order
SortedOk(R, s) == /\ Len(s) = R.n /\ RangeOf(s) = Idx(R)
                  /\ \A k \in 1..(Len(s) - 1) : Le(R, s[k], s[k + 1])

\* duplicate elimination (DISTINCT, UNION, GROUP BY keys): each result row is reported as the set of universe members it
\* is == to; the rows must be exactly the classes of `among`, one row per class
ClassesOf(R, among) == { Class(R, i) \cap among : i \in among }
DedupOk(R, among, rows) == /\ Len(rows) = Cardinality(ClassesOf(R, among))
                           /\ { RangeOf(rows[k]) \cap among : k \in 1..Len(rows) } = ClassesOf(R, among)
\* INTERSECT / EXCEPT of the sides A and B (sets of indices): the classes of A that do / do not meet B
TouchB(R, A, B)   == { i \in A : \E j \in B : Eq(R, i, j) }
IntersectOk(R, A, B, rows) == /\ Len(rows) = Cardinality(ClassesOf(R, TouchB(R, A, B)))
                              /\ { RangeOf(rows[k]) \cap A : k \in 1..Len(rows) } = { Class(R, i) \cap A : i \in TouchB(R, A, B) }
ExceptOk(R, A, B, rows)    == /\ Len(rows) = Cardinality(ClassesOf(R, A \ TouchB(R, A, B)))
                              /\ { RangeOf(rows[k]) \cap A : k \in 1..Len(rows) } = { Class(R, i) \cap A : i \in A \ TouchB(R, A, B) }
\* GROUP BY: every group is reported by the digest (count, min, max, sum of the member ids): the groups are the classes
SumOf(S) == LET RECURSIVE Sum(_)
                 Sum(T) == IF T = {} THEN 0 ELSE LET x == CHOOSE x \in T : TRUE IN x + Sum(T \ {x})
             IN Sum(S)
MinOf(S) == CHOOSE x \in S : \A y \in S : x <= y
MaxOf(S) == CHOOSE x \in S : \A y \in S : x >= y
Digest(C) == [cnt |-> Cardinality(C), mn |-> MinOf(C), mx |-> MaxOf(C), sm |-> SumOf(C)]
GroupOk(R, rows) == /\ Len(rows) = Cardinality(Classes(R))
                    /\ { [cnt |-> rows[k].cnt, mn |-> rows[k].mn, mx |-> rows[k].mx, sm |-> rows[k].sm] : k \in 1..Len(rows) }
                         = { Digest(C) : C \in Classes(R) }
\* equality join / IN: values that are equal AND comparable in the SQL sense (partial_cmp defined) must meet; the
\* SQL `=` may legitimately relate more values (padding, coercion) or treat NULL / NaN specially, so nothing else is required
MustJoin(R)  == { p \in EqPairs(R) : R.pc[p[1]][p[2]] # 2 }
JoinW(R, pairs) == MustJoin(R) \ pairs
InW(R, B, ids)  == { i \in Idx(R) : (\E j \in B : <<i, j>> \in MustJoin(R)) /\ i \notin ids }
=============================================================================
