CONSTANTS
  MaxDepth = 3
  MaxRows = 3
  MaxIdx = 2
INIT Init
NEXT Next
VIEW View
CONSTRAINT Bound
ACTION_CONSTRAINT Emit
INVARIANT Inv
CHECK_DEADLOCK FALSE
