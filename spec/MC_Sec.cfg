CONSTANTS
  MaxDepth = 2
INIT Init
NEXT Next
VIEW View
CONSTRAINT Bound
ACTION_CONSTRAINT Emit
PROPERTY SecLaw
CHECK_DEADLOCK FALSE
