CONSTANT
  Tier = "quick"
INIT Init
NEXT Next
INVARIANT Detects
CHECK_DEADLOCK FALSE
