------------------------------ MODULE MC_Values ------------------------------
(***************************************************************************)
(* GEN for C21 and the spec-level theorems about ValueLaws.                 *)
(*                                                                         *)
(* Abstract value domain = type tag x value class.  The classes are opaque  *)
(* names here (the harness owns the table class -> concrete SqlValue); the  *)
(* spec says nothing about which of them are equal, smaller or hash alike -  *)
(* it only demands the laws of ValueLaws on whatever the code answers.      *)
(*                                                                         *)
(* Emitted scenarios (one `laws` action each):                              *)
(*  - the whole universe at once (all pairs, all triples, every type mixed); *)
(*  - per column type, every way to put value classes on the two sides A, B  *)
(*    of a table (|A| = |B| = 1 always; 2 + 1 and 1 + 2 over the core        *)
(*    classes at Tier thorough;                                              *)
(*    plus the whole class set on both sides), routed through the SQL        *)
(*    operators DISTINCT, GROUP BY, UNION, INTERSECT, EXCEPT, JOIN, IN.      *)
(*                                                                         *)
(* Model-checked here (INVARIANT Detects over all initial states): the law   *)
(* set accepts a lawful reference relation and rejects EVERY single-cell     *)
(* corruption of it (eq, cmp, partial_cmp cell, hash of a value that has an  *)
(* equal partner) - i.e. the laws used by VAL have no blind cell.           *)
(***************************************************************************)
EXTENDS ValueLaws, TLC, Json, SequencesExt

CONSTANT Tier          \* "quick" | "thorough"

Thorough == Tier = "thorough"
V(t, c) == [t |-> t, c |-> c]

IntTypes   == {"int", "small", "big", "uns"}
FloatTypes == {"num", "float", "real", "double"}
StrTypes   == {"char", "varchar"}
ColTypes   == IntTypes \cup FloatTypes \cup StrTypes \cup {"bool", "date", "time", "ts", "interval"}

\* Core... = the quick classes; the thorough tier adds more classes per type
CoreIntCls(t) == IF t = "uns" THEN {"0", "1", "2", "max"} ELSE {"min", "m1", "0", "1", "2", "max"}
IntCls(t)  == CoreIntCls(t)
              \cup (IF Thorough THEN (IF t = "uns" THEN {"3", "i16max", "i32max", "i64max"} ELSE {"m2", "3", "i16max", "i16min", "i32max", "i32min"}) ELSE {})
CoreFloatCls == {"nan", "nnan", "ninf", "nmax", "m1_5", "nzero", "pzero", "tiny", "p1", "p1_5", "pmax", "pinf"}
FloatCls   == CoreFloatCls
              \cup (IF Thorough THEN {"nanp", "m1", "ntiny", "p2", "third", "eps1", "two53", "minpos"} ELSE {})
CoreStrCls == {"empty", "a", "A", "a_sp", "ab", "b", "e_nfc", "e_nfd"}
StrCls     == CoreStrCls
              \cup (IF Thorough THEN {"sp", "B", "aa", "a_tab", "z", "Z", "nul", "emoji"} ELSE {})
BoolCls    == {"f", "t"}
CoreDateCls == {"0001-01-01", "1999-12-31", "2000-01-01", "2024-02-29", "9999-12-31"}
DateCls    == CoreDateCls
              \cup (IF Thorough THEN {"2000-01-02", "2000-02-01", "2000-10-01", "1900-02-28", "0999-12-31"} ELSE {})
CoreTimeCls == {"00:00:00", "00:00:00.000000001", "12:30:45", "23:59:59", "23:59:59.999999999"}
TimeCls    == CoreTimeCls
              \cup (IF Thorough THEN {"00:00:01", "00:01:00", "01:00:00", "12:30:45.5", "12:30:45.500000001"} ELSE {})
CoreTsCls == {"0001-01-01 00:00:00", "2000-01-01 00:00:00", "2000-01-01 00:00:00.000000001", "1999-12-31 23:59:59.999999999", "9999-12-31 23:59:59.999999999"}
TsCls      == CoreTsCls
              \cup (IF Thorough THEN {"2000-01-01 00:00:01", "2000-01-02 00:00:00", "2024-02-29 12:30:45", "2024-02-29 12:30:45.5"} ELSE {})
\* the same durations written in different units, zero in three units, negative, fractional, compound forms
CoreIvCls == {"1 YEAR", "12 MONTH", "1-0 YEAR TO MONTH", "360 DAY", "1 MONTH", "30 DAY", "1 DAY", "24 HOUR", "1440 MINUTE",
               "86400 SECOND", "0 DAY", "0 MONTH", "0 SECOND", "-1 DAY", "1.5 SECOND", "1.500000 SECOND", "90 MINUTE",
               "1:30:00 HOUR TO SECOND"}
IvCls      == CoreIvCls
              \cup (IF Thorough THEN {"2 YEAR", "1-6 YEAR TO MONTH", "18 MONTH", "29 DAY", "31 DAY", "-30 DAY", "-1 MONTH", "1 HOUR",
                                      "3600 SECOND", "60 MINUTE", "0:00:01.5 HOUR TO SECOND", "1 0:00:00 DAY TO SECOND", "-24 HOUR",
                                      "1 year", "5 FORTNIGHT"} ELSE {})

CoreCls(t) == IF t \in IntTypes THEN CoreIntCls(t) ELSE IF t \in FloatTypes THEN CoreFloatCls ELSE IF t \in StrTypes THEN CoreStrCls
              ELSE IF t = "bool" THEN BoolCls ELSE IF t = "date" THEN CoreDateCls ELSE IF t = "time" THEN CoreTimeCls
              ELSE IF t = "ts" THEN CoreTsCls ELSE CoreIvCls
Cls(t) == IF t \in IntTypes THEN IntCls(t) ELSE IF t \in FloatTypes THEN FloatCls ELSE IF t \in StrTypes THEN StrCls
          ELSE IF t = "bool" THEN BoolCls ELSE IF t = "date" THEN DateCls ELSE IF t = "time" THEN TimeCls
          ELSE IF t = "ts" THEN TsCls ELSE IvCls

ValuesOf(t) == { V(t, c) : c \in Cls(t) }
Universe    == {V("null", "null")} \cup UNION { ValuesOf(t) : t \in ColTypes }
ColValues(t) == ValuesOf(t) \cup {V(t, "null")}          \* a typed column may also hold NULL
CoreColValues(t) == { V(t, c) : c \in CoreCls(t) } \cup {V(t, "null")}

Zeros(n) == [k \in 1..n |-> 0]
Laws(sql, vals, side) == [a |-> "laws", sql |-> sql, vals |-> vals, side |-> side]

UniverseScenario == Laws("", SetToSeq(Universe), Zeros(Cardinality(Universe)))
PairScenarios(t)   == { Laws(t, <<x, y>>, <<0, 1>>) : x \in ColValues(t), y \in ColValues(t) }
TwoSets(S)         == { {x, y} : x \in S, y \in S } \ { {x} : x \in S }
TripleScenarios(t) == IF Thorough
                      THEN { Laws(t, SetToSeq(P) \o <<y>>, <<0, 0, 1>>) : P \in TwoSets(CoreColValues(t)), y \in CoreColValues(t) }
                           \cup { Laws(t, <<y>> \o SetToSeq(P), <<0, 1, 1>>) : P \in TwoSets(CoreColValues(t)), y \in CoreColValues(t) }
                      ELSE {}
FullScenario(t)    == LET s == SetToSeq(ColValues(t)) n == Len(s)
                      IN Laws(t, s \o Reverse(s), [k \in 1..(2 * n) |-> IF k <= n THEN 0 ELSE 1])
SqlScenarios == UNION { PairScenarios(t) \cup TripleScenarios(t) \cup {FullScenario(t)} : t \in ColTypes }

ASSUME PrintT(<<"REPLAY", ToJson(<<UniverseScenario>>)>>)
ASSUME \A s \in SqlScenarios : PrintT(<<"REPLAY", ToJson(<<s>>)>>)
ASSUME PrintT(<<"GENSTATS", ToJson([universe |-> Cardinality(Universe), sql |-> Cardinality(SqlScenarios)])>>)

\* ============================================================================ theorems about the law set itself
RefN   == 6
RefCls == <<1, 1, 2, 3, 3, 4>>
RefSgn(a, b) == IF a < b THEN 0 - 1 ELSE IF a = b THEN 0 ELSE 1
RefR == [n   |-> RefN,
         eq  |-> [i \in 1..RefN |-> [j \in 1..RefN |-> IF RefCls[i] = RefCls[j] THEN 1 ELSE 0]],
         cmp |-> [i \in 1..RefN |-> [j \in 1..RefN |-> RefSgn(RefCls[i], RefCls[j])]],
         pc  |-> [i \in 1..RefN |-> [j \in 1..RefN |-> IF i = 6 \/ j = 6 THEN 2 ELSE RefSgn(RefCls[i], RefCls[j])]],
         h   |-> [i \in 1..RefN |-> ToString(RefCls[i])]]

Cells == (1..RefN) \X (1..RefN)
Mutations ==
   { [k |-> "eq",  i |-> p[1], j |-> p[2], v |-> v] : p \in Cells, v \in {0, 1} }
   \cup { [k |-> "cmp", i |-> p[1], j |-> p[2], v |-> v] : p \in Cells, v \in {0 - 1, 0, 1} }
   \cup { [k |-> "pc",  i |-> p[1], j |-> p[2], v |-> v] : p \in Cells, v \in {0 - 1, 0, 1} }
   \cup { [k |-> "h",   i |-> i, j |-> 0, v |-> 0] : i \in {1, 2, 4, 5} }
Effective(m) == IF m.k = "eq" THEN RefR.eq[m.i][m.j] # m.v ELSE IF m.k = "cmp" THEN RefR.cmp[m.i][m.j] # m.v
                ELSE IF m.k = "pc" THEN RefR.pc[m.i][m.j] # m.v /\ RefR.cmp[m.i][m.j] # m.v ELSE TRUE
ApplyMut(m) == IF m.k = "eq"  THEN [RefR EXCEPT !.eq[m.i][m.j] = m.v]
          ELSE IF m.k = "cmp" THEN [RefR EXCEPT !.cmp[m.i][m.j] = m.v]
          ELSE IF m.k = "pc"  THEN [RefR EXCEPT !.pc[m.i][m.j] = m.v]
          ELSE IF m.k = "h"   THEN [RefR EXCEPT !.h[m.i] = "other"]
          ELSE RefR

VARIABLE mut
None == [k |-> "none", i |-> 0, j |-> 0, v |-> 0]
Init == mut \in {None} \cup { m \in Mutations : Effective(m) }
Next == UNCHANGED mut
Detects == IF mut.k = "none" THEN CoreLawsHold(RefR) ELSE ~CoreLawsHold(ApplyMut(mut))

\* the consequence operators accept the right answers over RefR and reject near misses
RefMap == <<1, 1, 3, 4, 4, 6>>
ASSUME MapW(RefR, RefMap) = {}
ASSUME MapW(RefR, <<1, 2, 3, 4, 4, 6>>) # {}              \* equal keys in two entries (what unequal hashes do to a hash map)
ASSUME MapW(RefR, <<1, 1, 3, 3, 3, 6>>) # {}              \* unequal keys merged (what a coarser order does to a tree map)
ASSUME MapW(RefR, <<1, 1, 3, 4, 4, 0>>) # {}              \* key not found
ASSUME SortedOk(RefR, <<2, 1, 3, 5, 4, 6>>) /\ ~SortedOk(RefR, <<1, 3, 2, 4, 5, 6>>) /\ ~SortedOk(RefR, <<1, 2, 3, 4, 5>>)
ASSUME DedupOk(RefR, 1..6, << <<1, 2>>, <<3>>, <<4, 5>>, <<6>> >>)
ASSUME ~DedupOk(RefR, 1..6, << <<1, 2>>, <<1, 2>>, <<3>>, <<4, 5>>, <<6>> >>)     \* a duplicate survived
ASSUME ~DedupOk(RefR, 1..6, << <<1, 2>>, <<3>>, <<4, 5>> >>)                        \* a class lost
ASSUME IntersectOk(RefR, {1, 3, 4}, {2, 5, 6}, << <<1, 2>>, <<4, 5>> >>) /\ ~IntersectOk(RefR, {1, 3, 4}, {2, 5, 6}, << <<1, 2>> >>)
ASSUME ExceptOk(RefR, {1, 3, 4}, {2, 5, 6}, << <<3>> >>) /\ ~ExceptOk(RefR, {1, 3, 4}, {2, 5, 6}, << <<3>>, <<4, 5>> >>)
ASSUME GroupOk(RefR, << [cnt |-> 2, mn |-> 1, mx |-> 2, sm |-> 3], [cnt |-> 1, mn |-> 3, mx |-> 3, sm |-> 3],
                        [cnt |-> 2, mn |-> 4, mx |-> 5, sm |-> 9], [cnt |-> 1, mn |-> 6, mx |-> 6, sm |-> 6] >>)
ASSUME ~GroupOk(RefR, << [cnt |-> 1, mn |-> 1, mx |-> 1, sm |-> 1], [cnt |-> 1, mn |-> 2, mx |-> 2, sm |-> 2], [cnt |-> 1, mn |-> 3, mx |-> 3, sm |-> 3],
                         [cnt |-> 2, mn |-> 4, mx |-> 5, sm |-> 9], [cnt |-> 1, mn |-> 6, mx |-> 6, sm |-> 6] >>)
ASSUME JoinW(RefR, {<<1, 1>>, <<1, 2>>, <<2, 1>>, <<2, 2>>, <<3, 3>>, <<4, 4>>, <<4, 5>>, <<5, 4>>, <<5, 5>>}) = {}   \* 6 is incomparable: free
ASSUME JoinW(RefR, {<<1, 1>>, <<2, 2>>, <<3, 3>>, <<4, 4>>, <<4, 5>>, <<5, 4>>, <<5, 5>>}) = {<<1, 2>>, <<2, 1>>}
=============================================================================
