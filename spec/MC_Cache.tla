------------------------------ MODULE MC_Cache -------------------------------
(***************************************************************************)
(* GEN for C25: interleavings of cached queries (action cq) and writes.     *)
(* In the specification the cache does not exist: a cached query has exactly *)
(* the meaning of the query on the current state (Engine!Apply, "cq").  The  *)
(* harness drives QuerySignature::from_sql / QueryResultCache::get / insert / *)
(* invalidate_table and extract_tables_from_select the way the sqllogictest   *)
(* adapter does.  The query set holds pairs of texts that differ only in the  *)
(* case of a string literal (and may therefore not share an entry), and        *)
(* queries that reach a table through a subquery, a join, a derived table, a   *)
(* CTE, a set operation and a view (a write to the base table must invalidate  *)
(* them); the writes include DROP + CREATE of a table.                         *)
(***************************************************************************)
EXTENDS Engine, Json
CONSTANTS MaxDepth, Fill
VARIABLES st, hist, base
vars == <<st, hist, base>>
RECURSIVE Run(_,_)
Run(s, as) == IF as = <<>> THEN s ELSE Run(Apply(s, Head(as)).st, Tail(as))
L(k) == Lit(I(k))   LS(x) == Lit(S(x))
T1 == TableRef("T1")   T2 == TableRef("T2")
CT2 == CreateTable("T2", << ColDef("A", "INTEGER"), ColDef("C", "VARCHAR(10)") >>)
SA2 == [BaseSel(T2) EXCEPT !.star = FALSE, !.sel = <<SelItem(Col("A"), "A")>>]
Setup == << CreateTable("T1", << ColDef("A", "INTEGER"), ColDef("B", "INTEGER") >>), CT2,
            [a |-> "cv", n |-> "V1", q |-> [BaseSel(T1) EXCEPT !.where = CmpE(">=", Col("A"), L(1))], cols |-> <<>>],
            InsertV("T1", << <<I(1), I(0)>> >>), InsertV("T2", << <<I(1), S("a")>> >>) >>
Queries ==
   { BaseSel(T1),
     [BaseSel(T2) EXCEPT !.where = CmpE("=", Col("C"), LS("a"))], [BaseSel(T2) EXCEPT !.where = CmpE("=", Col("C"), LS("A"))],
     [BaseSel(T1) EXCEPT !.where = InSubE(Col("A"), SA2, FALSE)],
     [BaseSel(JoinF("inner", T1, T2, CmpE("=", QCol("T1", "A"), QCol("T2", "A")))) EXCEPT !.star = FALSE, !.sel = <<SelItem(QCol("T1", "B"), "B"), SelItem(QCol("T2", "C"), "C")>>],
     [BaseSel(Derived(SA2, "D")) EXCEPT !.star = FALSE, !.sel = <<SelItem(QCol("D", "A"), "A")>>],
     [BaseSel(TableRef("W")) EXCEPT !.with = << [n |-> "W", q |-> SA2, cols |-> <<>>] >>],
     SetOp("union", TRUE, [BaseSel(T1) EXCEPT !.star = FALSE, !.sel = <<SelItem(Col("A"), "A")>>], SA2),
     BaseSel(TableRef("V1")),
     [BaseSel(T1) EXCEPT !.star = FALSE, !.sel = <<SelItem(Col("A"), "A"), SelItem(ScalarE([BaseSel(T2) EXCEPT !.star = FALSE, !.sel = <<SelItem(CountStar, "N")>>]), "N")>>] }
\* Fill = 2: two readers that share the cache both missed on the query before either stored its result; both execute and
\* both store (the second store replaces an entry with the same signature) before anything else happens
CQ(q) == [a |-> "cq", q |-> q, fill |-> Fill]
Writes == { InsertV("T1", << <<I(2), I(1)>> >>), InsertV("T2", << <<I(2), S("A")>> >>), InsertV("T2", << <<I(3), S("a")>> >>),
            UpdateA("T1", << [c |-> "B", e |-> L(5)] >>, NoExpr), UpdateA("T2", << [c |-> "C", e |-> LS("A")] >>, CmpE("=", Col("A"), L(1))),
            DeleteA("T2", NoExpr), DeleteA("T1", CmpE("=", Col("A"), L(1))), [a |-> "trunc", t |-> "T1"],
            [a |-> "dt", t |-> "T2"], CT2 }
\* the cache content is part of the state that matters: two histories with equal tables but different cached entries differ.
\* It is abstracted by the set of queries asked since the last write to any table (an over-approximation of "is cached").
VARIABLE asked
Init == st = Run(InitSt, Setup) /\ hist = Setup /\ base = Len(Setup) /\ asked = {}
Next == \/ \E q \in Queries : st' = st /\ hist' = Append(hist, CQ(q)) /\ asked' = asked \cup {q} /\ base' = base
        \/ \E w \in Writes : st' = Apply(st, w).st /\ hist' = Append(hist, w) /\ asked' = asked /\ base' = base
View == <<st.tabs, asked>>
Bound == Len(hist) < MaxDepth + base
Emit == PrintT(<<"REPLAY", ToJson(hist')>>)
=============================================================================
