---------------------------- MODULE TraceEngine ----------------------------
(***************************************************************************)
(* VAL: validates an ndjson trace recorded from the real engine (vq-run)   *)
(* against Engine!Apply / SqlSem!AcceptRes.  Deterministic fold: one TLC   *)
(* state per event.  On a mismatch the event is recorded in `bad`, the     *)
(* observed table contents are adopted and validation continues            *)
(* (DESIGN.md 2.2).  Verdict printed as JSON when the last line is         *)
(* consumed; acceptance of the run itself by POSTCONDITION Post.           *)
(***************************************************************************)
EXTENDS Engine, KnownDeviations, Json, IOUtils

Rec == ndJsonDeserialize(IOEnv.TRACE)
MaxBad == 400

VARIABLES st, l, bad, cnt, synced
vars == <<st, l, bad, cnt, synced>>
\* cnt = [ok, known, unmodelled, skipped, queries]

OutClass(o) == IF o = "ok" THEN "ok" ELSE IF o \in {"err", "parse", "denied"} THEN "err" ELSE o

IxSet(o) == { [n |-> o.ix[i].n, t |-> o.ix[i].t, uq |-> o.ix[i].uq, cols |-> o.ix[i].cols] : i \in 1..Len(o.ix) }
IxSpec(s) == { [n |-> i, t |-> s.idx[i].t, uq |-> s.idx[i].uq, cols |-> s.idx[i].cols] : i \in DOMAIN s.idx }
SchemaEq(s, o) == /\ DOMAIN s.tabs = DOMAIN o.T
                  /\ DOMAIN s.tabs = Range(o.tn)
                  /\ \A t \in DOMAIN s.tabs : ColNames(s.tabs[t]) = o.C[t]
                  /\ IxSpec(s) = IxSet(o)
                  /\ DOMAIN s.views = Range(o.vw)
DataEq(s, o)   == \A t \in DOMAIN s.tabs : ObsBagEq(s.tabs[t].rows, o.T[t])
StateEq(s, o)  == SchemaEq(s, o) /\ DataEq(s, o) /\ s.txn.active = o.txn
Adopt(s, o)    == [s EXCEPT !.tabs = [t \in DOMAIN s.tabs |-> [s.tabs[t] EXCEPT !.rows = o.T[t]]]]

Init == st = InitSt /\ l = 1 /\ bad = <<>> /\ synced = TRUE
        /\ cnt = [ok |-> 0, known |-> 0, unmodelled |-> 0, skipped |-> 0, queries |-> 0]

BadRec(e, what, expOut, dev, want) == [sc |-> e.sc, i |-> e.i, a |-> e.a.a, what |-> what, exp |-> expOut, obs |-> e.out, dev |-> dev, cfg |-> e.cfg, want |-> want]

Step(e) ==
  IF e.a.a = "reset" THEN
     /\ st' = InitSt /\ synced' = TRUE /\ UNCHANGED <<bad, cnt>>
  ELSE IF ~synced THEN
     /\ UNCHANGED <<st, bad, synced>> /\ cnt' = [cnt EXCEPT !.skipped = @ + 1]
  ELSE
  LET exp == Apply(st, e.a)
      o   == e.st
  IN IF e.out = "panic" THEN
        /\ bad' = IF Len(bad) < MaxBad THEN Append(bad, BadRec(e, "panic", exp.out, "", <<>>)) ELSE bad
        /\ synced' = FALSE /\ UNCHANGED <<st, cnt>>
     ELSE IF exp.out = "unmodelled" THEN
        \* outside the model: follow the implementation if the schema is unchanged, else stop checking this scenario
        /\ IF SchemaEq(st, o) /\ st.txn.active = o.txn THEN st' = Adopt(st, o) /\ synced' = TRUE
                                                        ELSE st' = st /\ synced' = FALSE
        /\ cnt' = [cnt EXCEPT !.unmodelled = @ + 1] /\ UNCHANGED bad
     ELSE
     LET outOk   == OutClass(e.out) = exp.out
         stOk    == StateEq(exp.st, o)
         isQ     == e.a.a = "q" /\ exp.out = "ok" /\ outOk
         rowsOk  == ~isQ \/ AcceptRes(e.a.q, EvalQ(e.a.q, DbOf(st), <<>>), e.rows)
         cntOk   == ~(e.a.a \in {"del", "upd", "ins", "inssel"} /\ exp.out = "ok" /\ outOk) \/ e.cnt = exp.cnt
         what    == IF ~outOk THEN "out" ELSE IF ~stOk THEN "state" ELSE IF ~rowsOk THEN "rows" ELSE IF ~cntOk THEN "cnt" ELSE ""
         dev     == IF what = "" THEN "" ELSE Deviation(st, e, exp, what)
         base    == IF outOk THEN exp.st ELSE st
         want    == IF what = "rows" THEN EvalQ(e.a.q, DbOf(st), <<>>).rows
                    ELSE IF what = "state" THEN [t \in DOMAIN exp.st.tabs |-> exp.st.tabs[t].rows] ELSE <<>>
     IN /\ bad' = IF what = "" \/ Len(bad) >= MaxBad THEN bad ELSE Append(bad, BadRec(e, what, exp.out, dev, want))
        /\ cnt' = [cnt EXCEPT !.ok = IF what = "" THEN @ + 1 ELSE @,
                              !.known = IF what # "" /\ dev # "" THEN @ + 1 ELSE @,
                              !.queries = IF isQ THEN @ + 1 ELSE @]
        /\ IF what \in {"", "rows", "cnt"} THEN st' = exp.st /\ synced' = TRUE
           ELSE IF SchemaEq(base, o) /\ base.txn.active = o.txn THEN st' = Adopt(base, o) /\ synced' = TRUE
           ELSE st' = st /\ synced' = FALSE

Next == /\ l <= Len(Rec)
        /\ Step(Rec[l])
        /\ l' = l + 1

Verdict == [n |-> Len(Rec), nbad |-> Len(bad), cnt |-> cnt, bad |-> bad]
Done == l > Len(Rec) => PrintT(<<"VERDICT", ToJson(Verdict)>>)
Post == TLCGet("stats").diameter = Len(Rec) + 1
=============================================================================
