---------------------------- MODULE TraceEngine ----------------------------
(***************************************************************************)
(* VAL: validates an ndjson trace recorded from the real engine (vq-run)   *)
(* against Engine!Apply / SqlSem!AcceptRes.  Deterministic fold: one TLC   *)
(* state per event.  On a mismatch the event is recorded in `bad`, the     *)
(* observed table contents are adopted and validation continues            *)
(* (DESIGN.md 2.2).  Verdict printed as JSON when the last line is         *)
(* consumed; acceptance of the run itself by POSTCONDITION Post.           *)
(***************************************************************************)
EXTENDS Engine, KnownDeviations, Json, IOUtils

Rec == ndJsonDeserialize(IOEnv.TRACE)
MaxBad == 400      \* per mismatch kind (what), so that many mismatches of one kind cannot crowd out another kind

VARIABLES st, l, bad, cnt, synced, po
vars == <<st, l, bad, cnt, synced, po>>
\* po = the projection observed after the previous event (what a reload must reproduce beyond the modelled state:
\* column types and nullability)
\* cnt = [ok, known, unmodelled, skipped, queries]

OutClass(o) == IF o = "ok" THEN "ok" ELSE IF o \in {"err", "parse", "denied"} THEN "err" ELSE o

IxSet(o) == { [n |-> o.ix[i].n, t |-> o.ix[i].t, uq |-> o.ix[i].uq, cols |-> o.ix[i].cols] : i \in 1..Len(o.ix) }
IxSpec(s) == { [n |-> i, t |-> s.idx[i].t, uq |-> s.idx[i].uq, cols |-> s.idx[i].cols] : i \in DOMAIN s.idx }
SchemaEq(s, o) == /\ DOMAIN s.tabs = DOMAIN o.T
                  /\ DOMAIN s.tabs = Range(o.tn)
                  /\ \A t \in DOMAIN s.tabs : ColNames(s.tabs[t]) = o.C[t]
                  \* the catalog's own copy of the column list and the width of every stored row agree with the declared columns
                  /\ (("CC" \in DOMAIN o) => \A t \in DOMAIN s.tabs : t \in DOMAIN o.CC /\ o.CC[t] = o.C[t])
                  /\ \A t \in DOMAIN s.tabs : \A i \in 1..Len(o.T[t]) : Len(o.T[t][i]) = Len(o.C[t])
                  /\ IxSpec(s) = IxSet(o)
                  /\ DOMAIN s.views = Range(o.vw)
                  /\ (("tg" \in DOMAIN o) => { s.trg[i].n : i \in 1..Len(s.trg) } = Range(o.tg))
DataEq(s, o)   == \A t \in DOMAIN s.tabs : ObsBagEq(s.tabs[t].rows, o.T[t])
StateEq(s, o)  == SchemaEq(s, o) /\ DataEq(s, o) /\ s.txn.active = o.txn
Adopt(s, o)    == [s EXCEPT !.tabs = [t \in DOMAIN s.tabs |-> [s.tabs[t] EXCEPT !.rows = o.T[t]]]]

\* ---------- C15: index structures are a function of the table contents ----------
\* Checked on the observed state alone (when the harness logged index contents): every user index
\* holds exactly the keys of the table's current rows mapped to their current positions, and the
\* constraint hash indexes hold exactly the non-NULL keys.
ColPos(o, t, c) == CHOOSE i \in 1..Len(o.C[t]) : o.C[t][i] = c
IdxKeyVal(v, plen) == IF v.t = "s" /\ plen > 0 THEN [v EXCEPT !.s = PrefixStr(v.s, plen)] ELSE v
ExpUserIndex(o, ix) ==
   LET rows == o.T[ix.t]
       key(i) == [j \in 1..Len(ix.cols) |-> IdxKeyVal(rows[i][ColPos(o, ix.t, ix.cols[j].c)], ix.cols[j].plen)]
   IN { [k |-> key(i), p |-> { j - 1 : j \in { j \in 1..Len(rows) : key(j) = key(i) } }] : i \in 1..Len(rows) }
ObsIndex(ents) == { [k |-> ents[i][1], p |-> Range(ents[i][2])] : i \in 1..Len(ents) }
\* a disk-backed index is read back by key lookups (ic) plus the list of all stored row ids (ia): no stale entries
\* means that list is exactly the positions 0 .. n-1, once each
AllIdsOk(o, ix) == (("ia" \in DOMAIN o) /\ (ix.n \in DOMAIN o.ia)) => o.ia[ix.n] = [k \in 1..Len(o.T[ix.t]) |-> k - 1]
UserIndexOk(o) == \A i \in 1..Len(o.ix) : o.ix[i].t \in DOMAIN o.T =>
                    (o.ix[i].n \in DOMAIN o.ic /\ ObsIndex(o.ic[o.ix[i].n]) = ExpUserIndex(o, o.ix[i]) /\ AllIdsOk(o, o.ix[i]))
ExpHash(o, t, cols) ==
   LET rows == o.T[t] key(i) == [j \in 1..Len(cols) |-> rows[i][ColPos(o, t, cols[j])]] IN
   { [k |-> key(i), p |-> i - 1] : i \in { i \in 1..Len(rows) : ~HasNullKey(key(i)) } }
ObsHash(ents) == { [k |-> ents[i][1], p |-> ents[i][2]] : i \in 1..Len(ents) }
HashIndexOk(s, o) == \A t \in DOMAIN s.tabs : (t \in DOMAIN o.hx /\ t \in DOMAIN o.T) =>
     /\ (s.tabs[t].pk # <<>> => ObsHash(o.hx[t].pk) = ExpHash(o, t, s.tabs[t].pk))
     /\ Len(o.hx[t].uq) = Len(s.tabs[t].uqs)
     /\ \A u \in 1..Len(s.tabs[t].uqs) : ObsHash(o.hx[t].uq[u]) = ExpHash(o, t, s.tabs[t].uqs[u])
IndexInv(s, o) == ("ic" \in DOMAIN o) => (UserIndexOk(o) /\ HashIndexOk(s, o))

Init == st = InitSt /\ l = 1 /\ bad = <<>> /\ synced = TRUE /\ po = [x \in {} |-> 0]
        /\ cnt = [ok |-> 0, known |-> 0, unmodelled |-> 0, skipped |-> 0, queries |-> 0]

NBad(what) == Cardinality({ i \in 1..Len(bad) : bad[i].what = what })
BadRec(e, what, expOut, dev, want) == [sc |-> e.sc, i |-> e.i, a |-> e.a.a, what |-> what, exp |-> expOut, obs |-> e.out, dev |-> dev, cfg |-> e.cfg, want |-> want]

Step(e) ==
  IF e.a.a = "reset" THEN
     /\ st' = InitSt /\ synced' = TRUE /\ UNCHANGED <<bad, cnt>>
  ELSE IF ~synced THEN
     /\ UNCHANGED <<st, bad, synced>> /\ cnt' = [cnt EXCEPT !.skipped = @ + 1]
  ELSE
  LET exp0 == Apply(st, e.a)
      \* where the specification also allows the statement to be rejected, follow the implementation's choice
      exp1 == IF exp0.alt = "err" /\ OutClass(e.out) = "err" THEN Fail(st)
              ELSE IF exp0.alt = "ok" /\ e.out = "ok" THEN Ok(st, 0) ELSE exp0
      \* a SQL dump promises tables, columns and rows (C19); which index definitions it carries is left open, so the
      \* index registry observed after reloading a dump is taken over
      ObsIdx(ob) == [n \in { ob.ix[k].n : k \in 1..Len(ob.ix) } |->
                       LET k == CHOOSE k \in 1..Len(ob.ix) : ob.ix[k].n = n IN [t |-> ob.ix[k].t, cols |-> ob.ix[k].cols, uq |-> ob.ix[k].uq]]
      exp2 == IF e.a.a = "saveload" /\ e.a.fmt = "sql" /\ exp1.out = "ok" /\ e.out = "ok"
              THEN [exp1 EXCEPT !.st.idx = ObsIdx(e.st)] ELSE exp1
      \* two conforming post-states: follow the one the implementation shows
      exp == IF exp2.altst # NoAlt /\ ~StateEq(exp2.st, e.st) /\ StateEq(exp2.altst, e.st) THEN [exp2 EXCEPT !.st = exp2.altst] ELSE exp2
      o   == e.st
  IN IF e.out = "panic" THEN
        /\ bad' = IF NBad("panic") < MaxBad THEN Append(bad, BadRec(e, "panic", exp.out, "", <<>>)) ELSE bad
        /\ synced' = FALSE /\ UNCHANGED <<st, cnt>>
     ELSE IF exp.out = "unmodelled" THEN
        \* outside the model: follow the implementation if the schema is unchanged, else stop checking this scenario
        /\ IF SchemaEq(st, o) /\ st.txn.active = o.txn THEN st' = Adopt(st, o) /\ synced' = TRUE
                                                        ELSE st' = st /\ synced' = FALSE
        /\ cnt' = [cnt EXCEPT !.unmodelled = @ + 1] /\ UNCHANGED bad
     ELSE
     LET outOk   == OutClass(e.out) = exp.out
         stOk    == StateEq(exp.st, o)
         isQ     == e.a.a \in {"q", "cq"} /\ exp.out = "ok" /\ outOk
         rowsOk  == ~isQ \/ AcceptRes(e.a.q, EvalQ(e.a.q, DbOf(st), <<>>), e.rows)
         \* repeated execution (harness option --twice): the second answer must be acceptable too (C04)
         rptOk   == ~isQ \/ ("rows2" \notin DOMAIN e) \/ (e.out2 = e.out /\ AcceptRes(e.a.q, EvalQ(e.a.q, DbOf(st), <<>>), e.rows2))
         cntOk   == ~(e.a.a \in {"del", "upd", "ins", "inssel"} /\ exp.out = "ok" /\ outOk) \/ e.cnt = exp.cnt \/ exp.cnt < 0
         idxOk   == ~(outOk /\ stOk) \/ IndexInv(exp.st, o)
         \* a reload reproduces column types and nullability exactly as they were observed before it
         typOk   == ~(e.a.a = "saveload" /\ outOk /\ exp.out = "ok") \/ ("CT" \notin DOMAIN o) \/ ("CT" \notin DOMAIN po) \/ o.CT = po.CT
         what    == IF ~outOk THEN "out" ELSE IF ~stOk THEN "state" ELSE IF ~rowsOk THEN "rows" ELSE IF ~rptOk THEN "repeat"
                    ELSE IF ~cntOk THEN "cnt" ELSE IF ~idxOk THEN "index" ELSE IF ~typOk THEN "types" ELSE ""
         dev     == IF what = "" THEN "" ELSE Deviation(st, e, exp, what)
         base    == IF outOk THEN exp.st ELSE st
         want    == IF what = "rows" THEN EvalQ(e.a.q, DbOf(st), <<>>).rows
                    ELSE IF what = "state" THEN [t \in DOMAIN exp.st.tabs |-> exp.st.tabs[t].rows] ELSE <<>>
     IN /\ bad' = IF what = "" \/ NBad(what) >= MaxBad THEN bad ELSE Append(bad, BadRec(e, what, exp.out, dev, want))
        /\ cnt' = [cnt EXCEPT !.ok = IF what = "" THEN @ + 1 ELSE @,
                              !.known = IF what # "" /\ dev # "" THEN @ + 1 ELSE @,
                              !.queries = IF isQ THEN @ + 1 ELSE @]
        /\ IF what \in {"", "rows", "repeat", "cnt", "index", "types"} THEN st' = exp.st /\ synced' = TRUE
           ELSE IF SchemaEq(base, o) /\ base.txn.active = o.txn THEN st' = Adopt(base, o) /\ synced' = TRUE
           ELSE st' = st /\ synced' = FALSE

Next == /\ l <= Len(Rec)
        /\ Step(Rec[l])
        /\ po' = Rec[l].st
        /\ l' = l + 1

Verdict == [n |-> Len(Rec), nbad |-> Len(bad), cnt |-> cnt, bad |-> bad]
Done == l > Len(Rec) => PrintT(<<"VERDICT", ToJson(Verdict)>>)
Post == TLCGet("stats").diameter = Len(Rec) + 1
=============================================================================
