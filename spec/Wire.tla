-------------------------------- MODULE Wire --------------------------------
(***************************************************************************)
(* PostgreSQL v3 wire framing as pure operators over byte strings          *)
(* (sequences of 0..255).  Reference model for C27 (frontend decoding) and *)
(* C28 (backend encoding).                                                 *)
(*                                                                         *)
(*  Frontend (client -> server)                                            *)
(*    regular frame : type byte, Int32 length (counts itself, not the type *)
(*                    byte), payload of length-4 bytes                     *)
(*    startup frame : Int32 length (counts itself), Int32 code, body       *)
(*  Decode / DecodeStartup do not return one answer but the SET of answers *)
(*  a correct decoder may give (Res.kinds) together with the frame end     *)
(*  (the largest number of bytes it may take out of the buffer):           *)
(*    need : nothing consumed, buffer unchanged                            *)
(*    err  : at most the frame (for a malformed header: the header)        *)
(*    msg  : exactly the frame, and - when Res.exact - exactly Res.m       *)
(*  Freedom that the property leaves (never flagged):                      *)
(*    - garbage between the string terminator and the declared end of the  *)
(*      frame may be ignored or rejected                  kinds {msg,err}  *)
(*    - a string that is not UTF-8 may be rejected or decoded lossily      *)
(*                                       kinds {msg,err}, contents free    *)
(*    - an unknown type byte or an absurd length may be rejected before    *)
(*      the frame is complete                             kinds {need,err} *)
(*  Backend (server -> client): Encode(m) is the reference encoder and     *)
(*  ParseBackend(bytes) an independent reference parser of ONE frame.      *)
(***************************************************************************)
EXTENDS Integers, Sequences, FiniteSets

P8  == 256
P16 == 65536
P24 == 16777216
MaxI32 == 2147483647
MinI32 == -2147483647 - 1

\* ------------------------------------------------------------------ integers on the wire (big endian, two's complement)
I32(b) == (IF b[1] >= 128 THEN b[1] - 256 ELSE b[1]) * P24 + b[2] * P16 + b[3] * P8 + b[4]
I16(b) == (IF b[1] >= 128 THEN b[1] - 256 ELSE b[1]) * P8 + b[2]
U16(b) == b[1] * P8 + b[2]
Compl(n) == IF n >= 0 THEN n ELSE -(n + 1)                \* n < 0: the bits of n are the complemented bits of -(n+1)
B4(n) == LET m == Compl(n)
             x == << m \div P24, (m \div P16) % P8, (m \div P8) % P8, m % P8 >>
         IN IF n >= 0 THEN x ELSE [i \in 1..4 |-> 255 - x[i]]
B2(n) == LET m == Compl(n)                                 \* n in -32768 .. 65535 (signed and unsigned readings share the bits)
             x == << (m \div P8) % P8, m % P8 >>
         IN IF n >= 0 THEN x ELSE [i \in 1..2 |-> 255 - x[i]]

\* ------------------------------------------------------------------ byte-string helpers
Sub(b, i, j) == IF j < i THEN <<>> ELSE SubSeq(b, i, j)
Drop(b, n) == Sub(b, n + 1, Len(b))
\* position of the first NUL in b at an index >= from; 0 if there is none
NulFrom(b, from) == LET S == { i \in from..Len(b) : b[i] = 0 } IN
                    IF S = {} THEN 0 ELSE CHOOSE i \in S : \A j \in S : i <= j
CStr(s) == s \o <<0>>
\* concatenation of a sequence of byte strings, divide and conquer (linear-logarithmic on long lists)
RECURSIVE FlatR(_, _, _)
FlatR(ss, lo, hi) == IF lo > hi THEN <<>> ELSE IF lo = hi THEN ss[lo]
                     ELSE LET mid == (lo + hi) \div 2 IN FlatR(ss, lo, mid) \o FlatR(ss, mid + 1, hi)
Flat(ss) == FlatR(ss, 1, Len(ss))

\* RFC 3629 well-formedness (no overlong forms, no surrogates, nothing above U+10FFFF)
Cont(x) == x >= 128 /\ x <= 191
RECURSIVE Utf8From(_, _)
Utf8From(b, i) ==
   IF i > Len(b) THEN TRUE
   ELSE LET c == b[i]
            n == Len(b) IN
     IF c <= 127 THEN Utf8From(b, i + 1)
     ELSE IF c >= 194 /\ c <= 223 THEN i + 1 <= n /\ Cont(b[i + 1]) /\ Utf8From(b, i + 2)
     ELSE IF c >= 224 /\ c <= 239 THEN
            /\ i + 2 <= n
            /\ IF c = 224 THEN b[i + 1] >= 160 /\ b[i + 1] <= 191
               ELSE IF c = 237 THEN b[i + 1] >= 128 /\ b[i + 1] <= 159
               ELSE Cont(b[i + 1])
            /\ Cont(b[i + 2])
            /\ Utf8From(b, i + 3)
     ELSE IF c >= 240 /\ c <= 244 THEN
            /\ i + 3 <= n
            /\ IF c = 240 THEN b[i + 1] >= 144 /\ b[i + 1] <= 191
               ELSE IF c = 244 THEN b[i + 1] >= 128 /\ b[i + 1] <= 143
               ELSE Cont(b[i + 1])
            /\ Cont(b[i + 2]) /\ Cont(b[i + 3])
            /\ Utf8From(b, i + 4)
     ELSE FALSE
Utf8(b) == Utf8From(b, 1)

\* ================================================================== frontend messages
\* uniformly typed: t in {"Q","p","X","SSL","S","none"}, s = query / password bytes, v = protocol version,
\* ps = startup parameters as a sequence of <<key bytes, value bytes>>
FM(t, s, v, ps) == [t |-> t, s |-> s, v |-> v, ps |-> ps]
NoMsg        == FM("none", <<>>, 0, <<>>)
Query(s)     == FM("Q", s, 0, <<>>)
Password(s)  == FM("p", s, 0, <<>>)
Terminate    == FM("X", <<>>, 0, <<>>)
SSLRequest   == FM("SSL", <<>>, 0, <<>>)
Startup(v, ps) == FM("S", <<>>, v, ps)

TyQ == 81   TyP == 112   TyX == 88
SSLCode == 80877103
\* lengths above these may be refused before the frame has arrived (PostgreSQL: 1 GB for regular messages,
\* 10000 for the startup packet); a decoder that simply waits is accepted too
MaxSaneLen    == 1073741823
MaxStartupLen == 10000

Frame(ty, body) == <<ty>> \o B4(4 + Len(body)) \o body
ParamBytes(ps) == Flat([i \in 1..Len(ps) |-> CStr(ps[i][1]) \o CStr(ps[i][2])]) \o <<0>>
EncodeF(m) == CASE m.t = "Q"   -> Frame(TyQ, CStr(m.s))
                [] m.t = "p"   -> Frame(TyP, CStr(m.s))
                [] m.t = "X"   -> Frame(TyX, <<>>)
                [] m.t = "SSL" -> B4(8) \o B4(SSLCode)
                [] m.t = "S"   -> LET body == B4(m.v) \o ParamBytes(m.ps) IN B4(4 + Len(body)) \o body

\* ------------------------------------------------------------------ reference decoder
Res(kinds, m, end, exact) == [kinds |-> kinds, m |-> m, end |-> end, exact |-> exact]
NeedR == Res({"need"}, NoMsg, 0, FALSE)
IsMsg(r)  == r.kinds = {"msg"}
IsNeed(r) == r.kinds = {"need"}
TyName(ty) == IF ty = TyQ THEN "Q" ELSE IF ty = TyP THEN "p" ELSE IF ty = TyX THEN "X" ELSE "none"

Decode(buf) ==
   IF Len(buf) < 5 THEN
      (IF Len(buf) >= 1 /\ TyName(buf[1]) = "none" THEN Res({"need", "err"}, NoMsg, 5, FALSE) ELSE NeedR)
   ELSE LET ty == buf[1]
            len == I32(Sub(buf, 2, 5))
            known == TyName(ty) # "none" IN
     IF len < 4 THEN Res({"err"}, NoMsg, 5, FALSE)                     \* the length counts itself: no such frame
     ELSE IF Len(buf) - 1 < len THEN                                    \* frame incomplete
            (IF ~known \/ len > MaxSaneLen THEN Res({"need", "err"}, NoMsg, 5, FALSE) ELSE NeedR)
     ELSE LET end == 1 + len
              pay == Sub(buf, 6, end) IN
       IF ~known THEN Res({"err"}, NoMsg, end, FALSE)
       ELSE IF ty = TyX THEN Res(IF len = 4 THEN {"msg"} ELSE {"msg", "err"}, Terminate, end, TRUE)
       ELSE LET z == NulFrom(pay, 1) IN
            IF z = 0 THEN Res({"err"}, NoMsg, end, FALSE)               \* no terminator inside the frame
            ELSE LET s == Sub(pay, 1, z - 1)
                     m == FM(TyName(ty), s, 0, <<>>) IN
                 IF ~Utf8(s) THEN Res({"msg", "err"}, m, end, FALSE)
                 ELSE IF z = Len(pay) THEN Res({"msg"}, m, end, TRUE)
                 ELSE Res({"msg", "err"}, m, end, TRUE)

\* key/value list of a startup body: [st, ps], st in ok | trail (bytes after the terminator) | err (terminator missing)
RECURSIVE ParamsR(_, _, _)
ParamsR(b, i, acc) ==
   LET z == NulFrom(b, i) IN
   IF z = 0 THEN [st |-> "err", ps |-> acc]
   ELSE IF z = i THEN [st |-> IF z = Len(b) THEN "ok" ELSE "trail", ps |-> acc]
   ELSE LET z2 == NulFrom(b, z + 1) IN
        IF z2 = 0 THEN [st |-> "err", ps |-> acc]
        ELSE ParamsR(b, z2 + 1, Append(acc, << Sub(b, i, z - 1), Sub(b, z + 1, z2 - 1) >>))

DecodeStartup(buf) ==
   IF Len(buf) < 4 THEN NeedR
   ELSE LET len == I32(Sub(buf, 1, 4)) IN
     IF len < 8 THEN Res({"err"}, NoMsg, 4, FALSE)                     \* length and code are 8 bytes: no such packet
     ELSE IF Len(buf) < len THEN
            (IF len > MaxStartupLen THEN Res({"need", "err"}, NoMsg, 4, FALSE) ELSE NeedR)
     ELSE LET v == I32(Sub(buf, 5, 8))
              body == Sub(buf, 9, len) IN
       IF v = SSLCode THEN Res(IF len = 8 THEN {"msg"} ELSE {"msg", "err"}, SSLRequest, len, TRUE)
       ELSE LET p == ParamsR(body, 1, <<>>)
                m == Startup(v, p.ps)
                u == \A i \in 1..Len(p.ps) : Utf8(p.ps[i][1]) /\ Utf8(p.ps[i][2]) IN
            IF p.st = "err" THEN Res({"err"}, NoMsg, len, FALSE)
            ELSE IF ~u THEN Res({"msg", "err"}, m, len, FALSE)
            ELSE IF p.st = "ok" THEN Res({"msg"}, m, len, TRUE)
            ELSE Res({"msg", "err"}, m, len, TRUE)

\* observed parameters: a sequence of <<key, value>> with distinct keys (a map); a repeated key may keep any of its values
ParamsEq(obs, ref) ==
   /\ \A i, j \in 1..Len(obs) : obs[i][1] = obs[j][1] => i = j
   /\ { obs[i][1] : i \in 1..Len(obs) } = { ref[i][1] : i \in 1..Len(ref) }
   /\ \A i \in 1..Len(obs) : \E j \in 1..Len(ref) : ref[j][1] = obs[i][1] /\ ref[j][2] = obs[i][2]
\* a map a decoder may report for a parameter list: the last value of every key
AsMap(ps) == SelectSeq([i \in 1..Len(ps) |-> IF \E j \in (i + 1)..Len(ps) : ps[j][1] = ps[i][1] THEN <<>> ELSE ps[i]], LAMBDA e : e # <<>>)
MsgEqF(o, m) == o.t = m.t /\ o.s = m.s /\ o.v = m.v /\ ParamsEq(o.ps, m.ps)

\* Verdict on one observed decoder call: "" = accepted, otherwise the kind of deviation.
\* o = [out in need|err|msg|panic|.., m = decoded message, rem = the buffer after the call]
Judge(r, buf, o) ==
   LET consumed == Len(buf) - Len(o.rem) IN
   IF o.out \notin r.kinds THEN (IF o.out \in {"need", "err", "msg"} THEN "class" ELSE o.out)
   ELSE IF consumed < 0 \/ o.rem # Drop(buf, consumed) THEN "rest"             \* bytes that follow were altered
   ELSE IF o.out = "need" THEN (IF consumed = 0 THEN "" ELSE "need_consumed")
   ELSE IF o.out = "err" THEN (IF consumed <= r.end THEN "" ELSE "overconsume")
   ELSE IF consumed > r.end THEN "overconsume"
   ELSE IF consumed < r.end THEN "underconsume"
   ELSE IF o.m.t # r.m.t THEN "msg"
   ELSE IF r.exact /\ ~MsgEqF(o.m, r.m) THEN "msg"
   ELSE ""
KindsStr(k) == IF k = {"need"} THEN "need" ELSE IF k = {"err"} THEN "err" ELSE IF k = {"msg"} THEN "msg"
               ELSE IF k = {"msg", "err"} THEN "msg|err" ELSE IF k = {"need", "err"} THEN "need|err" ELSE "?"

\* ================================================================== backend messages
\* uniformly typed record; unused fields hold "" / 0 / <<>>:
\*   t    AuthOk | AuthClear | AuthMD5(b = salt) | ParamStatus(s1,s2) | KeyData(n1,n2) | Ready(n1 = status byte)
\*        | RowDesc(fl, rep) | DataRow(vl, rep) | Complete(s1) | Error(kv) | Notice(kv) | Empty
\*   fl   sequence of [name, toid, attr, tyoid, tysz, tmod, fmt];  vl  sequence of [null in 0|1, b];  kv  sequence of [k, v]
\*   rep  the list fl / vl is repeated rep times (long rows without long scenario files)
BM(t) == [t |-> t, s1 |-> <<>>, s2 |-> <<>>, n1 |-> 0, n2 |-> 0, b |-> <<>>, fl |-> <<>>, vl |-> <<>>, kv |-> <<>>, rep |-> 1]
Rep(l, rep) == [i \in 1..(Len(l) * rep) |-> l[((i - 1) % Len(l)) + 1]]
Fields(m) == Rep(m.fl, m.rep)
Values(m) == Rep(m.vl, m.rep)
FieldBytes(f) == CStr(f.name) \o B4(f.toid) \o B2(f.attr) \o B4(f.tyoid) \o B2(f.tysz) \o B4(f.tmod) \o B2(f.fmt)
ValueBytes(x) == IF x.null = 1 THEN <<255, 255, 255, 255>> ELSE B4(Len(x.b)) \o x.b
\* Int16 counters are read unsigned (as libpq does): a row has at most 65535 columns
Representable(m) == (m.t = "RowDesc" => Len(m.fl) * m.rep <= 65535) /\ (m.t = "DataRow" => Len(m.vl) * m.rep <= 65535)
KvBytes(kv) == Flat([i \in 1..Len(kv) |-> <<kv[i].k>> \o CStr(kv[i].v)]) \o <<0>>
Encode(m) ==
   CASE m.t = "AuthOk"      -> Frame(82, B4(0))
     [] m.t = "AuthClear"   -> Frame(82, B4(3))
     [] m.t = "AuthMD5"     -> Frame(82, B4(5) \o m.b)
     [] m.t = "ParamStatus" -> Frame(83, CStr(m.s1) \o CStr(m.s2))
     [] m.t = "KeyData"     -> Frame(75, B4(m.n1) \o B4(m.n2))
     [] m.t = "Ready"       -> Frame(90, <<m.n1>>)
     [] m.t = "RowDesc"     -> LET f == Fields(m) IN Frame(84, B2(Len(f)) \o Flat([i \in 1..Len(f) |-> FieldBytes(f[i])]))
     [] m.t = "DataRow"     -> LET v == Values(m) IN Frame(68, B2(Len(v)) \o Flat([i \in 1..Len(v) |-> ValueBytes(v[i])]))
     [] m.t = "Complete"    -> Frame(67, CStr(m.s1))
     [] m.t = "Error"       -> Frame(69, KvBytes(m.kv))
     [] m.t = "Notice"      -> Frame(78, KvBytes(m.kv))
     [] m.t = "Empty"       -> Frame(73, <<>>)

\* ------------------------------------------------------------------ independent parser of one backend frame
BadB(why) == [BM("bad") EXCEPT !.s2 = why]
Good(v) == [ok |-> TRUE, v |-> v]
NoGood  == [ok |-> FALSE, v |-> <<>>]
RECURSIVE FieldsR(_, _, _, _)
FieldsR(b, i, n, acc) ==              \* n field descriptions starting at b[i]; must end exactly at Len(b)
   IF n = 0 THEN (IF i = Len(b) + 1 THEN Good(acc) ELSE NoGood)
   ELSE LET z == NulFrom(b, i) IN
        IF z = 0 \/ z + 18 > Len(b) THEN NoGood
        ELSE FieldsR(b, z + 19, n - 1,
                     Append(acc, [name |-> Sub(b, i, z - 1), toid |-> I32(Sub(b, z + 1, z + 4)), attr |-> I16(Sub(b, z + 5, z + 6)),
                                  tyoid |-> I32(Sub(b, z + 7, z + 10)), tysz |-> I16(Sub(b, z + 11, z + 12)),
                                  tmod |-> I32(Sub(b, z + 13, z + 16)), fmt |-> I16(Sub(b, z + 17, z + 18))]))
RECURSIVE ValuesR(_, _, _, _)
ValuesR(b, i, n, acc) ==
   IF n = 0 THEN (IF i = Len(b) + 1 THEN Good(acc) ELSE NoGood)
   ELSE IF i + 3 > Len(b) THEN NoGood
   ELSE LET k == I32(Sub(b, i, i + 3)) IN
        IF k = -1 THEN ValuesR(b, i + 4, n - 1, Append(acc, [null |-> 1, b |-> <<>>]))
        ELSE IF k < 0 \/ k > Len(b) - (i + 3) THEN NoGood
        ELSE ValuesR(b, i + 4 + k, n - 1, Append(acc, [null |-> 0, b |-> Sub(b, i + 4, i + 3 + k)]))
RECURSIVE KvR(_, _, _)
KvR(b, i, acc) ==                      \* (type byte, cstring)* 0, ending exactly at Len(b)
   IF i > Len(b) THEN NoGood
   ELSE IF b[i] = 0 THEN (IF i = Len(b) THEN Good(acc) ELSE NoGood)
   ELSE LET z == NulFrom(b, i + 1) IN
        IF z = 0 THEN NoGood ELSE KvR(b, z + 1, Append(acc, [k |-> b[i], v |-> Sub(b, i + 1, z - 1)]))

ParseBackend(bytes) ==
   IF Len(bytes) < 5 THEN BadB("short")
   ELSE LET ty == bytes[1]
            len == I32(Sub(bytes, 2, 5))
            body == Drop(bytes, 5)
            n == Len(body) IN
     IF len # Len(bytes) - 1 THEN BadB("length")                      \* exactly one frame, length = bytes after the type byte
     ELSE IF ty = 82 THEN
            (IF n < 4 THEN BadB("auth")
             ELSE LET c == I32(Sub(body, 1, 4)) IN
                  IF c = 0 /\ n = 4 THEN BM("AuthOk")
                  ELSE IF c = 3 /\ n = 4 THEN BM("AuthClear")
                  ELSE IF c = 5 /\ n = 8 THEN [BM("AuthMD5") EXCEPT !.b = Sub(body, 5, 8)]
                  ELSE BadB("auth"))
     ELSE IF ty = 83 THEN
            (LET z1 == NulFrom(body, 1)
                 z2 == IF z1 = 0 THEN 0 ELSE NulFrom(body, z1 + 1) IN
             IF z1 = 0 \/ z2 = 0 \/ z2 # n THEN BadB("param")
             ELSE [BM("ParamStatus") EXCEPT !.s1 = Sub(body, 1, z1 - 1), !.s2 = Sub(body, z1 + 1, z2 - 1)])
     ELSE IF ty = 75 THEN
            (IF n # 8 THEN BadB("key") ELSE [BM("KeyData") EXCEPT !.n1 = I32(Sub(body, 1, 4)), !.n2 = I32(Sub(body, 5, 8))])
     ELSE IF ty = 90 THEN
            (IF n # 1 \/ body[1] \notin {73, 84, 69} THEN BadB("ready") ELSE [BM("Ready") EXCEPT !.n1 = body[1]])
     ELSE IF ty = 84 THEN
            (IF n < 2 THEN BadB("rowdesc")
             ELSE LET f == FieldsR(body, 3, U16(Sub(body, 1, 2)), <<>>) IN
                  IF ~f.ok THEN BadB("rowdesc") ELSE [BM("RowDesc") EXCEPT !.fl = f.v])
     ELSE IF ty = 68 THEN
            (IF n < 2 THEN BadB("datarow")
             ELSE LET v == ValuesR(body, 3, U16(Sub(body, 1, 2)), <<>>) IN
                  IF ~v.ok THEN BadB("datarow") ELSE [BM("DataRow") EXCEPT !.vl = v.v])
     ELSE IF ty = 67 THEN
            (IF NulFrom(body, 1) # n \/ n = 0 THEN BadB("complete") ELSE [BM("Complete") EXCEPT !.s1 = Sub(body, 1, n - 1)])
     ELSE IF ty \in {69, 78} THEN
            (LET kv == KvR(body, 1, <<>>) IN
             IF ~kv.ok THEN BadB("fields") ELSE [BM(IF ty = 69 THEN "Error" ELSE "Notice") EXCEPT !.kv = kv.v])
     ELSE IF ty = 73 THEN (IF n # 0 THEN BadB("empty") ELSE BM("Empty"))
     ELSE BadB("type")

KvSet(kv) == { <<kv[i].k, kv[i].v>> : i \in 1..Len(kv) }
\* the parsed frame p carries the same fields as the message m (error/notice fields are a map: order is free)
SameB(m, p) ==
   /\ p.t = m.t
   /\ p.s1 = m.s1 /\ p.s2 = m.s2 /\ p.n1 = m.n1 /\ p.n2 = m.n2 /\ p.b = m.b
   /\ p.fl = Fields(m) /\ p.vl = Values(m)
   /\ Len(p.kv) = Len(m.kv) /\ KvSet(p.kv) = KvSet(m.kv)
OrderFree(m) == m.t \in {"Error", "Notice"}
=============================================================================
