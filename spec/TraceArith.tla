----------------------------- MODULE TraceArith ------------------------------
(* VAL for C24: arithmetic events against Arith!Allowed; hostile statements (a = "sql") may end ok or err, never in a panic, *)
(* and the sanity statement that follows them (a = "sane") must succeed.                                                    *)
EXTENDS Arith, Json, IOUtils, TLC
Rec == ndJsonDeserialize(IOEnv.TRACE)
VARIABLES l, bad, nar, nsql
vars == <<l, bad, nar, nsql>>
MaxBad == 300
Init == l = 1 /\ bad = <<>> /\ nar = 0 /\ nsql = 0
BadRec(e, what, exp) == [sc |-> e.sc, i |-> e.i, a |-> e.a.a, what |-> what, exp |-> exp, obs |-> e.out, dev |-> "", cfg |-> e.cfg, want |-> <<>>]
Step(e) ==
   LET k == e.a.a
       w == IF k = "arith" THEN (IF Allowed(e.a.op, e.a.x, e.a.y, e.a.ctx, e.o) THEN "" ELSE IF e.o.k = "panic" THEN "panic" ELSE "value")
            ELSE IF k = "sql" THEN (IF e.out \in {"ok", "err", "parse", "denied"} THEN "" ELSE "panic")
            ELSE IF k = "sane" THEN (IF e.out = "ok" THEN "" ELSE "unusable")
            \* C23: the parser answers every input with a statement or an error
            ELSE IF k \in {"parse", "nest"} THEN (IF e.out \in {"ok", "parse", "err"} THEN "" ELSE e.out)
            ELSE ""
   IN /\ bad' = IF w = "" \/ Len(bad) >= MaxBad THEN bad ELSE Append(bad, BadRec(e, w, "ok|err"))
      /\ nar' = IF k = "arith" THEN nar + 1 ELSE nar
      /\ nsql' = IF k = "sql" THEN nsql + 1 ELSE nsql
Next == l <= Len(Rec) /\ Step(Rec[l]) /\ l' = l + 1
Verdict == [n |-> Len(Rec), nbad |-> Len(bad), cnt |-> [ok |-> Len(Rec) - Len(bad), queries |-> nar, hostile |-> nsql], bad |-> bad]
Done == l > Len(Rec) => PrintT(<<"VERDICT", ToJson(Verdict)>>)
Post == TLCGet("stats").diameter = Len(Rec) + 1
=============================================================================
