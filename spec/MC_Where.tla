------------------------------- MODULE MC_Where ------------------------------
(***************************************************************************)
(* GEN for C09: UPDATE and DELETE act on exactly the rows their WHERE       *)
(* clause selects - over a grammar of WHERE predicates and SET expressions, *)
(* three primary-key shapes (constant Shape: single-column key, composite   *)
(* key, no key) and two populated table states.  Engine!Selected is the one *)
(* definition of "the rows WHERE p selects" for SELECT, UPDATE and DELETE;  *)
(* each scenario is a populated state followed by <= MaxDepth statements,   *)
(* each one a DELETE, an UPDATE or the SELECT with the same predicate.      *)
(* Predicates: equality on the key (hit, miss), key equality as a conjunct  *)
(* next to a condition that is TRUE / FALSE / UNKNOWN for that row (in both *)
(* orders), disjunctions, IN lists (with NULL), BETWEEN, ranges, <>, NOT,   *)
(* literals of another numeric type (2.0, 1.5), comparisons with NULL,      *)
(* IS [NOT] NULL, and non-boolean truth values (WHERE N, WHERE 1, WHERE 0). *)
(* SET expressions: constants, expressions over the row's own pre-update    *)
(* values (N + 10), a swap (U = N, N = U), a key shift (ID = ID + 10).      *)
(***************************************************************************)
EXTENDS Engine, Json
CONSTANTS MaxDepth, Shape
VARIABLES st, hist, base
vars == <<st, hist, base>>

C(n, pk) == [n |-> n, ty |-> "INTEGER", nn |-> FALSE, pk |-> pk, uq |-> FALSE, def |-> NoDef]
Setup == << [a |-> "ct", t |-> "T1", cols |-> << C("ID", Shape = "pk1"), C("U", FALSE), C("N", FALSE) >>,
             pk |-> IF Shape = "pk2" THEN <<"ID", "N">> ELSE <<>>, uqs |-> <<>>, checks |-> <<>>, fks |-> <<>>] >>
RECURSIVE Run(_,_)
Run(s, as) == IF as = <<>> THEN s ELSE Run(Apply(s, Head(as)).st, Tail(as))

ID == Col("ID")  U == Col("U")  N == Col("N")
L(k) == Lit(I(k))
Eq(c, k) == CmpE("=", c, L(k))
Preds ==
      { Eq(ID, 1), Eq(ID, 2), Eq(ID, 9), CmpE("=", L(2), ID) }
      \* key equality as one conjunct; the other is TRUE / FALSE / UNKNOWN for the row with that key
 \cup { AndE(Eq(ID, 1), Eq(U, 1)), AndE(Eq(ID, 2), Eq(U, 1)), AndE(Eq(ID, 2), Eq(U, 5)), AndE(Eq(U, 1), Eq(ID, 2)), AndE(Eq(U, 1), Eq(ID, 1)),
        AndE(Eq(ID, 1), IsNullE(U, FALSE)), AndE(Eq(ID, 3), CmpE(">", N, L(0))), AndE(Eq(ID, 1), NotE(Eq(U, 1))),
        AndE(Eq(ID, 2), Eq(N, 0)), AndE(AndE(Eq(ID, 2), Eq(U, 1)), Eq(N, 0)) }
 \cup { OrE(Eq(ID, 1), Eq(U, 2)), OrE(Eq(ID, 1), Eq(ID, 3)), OrE(Eq(ID, 9), Eq(U, 1)) }
 \cup { InListE(ID, <<L(1), L(3)>>, FALSE), InListE(ID, <<L(1), Lit(NULL)>>, FALSE), InListE(ID, <<L(1), Lit(NULL)>>, TRUE), InListE(ID, <<L(2)>>, TRUE) }
 \cup { BetweenE(ID, L(2), L(3), FALSE), CmpE(">", ID, L(1)), AndE(CmpE(">=", ID, L(2)), CmpE("<", ID, L(3))), CmpE("<>", ID, L(2)), NotE(Eq(ID, 2)) }
      \* literals of another numeric type
 \cup { CmpE("=", ID, Lit(Q(4, 2))), CmpE("=", ID, Lit(Q(3, 2))), CmpE(">", ID, Lit(Q(3, 2))), CmpE("<=", ID, Lit(Q(5, 2))), CmpE("=", N, Lit(Q(2, 2))) }
 \cup { CmpE("=", U, Lit(NULL)), IsNullE(U, FALSE), IsNullE(U, TRUE), NotE(Eq(U, 1)), Eq(U, 1), CmpE("=", U, N) }
      \* non-boolean truth values
 \cup { N, L(1), L(0), Lit(NULL), ArE("-", N, L(1)) }
Set1(c, e) == << [c |-> c, e |-> e] >>
Sets == { Set1("N", ArE("+", N, L(10))), Set1("U", L(7)), << [c |-> "U", e |-> N], [c |-> "N", e |-> U] >>, Set1("ID", ArE("+", ID, L(10))) }
Alphabet ==   { DeleteA("T1", p) : p \in Preds } \cup { UpdateA("T1", s, p) : s \in Sets, p \in Preds }
         \cup { QueryA([BaseSel(TableRef("T1")) EXCEPT !.where = p]) : p \in Preds }
         \cup { DeleteA("T1", NoExpr), UpdateA("T1", Set1("N", ArE("+", N, L(10))), NoExpr) }

R(id, u, n) == InsertV("T1", << <<id, u, n>> >>)
Prefixes == { << R(I(1), NULL, I(0)), R(I(2), I(1), I(0)), R(I(3), I(2), I(1)) >>,
              << R(I(3), I(1), I(1)), R(I(1), I(1), I(2)), R(I(2), NULL, I(0)), R(I(4), I(2), NULL) >> }
Init == \E pre \in Prefixes : st = Run(InitSt, Setup \o pre) /\ hist = Setup \o pre /\ base = Len(Setup \o pre)
\* the depth bound guards Next (a CONSTRAINT would make TLC compute the successors of the deepest states only to drop them)
Next == Len(hist) < MaxDepth + base /\ \E a \in Alphabet : st' = Apply(st, a).st /\ hist' = Append(hist, a) /\ base' = base
View == <<st, Len(hist)>>
Emit == PrintT(<<"REPLAY", ToJson(hist')>>)

Inv == ConstraintsHold(st)
\* C09 on the model itself: DELETE removes exactly Selected and reports its size; UPDATE leaves the rows outside Selected alone
\* and computes every new row from the pre-update values
DeleteExact == [][ (hist' # hist /\ hist'[Len(hist')].a = "del" /\ Apply(st, hist'[Len(hist')]).out = "ok") =>
                     LET a == hist'[Len(hist')] sel == Selected(st, "T1", a.w) T == st.tabs["T1"] IN
                     /\ Apply(st, a).cnt = Cardinality(sel)
                     /\ Len(st'.tabs["T1"].rows) = Len(T.rows) - Cardinality(sel)
                     /\ \A i \in Idxs(T.rows) \ sel : \E j \in Idxs(st'.tabs["T1"].rows) : st'.tabs["T1"].rows[j] = T.rows[i] ]_vars
UpdateExact == [][ (hist' # hist /\ hist'[Len(hist')].a = "upd" /\ Apply(st, hist'[Len(hist')]).out = "ok") =>
                     LET a == hist'[Len(hist')] sel == Selected(st, "T1", a.w) T == st.tabs["T1"] IN
                     /\ Apply(st, a).cnt = Cardinality(sel)
                     /\ Len(st'.tabs["T1"].rows) = Len(T.rows)
                     /\ \A i \in Idxs(T.rows) \ sel : st'.tabs["T1"].rows[i] = T.rows[i] ]_vars
\* the SELECT with the same predicate returns exactly the rows DELETE would remove
SelectAgrees == \A p \in Preds : LET r == EvalQ([BaseSel(TableRef("T1")) EXCEPT !.where = p], DbOf(st), <<>>) IN
                   r.err \/ Len(r.rows) = Cardinality(Selected(st, "T1", p))
=============================================================================
