----------------------------- MODULE MC_Hostile ------------------------------
(***************************************************************************)
(* GEN for C24 (statement half): hostile but syntactically plausible        *)
(* statements - every expression of Exprs in every context of Ctx (select   *)
(* list, WHERE, GROUP BY, ORDER BY, HAVING, aggregate argument, UPDATE SET, *)
(* CHECK), plus statements on missing objects, wrong arity, type mismatches, *)
(* CHAR / VARCHAR truncation of non-ASCII text and extreme literals.  Each    *)
(* scenario is: setup, one hostile statement, one sanity statement.  The      *)
(* outcome alphabet (TraceArith): the hostile statement ends ok or err -      *)
(* never in a panic - and the sanity statement succeeds afterwards.           *)
(***************************************************************************)
EXTENDS Sequences, FiniteSets, Json, TLC
Sql(x) == [a |-> "sql", sql |-> x]
Setup == << Sql("CREATE TABLE H (I INTEGER, S VARCHAR(3), C CHAR(2), D DATE, B BOOLEAN, F DOUBLE PRECISION, N NUMERIC(6,2), SI SMALLINT)"),
            Sql("INSERT INTO H VALUES (1, 'abc', 'xy', DATE '2024-01-31', TRUE, 1.5, 12.34, 7)"),
            Sql("INSERT INTO H VALUES (NULL, NULL, NULL, NULL, NULL, NULL, NULL, NULL)") >>
Exprs == { "I + S", "S * 2", "- S", "D + 1", "D - D", "B + 1", "NOT I", "I AND B", "S LIKE I", "I / 0", "I % 0", "F / 0", "N / 0", "0 / 0",
           "ABS(S)", "UPPER(I)", "LOWER(D)", "LENGTH(I)", "S || I", "SUBSTRING(S FROM -5 FOR 100000)", "SUBSTRING(S FROM 2 FOR -1)",
           "CAST(S AS INTEGER)", "CAST('99999999999999999999' AS INTEGER)", "CAST(F AS SMALLINT)", "CAST(100000 AS SMALLINT)", "CAST(D AS INTEGER)",
           "CAST('x' AS DATE)", "COALESCE()", "NULLIF(I)", "I IN ()", "CASE WHEN S THEN 1 END", "(SELECT I FROM H)", "(SELECT I, S FROM H)",
           "NOSUCH", "H.NOSUCH", "X.I", "I BETWEEN S AND D", "POWER(10, 400)", "SQRT(-1)", "LN(0)", "EXP(100000)", "MOD(I, 0)",
           "9223372036854775807 + 1", "-9223372036854775807 - 2", "9223372036854775807 * 2", "ABS(-9223372036854775807 - 1)", "- (-9223372036854775807 - 1)",
           "SI * 32767 * 32767 * 32767 * 32767 * 32767", "I * 9223372036854775807 * 9223372036854775807",
           "1e400", "99999999999999999999999999999", "'x' > 1", "DATE '2024-13-45'", "TIME '25:61:61'", "TIMESTAMP 'x'", "INTERVAL '99999999999' YEAR",
           "D + INTERVAL '3000000' YEAR", "DATE '9999-12-31' + 1", "DATE '0001-01-01' - 1", "EXTRACT(YEAR FROM S)", "SUM(I)", "SUM(SUM(I))", "COUNT(*)",
           "ROW_NUMBER() OVER ()", "REPEAT('x', 1000000000)", "LPAD('x', 2000000000, 'y')", "CHAR_LENGTH(C || 'é€😀')", "TRIM(BOTH 'xy' FROM I)", "POSITION(I IN S)" }
Ctx == { <<"SELECT ", " FROM H">>, <<"SELECT 1 FROM H WHERE ", "">>, <<"SELECT 1 FROM H GROUP BY ", "">>, <<"SELECT I FROM H ORDER BY ", "">>,
         <<"SELECT COUNT(*) FROM H HAVING ", "">>, <<"SELECT SUM(", ") FROM H">>, <<"SELECT MAX(", "), MIN(I) FROM H GROUP BY S">>,
         <<"UPDATE H SET I = ", "">>, <<"UPDATE H SET S = ", " WHERE I = 1">>, <<"DELETE FROM H WHERE ", "">>,
         <<"CREATE TABLE Z (A INTEGER CHECK (", "))">>, <<"SELECT DISTINCT ", " FROM H, H AS H2">> }
Statements ==
   { c[1] \o e \o c[2] : e \in Exprs, c \in Ctx }
   \cup { "INSERT INTO H VALUES (1)", "INSERT INTO H VALUES (1, 2, 3, 4, 5, 6, 7, 8, 9)", "INSERT INTO H (I, S) VALUES (1)", "INSERT INTO H (NOSUCH) VALUES (1)",
          "INSERT INTO H (I, I) VALUES (1, 2)", "INSERT INTO H VALUES ('x', 'abc', 'xy', DATE '2024-01-31', TRUE, 1.5, 1, 1)",
          "INSERT INTO H VALUES (1, 'toolong', 'xy', NULL, NULL, NULL, NULL, NULL)", "INSERT INTO H VALUES (1, 'ééééé', 'éé€', NULL, NULL, NULL, NULL, NULL)",
          "INSERT INTO H VALUES (1, 'a', 'é', NULL, NULL, NULL, NULL, NULL)", "INSERT INTO H VALUES (1, 'a', 'aé€', NULL, NULL, NULL, NULL, NULL)",
          "INSERT INTO H VALUES (1, 'a', '😀😀😀', NULL, NULL, NULL, NULL, NULL)",
          "INSERT INTO H VALUES (1, 'a', 'b', 'notadate', NULL, NULL, NULL, NULL)", "INSERT INTO H VALUES (1, 'a', 'b', NULL, 'maybe', NULL, NULL, NULL)",
          "INSERT INTO H VALUES (1, 'a', 'b', NULL, NULL, 'nan', NULL, NULL)", "INSERT INTO H VALUES (1, 'a', 'b', NULL, NULL, 1e400, NULL, NULL)",
          "INSERT INTO H VALUES (1, 'a', 'b', NULL, NULL, NULL, 99999999.999, NULL)", "INSERT INTO H VALUES (1, 'a', 'b', NULL, NULL, NULL, NULL, 40000)",
          "INSERT INTO H VALUES (99999999999999999999, 'a', 'b', NULL, NULL, NULL, NULL, NULL)", "INSERT INTO H SELECT * FROM NOSUCH", "INSERT INTO H SELECT I FROM H",
          "INSERT INTO NOSUCH VALUES (1)", "UPDATE NOSUCH SET A = 1", "UPDATE H SET NOSUCH = 1", "UPDATE H SET I = 'x'", "UPDATE H SET C = 'ééé'", "UPDATE H SET S = 'é€😀x'",
          "UPDATE H SET SI = SI * 10000", "UPDATE H SET I = I * 9223372036854775807", "UPDATE H SET D = 'soon'", "DELETE FROM NOSUCH", "DROP TABLE NOSUCH", "DROP INDEX NOSUCH",
          "DROP VIEW NOSUCH", "CREATE TABLE H (I INTEGER)", "CREATE TABLE Z (A INTEGER, A INTEGER)", "CREATE TABLE Z (A NOSUCHTYPE)", "CREATE TABLE Z (A VARCHAR(0))",
          "CREATE TABLE Z (A VARCHAR(99999999999))", "CREATE TABLE Z (A INTEGER PRIMARY KEY, B INTEGER PRIMARY KEY)", "CREATE TABLE Z (A INTEGER REFERENCES NOSUCH (X))",
          "CREATE TABLE Z (A INTEGER DEFAULT 'x')", "CREATE INDEX IX ON NOSUCH (A)", "CREATE INDEX IX ON H (NOSUCH)", "CREATE INDEX IX ON H (S(0))", "CREATE INDEX IX ON H (I(5))",
          "CREATE UNIQUE INDEX IX ON H (B, B)", "CREATE VIEW V AS SELECT * FROM NOSUCH", "CREATE VIEW V (A, B) AS SELECT I FROM H", "ALTER TABLE NOSUCH ADD COLUMN A INTEGER",
          "ALTER TABLE H ADD COLUMN I INTEGER", "ALTER TABLE H DROP COLUMN NOSUCH", "ALTER TABLE H ADD CONSTRAINT K CHECK (NOSUCH > 0)", "ALTER TABLE H ADD CONSTRAINT K PRIMARY KEY (NOSUCH)",
          "ALTER TABLE H ADD CONSTRAINT K FOREIGN KEY (I) REFERENCES NOSUCH (X)", "ALTER TABLE H MODIFY COLUMN S INTEGER", "ALTER TABLE H CHANGE COLUMN S I INTEGER",
          "SELECT * FROM NOSUCH", "SELECT * FROM H ORDER BY 99", "SELECT I FROM H GROUP BY 99", "SELECT * FROM H LIMIT -1", "SELECT * FROM H LIMIT 99999999999999999999",
          "SELECT * FROM H OFFSET -5", "SELECT * FROM H UNION SELECT I FROM H", "SELECT I FROM H UNION SELECT S FROM H", "SELECT * FROM H AS A JOIN H AS A ON 1 = 1",
          "SELECT * FROM H JOIN NOSUCH ON H.I = NOSUCH.I", "SELECT * FROM H NATURAL JOIN H", "SELECT I FROM H, H", "WITH W AS (SELECT * FROM W) SELECT * FROM W",
          "WITH W (A, B) AS (SELECT I FROM H) SELECT * FROM W", "SELECT * FROM (SELECT * FROM H)", "SELECT (SELECT * FROM H) FROM H", "SELECT I FROM H WHERE I IN (SELECT * FROM H)",
          "SELECT I FROM H WHERE I = ALL (SELECT S FROM H)", "SELECT I FROM H WHERE EXISTS (SELECT * FROM NOSUCH)", "SELECT COUNT(DISTINCT *) FROM H", "SELECT MAX() FROM H",
          "SELECT I, COUNT(*) FROM H", "SELECT S FROM H GROUP BY I", "SELECT I FROM H HAVING S > 'a'", "ROLLBACK", "COMMIT", "ROLLBACK TO SAVEPOINT NOSUCH", "RELEASE SAVEPOINT NOSUCH",
          "SAVEPOINT S1", "GRANT SELECT ON NOSUCH TO NOBODY", "REVOKE SELECT ON H FROM NOBODY", "TRUNCATE TABLE NOSUCH", "ANALYZE NOSUCH", "" , ";", "SELECT", "SELECT FROM", "(((" }
Scenarios == { Setup \o << Sql(s), [a |-> "sane"] >> : s \in Statements }
ASSUME \A sc \in Scenarios : PrintT(<<"REPLAY", ToJson(sc)>>)
ASSUME PrintT(<<"COUNT", Cardinality(Statements)>>)
VARIABLE x
Init == x = 0
Next == x' = x
=============================================================================
