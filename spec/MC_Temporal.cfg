CONSTANTS
  Mode = "enum"
  Tier = "quick"
  MaxMut = 0
  Fan = 3
  Seed = 1
INIT Init
NEXT Next
ACTION_CONSTRAINT Emit
INVARIANT TypeOK
CHECK_DEADLOCK FALSE
