CONSTANTS
  MaxDepth = 2
  Modes = {"api", "md5", "raw"}
  FileModes = {"file_clear", "file_md5"}
  Pws = {"", "ab", "a", "a#"}
  FilePws = {"ab", "a#"}
INIT Init
NEXT Next
VIEW View
INVARIANT Theorems Emit
PROPERTY Frame
CHECK_DEADLOCK FALSE
