CONSTANTS
  Family = "reg"
  MaxPay = 3
  MaxBody = 4
  Cuts = "one"
INIT Init
NEXT Next
CHECK_DEADLOCK FALSE
