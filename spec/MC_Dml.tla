------------------------------- MODULE MC_Dml -------------------------------
(***************************************************************************)
(* GEN for C09 / C10 / C11: histories of single- and multi-row INSERT,      *)
(* UPDATE (key-changing, multi-row, constraint-violating) and DELETE on one *)
(* table with PRIMARY KEY, UNIQUE, NOT NULL and CHECK constraints.  The     *)
(* alphabet deliberately contains statements that must be rejected as a     *)
(* whole (a later row of a multi-row INSERT violates a constraint, a        *)
(* multi-row UPDATE makes two rows collide): Engine!Apply leaves the state  *)
(* unchanged for them, and the model checks that invariant-wise.  Statements *)
(* whose acceptability depends on *when* a constraint is checked (e.g.      *)
(* SET ID = ID + 1 over consecutive keys) are left out: the properties do   *)
(* not fix that choice.  Negative literals are avoided in INSERT ... VALUES:  *)
(* the engine refuses any non-literal expression there (also "-1"), which   *)
(* would make every such statement fail for a reason the model does not     *)
(* intend; negative values enter the table through UPDATE ... SET N = N - 1. *)
(***************************************************************************)
EXTENDS Engine, Json
CONSTANTS MaxDepth
VARIABLES st, hist
vars == <<st, hist>>

C(n, ty, nn, pk, uq) == [n |-> n, ty |-> ty, nn |-> nn, pk |-> pk, uq |-> uq, def |-> NoDef]
Setup == << [a |-> "ct", t |-> "T1",
             cols |-> << C("ID", "INTEGER", FALSE, TRUE, FALSE), C("U", "INTEGER", FALSE, FALSE, TRUE), C("N", "INTEGER", TRUE, FALSE, FALSE) >>,
             pk |-> <<>>, uqs |-> <<>>, checks |-> << CmpE("<=", Col("N"), Lit(I(1))) >>, fks |-> <<>>] >>
RECURSIVE Run(_,_)
Run(s, as) == IF as = <<>> THEN s ELSE Run(Apply(s, Head(as)).st, Tail(as))

R(id, u, n) == <<id, u, n>>
Ins(rows) == InsertV("T1", rows)
Set1(c, e) == << [c |-> c, e |-> e] >>
ID == Col("ID")  U == Col("U")  N == Col("N")
L(k) == Lit(I(k))
Alphabet ==
      \* valid single rows
      { Ins(<<R(I(1), NULL, I(0))>>), Ins(<<R(I(2), I(1), I(0))>>), Ins(<<R(I(2), I(2), I(1))>>), Ins(<<R(I(3), I(1), I(0))>>) }
      \* single rows that violate PK NOT NULL / NOT NULL / CHECK
 \cup { Ins(<<R(NULL, NULL, I(0))>>), Ins(<<R(I(1), I(1), NULL)>>), Ins(<<R(I(3), NULL, I(2))>>) }
      \* multi-row: valid; duplicate UNIQUE key inside the statement; duplicate PK inside the statement; last row violates CHECK
 \cup { Ins(<<R(I(2), I(2), I(0)), R(I(1), NULL, I(0))>>), Ins(<<R(I(1), I(1), I(0)), R(I(2), I(1), I(0))>>),
        Ins(<<R(I(3), NULL, I(0)), R(I(3), I(2), I(0))>>), Ins(<<R(I(3), NULL, I(0)), R(I(4), NULL, I(2))>>) }
 \cup { UpdateA("T1", Set1("U", L(1)), NoExpr),                       \* two rows -> duplicate, one row -> fine
        UpdateA("T1", Set1("U", L(1)), CmpE("=", ID, L(2))),
        UpdateA("T1", Set1("U", Lit(NULL)), NoExpr),
        UpdateA("T1", Set1("N", Lit(NULL)), CmpE("=", ID, L(1))),     \* NOT NULL
        UpdateA("T1", Set1("N", ArE("+", N, L(1))), NoExpr),          \* CHECK fails for the rows with N = 1
        UpdateA("T1", Set1("N", ArE("-", N, L(1))), CmpE(">=", ID, L(2))),
        UpdateA("T1", Set1("ID", L(2)), CmpE("=", ID, L(1))),         \* PK collision iff 2 exists
        UpdateA("T1", Set1("ID", L(4)), CmpE("=", ID, L(1))),
        UpdateA("T1", Set1("ID", L(5)), IsNullE(U, FALSE)) }          \* several rows -> same key
 \cup { DeleteA("T1", CmpE("=", ID, L(1))), DeleteA("T1", IsNullE(U, FALSE)), DeleteA("T1", CmpE("=", U, L(1))),
        DeleteA("T1", CmpE(">", N, L(0))), DeleteA("T1", NoExpr) }

Init == st = Run(InitSt, Setup) /\ hist = Setup
Next == \E a \in Alphabet : st' = Apply(st, a).st /\ hist' = Append(hist, a)
View == st
Bound == Len(hist) < MaxDepth + Len(Setup)
Emit == PrintT(<<"REPLAY", ToJson(hist')>>)

\* C10: every reachable state satisfies the declared constraints
Inv == ConstraintsHold(st)
\* C11: a statement the specification rejects is a stuttering step on the database
FailedIsStutter == [][ hist' # hist => (Apply(st, hist'[Len(hist')]).out = "err" => st' = st) ]_vars
\* C09: DELETE removes exactly the selected rows and reports their number
DeleteExact == [][ (hist' # hist /\ hist'[Len(hist')].a = "del") =>
                     LET a == hist'[Len(hist')] sel == Selected(st, "T1", a.w) T == st.tabs["T1"] IN
                     /\ Apply(st, a).cnt = Cardinality(sel)
                     /\ st'.tabs["T1"].rows = SelectSeq(T.rows, LAMBDA r : \E i \in (Idxs(T.rows) \ sel) : T.rows[i] = r) ]_vars
=============================================================================
