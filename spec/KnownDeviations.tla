-------------------------- MODULE KnownDeviations --------------------------
(***************************************************************************)
(* Named deviation operators: what the code is *known* to do instead of    *)
(* the specified behaviour, for the genuine defects recorded in            *)
(* /verif/known_findings.json (DESIGN.md section 5).  Deviation returns    *)
(* the name of the listed deviation that explains a non-conforming event,  *)
(* or "" -- then the event is a violation.  Nothing here is a blanket      *)
(* ignore: each operator describes one exact wrong behaviour.              *)
(***************************************************************************)
EXTENDS Engine

Deviation(st, e, exp, what) == ""
=============================================================================
