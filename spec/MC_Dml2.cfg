CONSTANTS
  MaxDepth = 4
INIT Init
NEXT Next
VIEW View
CONSTRAINT Bound
ACTION_CONSTRAINT Emit
INVARIANT Inv
PROPERTY FailedIsStutter
CHECK_DEADLOCK FALSE
