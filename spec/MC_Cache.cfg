CONSTANTS
  Fill = 1
  MaxDepth = 3
INIT Init
NEXT Next
VIEW View
CONSTRAINT Bound
ACTION_CONSTRAINT Emit
CHECK_DEADLOCK FALSE
