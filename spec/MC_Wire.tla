------------------------------- MODULE MC_Wire -------------------------------
(***************************************************************************)
(* GEN for C27 (wire decoding is safe and respects framing).               *)
(* Pure input enumeration: TLC builds every byte stream of the structured  *)
(* families below, cuts it into delivery chunks, and plays the connection  *)
(* (feed chunk / decode) against the reference decoder of Wire.tla to      *)
(* decide how long the scenario goes on: decoding continues after a        *)
(* message, the next chunk is fed after "need more", and the scenario ends *)
(* at an error or wherever the specification leaves the decoder a choice.  *)
(*   reg     : type in {Q,p,X,Z} x declared length in {MinI32,-1,0,3,4,5,  *)
(*             exact-1..exact+2,MaxI32} x payload over {NUL,'a',0xC3,0xA9} *)
(*             up to MaxPay bytes x trailing bytes (none, NUL, "a"NUL, a    *)
(*             Terminate frame), plus truncated headers                    *)
(*   startup : declared length in {-1,0,4,7,8,exact-1..exact+1,10001,      *)
(*             MaxI32} x code in {absent, 3.0, SSLRequest} x body over      *)
(*             {NUL,'a',0xFF} up to MaxBody bytes x trailing bytes           *)
(*   wf      : EncodeF(m1) \o EncodeF(m2) \o rest for well-formed messages  *)
(*             (strings with 1- to 4-byte characters, parameter lists with  *)
(*             empty values and repeated keys) and well-framed strings that *)
(*             are not UTF-8, delivered in one piece and cut at every        *)
(*             position                                                     *)
(* Family selects what is printed (one TLC run per family).                *)
(* The ASSUMEs at the end are the spec-level theorems (round trip, prefix  *)
(* => need more, frame bound, non-empty acceptance sets), checked by TLC   *)
(* over the same domains.                                                  *)
(***************************************************************************)
EXTENDS Wire, TLC, Json
CONSTANTS Family, MaxPay, MaxBody, Cuts  \* Cuts: "one" (delivered in one piece) | "few" (also cut inside the header, cut before the last byte) | "all"
VARIABLE dummy

FeedA(b) == [a |-> "feed", b |-> b, su |-> 0]
DecA(su) == [a |-> "dec", b |-> <<>>, su |-> IF su THEN 1 ELSE 0]
Dec(su, buf) == IF su THEN DecodeStartup(buf) ELSE Decode(buf)

\* the connection as the specification sees it: steps from a buffer, the chunks still to come and the phase
RECURSIVE Play(_, _, _)
Play(buf, chunks, su) ==
   LET r == Dec(su, buf) IN
   IF IsMsg(r) THEN <<DecA(su)>> \o Play(Drop(buf, r.end), chunks, su /\ r.m.t = "SSL")
   ELSE IF IsNeed(r) /\ chunks # <<>> THEN <<DecA(su), FeedA(Head(chunks))>> \o Play(buf \o Head(chunks), Tail(chunks), su)
   ELSE <<DecA(su)>>
Steps(x, k, su) ==          \* k = 0: one piece; otherwise the first chunk has k bytes
   IF k = 0 THEN <<FeedA(x)>> \o Play(x, <<>>, su)
   ELSE <<FeedA(Sub(x, 1, k))>> \o Play(Sub(x, 1, k), <<Drop(x, k)>>, su)
CutSet(x) == {0} \cup ((IF Cuts = "all" THEN 1..(Len(x) - 1) ELSE IF Cuts = "few" THEN {3, Len(x) - 1} ELSE {}) \cap 1..(Len(x) - 1))

Strings(alpha, n) == UNION { [1..k -> alpha] : k \in 0..n }

\* ---------------------------------------------------------------- regular frames
Alpha == {0, 97, 195, 169}
Types == {81, 112, 88, 90}
RLens(p) == {MinI32, -1, 0, 3, 4, 5, 3 + Len(p), 4 + Len(p), 5 + Len(p), 6 + Len(p), MaxI32}
Trails == { <<>>, <<0>>, <<97, 0>>, <<88, 0, 0, 0, 4>> }
RegInputs == UNION { { <<ty>> \o B4(l) \o p \o t : ty \in Types, l \in RLens(p), t \in Trails } : p \in Strings(Alpha, MaxPay) }
                \cup { Sub(<<ty>> \o B4(l), 1, k) : ty \in {81, 90}, l \in {4, 5, -1}, k \in 0..4 }

\* ---------------------------------------------------------------- startup packets
SAlpha == {0, 97, 255}
V30 == 196608
Codes == { <<>>, B4(V30), B4(SSLCode) }
SLens(n) == {-1, 0, 4, 7, 8, n - 1, n, n + 1, 10001, MaxI32}
STrails == { <<>>, <<0>>, <<81, 0, 0, 0, 6, 97, 0>> }
Bodies(c) == IF c = <<>> THEN { <<>>, <<0, 3>> } ELSE Strings(SAlpha, MaxBody)
StartInputs == UNION { UNION { { B4(l) \o c \o b \o t : l \in SLens(4 + Len(c) + Len(b)), t \in STrails } : b \in Bodies(c) } : c \in Codes }
                 \cup { <<>>, <<0>>, <<0, 0, 0>> }

\* ---------------------------------------------------------------- well-formed messages and what may follow them
\* strings: empty, ASCII, 2-, 3- and 4-byte characters
Strs == { <<>>, <<97>>, <<195, 169>>, <<226, 130, 172>>, <<240, 159, 152, 128>>, <<83, 69, 76, 69, 67, 84, 32, 49>> }
\* not UTF-8: overlong forms, a surrogate, above U+10FFFF, a truncated character, a lone continuation byte
BadUtf8 == { <<192, 128>>, <<224, 128, 128>>, <<240, 128, 128, 128>>, <<237, 160, 128>>, <<244, 144, 128, 128>>, <<226, 130>>, <<128>>, <<97, 255>> }
PLists == { <<>>, << <<<<117>>, <<97>>>> >>, << <<<<117>>, <<>>>>, <<<<100, 98>>, <<195, 169>>>> >>, << <<<<117>>, <<97>>>>, <<<<117>>, <<98>>>> >> }
RegMsgs == { Query(s) : s \in Strs } \cup { Password(s) : s \in Strs } \cup { Terminate }
StartMsgs == { SSLRequest } \cup { Startup(v, ps) : v \in {V30, 0, -1}, ps \in PLists }
Rests == { <<>>, <<0>>, <<255, 255, 255, 255, 255>>, <<81, 0, 0, 0>> }
WfReg   == { EncodeF(m1) \o EncodeF(m2) \o r : m1 \in RegMsgs, m2 \in {Terminate, Query(<<97>>)}, r \in Rests }
              \cup { Frame(ty, CStr(s)) \o r : ty \in {TyQ, TyP}, s \in BadUtf8, r \in { <<>>, EncodeF(Terminate) } }
WfStart == { EncodeF(m1) \o EncodeF(m2) \o r : m1 \in StartMsgs, m2 \in {Terminate, Query(<<97>>)}, r \in Rests }
              \cup { EncodeF(SSLRequest) \o EncodeF(Startup(V30, << <<<<117>>, <<97>>>> >>)) \o EncodeF(Query(<<97>>)) }

Scenarios ==
   CASE Family = "reg"     -> UNION { { Steps(x, k, FALSE) : k \in CutSet(x) } : x \in RegInputs }
     [] Family = "startup" -> UNION { { Steps(x, k, TRUE) : k \in CutSet(x) } : x \in StartInputs }
     [] Family = "wf"      -> UNION { { Steps(x, k, FALSE) : k \in 0..(Len(x) - 1) } : x \in WfReg }
                                \cup UNION { { Steps(x, k, TRUE) : k \in 0..(Len(x) - 1) } : x \in WfStart }
ASSUME \A s \in Scenarios : PrintT(<<"REPLAY", ToJson(s)>>)

\* ---------------------------------------------------------------- theorems of the reference model
\* decoding the encoding of a well-formed message yields that message, consumes exactly its frame, whatever follows
RoundTrip == /\ \A m \in RegMsgs : \A r \in Rests \cup { EncodeF(n) : n \in RegMsgs } :
                  Decode(EncodeF(m) \o r) = Res({"msg"}, m, Len(EncodeF(m)), TRUE)
             /\ \A m \in StartMsgs : \A r \in Rests \cup { EncodeF(n) : n \in RegMsgs } :
                  DecodeStartup(EncodeF(m) \o r) = Res({"msg"}, m, Len(EncodeF(m)), TRUE)
\* every proper prefix of a well-formed frame asks for more bytes (so the delivery schedule cannot matter)
PrefixNeed == /\ \A m \in RegMsgs : \A k \in 0..(Len(EncodeF(m)) - 1) : Decode(Sub(EncodeF(m), 1, k)) = NeedR
              /\ \A m \in StartMsgs : \A k \in 0..(Len(EncodeF(m)) - 1) : DecodeStartup(Sub(EncodeF(m), 1, k)) = NeedR
\* a message is only ever cut out of bytes that are there; an error never reaches past the declared frame
AllIn == (IF Family = "startup" THEN StartInputs ELSE IF Family = "reg" THEN RegInputs ELSE WfReg \cup WfStart)
Bounded == \A x \in AllIn : \A su \in BOOLEAN : LET r == Dec(su, x) IN
              /\ r.kinds # {} /\ r.kinds \subseteq {"need", "err", "msg"}
              /\ ("msg" \in r.kinds => r.end <= Len(x) /\ r.end >= (IF su THEN 8 ELSE 5))
              /\ ("need" \in r.kinds => "msg" \notin r.kinds)
\* the acceptance sets are inhabited: the reference answers themselves are accepted by Judge
Inhabited == \A x \in AllIn : \A su \in BOOLEAN : LET r == Dec(su, x) IN
              /\ ("msg" \in r.kinds  => Judge(r, x, [out |-> "msg", m |-> [r.m EXCEPT !.ps = AsMap(r.m.ps)], rem |-> Drop(x, r.end)]) = "")
              /\ ("need" \in r.kinds => Judge(r, x, [out |-> "need", m |-> NoMsg, rem |-> x]) = "")
              /\ ("err" \in r.kinds  => Judge(r, x, [out |-> "err", m |-> NoMsg, rem |-> x]) = "")
              /\ Judge(r, x, [out |-> "panic", m |-> NoMsg, rem |-> x]) = "panic"
ASSUME RoundTrip
ASSUME PrefixNeed
ASSUME Bounded
ASSUME Inhabited
ASSUME PrintT(<<"COUNT", Family, Cardinality(AllIn), Cardinality(Scenarios)>>)

Init == dummy = 0
Next == UNCHANGED dummy
=============================================================================
