------------------------------ MODULE Engine ------------------------------
(***************************************************************************)
(* The database as a state machine (DESIGN.md 3.3).  One pure operator     *)
(* Apply(st, act) gives the complete effect of one public call; it is used *)
(*   - by MC_*.tla as the next-state relation (TLC enumerates histories    *)
(*     and checks the invariants / action properties below), and           *)
(*   - by TraceEngine.tla as the oracle for every recorded event.          *)
(* Every DML action has the shape  IF the statement's complete effect is   *)
(* defined THEN new state ELSE (err, unchanged state)  -- that shape is    *)
(* property C11; ROLLBACK / ROLLBACK TO restore snapshots (C13, C14);      *)
(* indexes, statistics, parallelism and storage back-ends are invisible    *)
(* (C02, C03, C04, C16): they change nothing an Apply result depends on.   *)
(***************************************************************************)
EXTENDS SqlSem

\* ---------- finite maps keyed by strings ----------
FnPut(f, k, v) == [x \in (DOMAIN f) \cup {k} |-> IF x = k THEN v ELSE f[x]]
FnDel(f, k)    == [x \in (DOMAIN f) \ {k} |-> f[x]]
Idxs(s)        == 1..Len(s)

\* ---------- state ----------
NoSnap == [tabs |-> <<>>, views |-> <<>>, idx |-> <<>>, trg |-> <<>>]
NoTxn  == [active |-> FALSE, snap |-> NoSnap, sps |-> <<>>]
NoSec  == [on |-> FALSE, role |-> "", roles |-> {}, grants |-> {}]
InitSt == [tabs |-> <<>>, views |-> <<>>, idx |-> <<>>, trg |-> <<>>, txn |-> NoTxn, sec |-> NoSec]
\* tabs[t]  = [cols |-> Seq([n, ty, nn, def]), pk |-> Seq(col), uqs |-> Seq(Seq(col)),
\*             checks |-> Seq([n, e]), fks |-> Seq([cols, rt, rcols, ondel, onupd]), rows |-> Seq(row)]
\* views[v] = [q, cols]         idx[i] = [t, cols |-> Seq([c, dir, plen]), uq]
\* trg      = Seq([n, t, timing, ev, ofcols, gran, when, body])
NoDef == [t |-> "none", n |-> 0, s |-> "", d |-> 1]

ColNames(T)   == [i \in Idxs(T.cols) |-> T.cols[i].n]
HasCol(T, c)  == \E i \in Idxs(T.cols) : T.cols[i].n = c
ColIdx(T, c)  == CHOOSE i \in Idxs(T.cols) : T.cols[i].n = c
KeyOf(T, cs, r) == [j \in Idxs(cs) |-> r[ColIdx(T, cs[j])]]
DbOf(st) == [tables |-> [t \in DOMAIN st.tabs |-> [cols |-> ColNames(st.tabs[t]), rows |-> st.tabs[t].rows]],
             views  |-> st.views]
RowEnv(t, T, r) == << [cols |-> [i \in Idxs(T.cols) |-> [q |-> t, c |-> T.cols[i].n]], row |-> r] >>

IsIntTy(ty) == ty \in {"INT", "INTEGER", "BIGINT", "SMALLINT"}
TypeOk(col, v) == IsNull(v) \/ (IsIntTy(col.ty) /\ v.t = "i" /\ v.d = 1) \/ (~IsIntTy(col.ty) /\ v.t = "s")

\* ---------- integrity of one table state (C10) ----------
HasNullKey(k) == \E j \in Idxs(k) : IsNull(k[j])
NoDupKeys(T, cs, rows) ==
   \A i, j \in Idxs(rows) : i < j =>
      LET a == KeyOf(T, cs, rows[i]) b == KeyOf(T, cs, rows[j]) IN HasNullKey(a) \/ HasNullKey(b) \/ ~RowEq(a, b)
PkOk(T, rows)   == T.pk = <<>> \/ ((\A i \in Idxs(rows) : ~HasNullKey(KeyOf(T, T.pk, rows[i]))) /\ NoDupKeys(T, T.pk, rows))
UqOk(T, rows)   == \A u \in Idxs(T.uqs) : NoDupKeys(T, T.uqs[u], rows)
NnOk(T, rows)   == \A i \in Idxs(rows) : \A c \in Idxs(T.cols) : T.cols[c].nn => ~IsNull(rows[i][c])
ChkOk(t, T, rows, db) == \A i \in Idxs(rows) : \A c \in Idxs(T.checks) :
                            LET v == Ev(T.checks[c].e, RowEnv(t, T, rows[i]), <<>>, db) IN v # FF /\ ~IsErr(v)
IdxKeyCols(ix) == [j \in Idxs(ix.cols) |-> ix.cols[j].c]
UIdxOk(st, t, T, rows) == \A i \in DOMAIN st.idx : (st.idx[i].t = t /\ st.idx[i].uq) => NoDupKeys(T, IdxKeyCols(st.idx[i]), rows)
TableOk(st, t, T, rows) == PkOk(T, rows) /\ UqOk(T, rows) /\ NnOk(T, rows) /\ ChkOk(t, T, rows, DbOf(st)) /\ UIdxOk(st, t, T, rows)
ConstraintsHold(st) == \A t \in DOMAIN st.tabs : TableOk(st, t, st.tabs[t], st.tabs[t].rows)

\* ---------- referential integrity (C12) ----------
FkRowOk(st, T, fk, r) ==
   LET k == KeyOf(T, fk.cols, r) IN
   HasNullKey(k) \/ (fk.rt \in DOMAIN st.tabs /\
                     \E p \in Idxs(st.tabs[fk.rt].rows) : RowEq(KeyOf(st.tabs[fk.rt], fk.rcols, st.tabs[fk.rt].rows[p]), k))
FKHold(st) == \A t \in DOMAIN st.tabs : \A f \in Idxs(st.tabs[t].fks) : \A i \in Idxs(st.tabs[t].rows) :
                 FkRowOk(st, st.tabs[t], st.tabs[t].fks[f], st.tabs[t].rows[i])
\* children of table p: set of <<child table, fk index>>
Refs(st, p) == { x \in (DOMAIN st.tabs) \X (1..4) : x[2] \in Idxs(st.tabs[x[1]].fks) /\ st.tabs[x[1]].fks[x[2]].rt = p }

\* ---------- results ----------
\* alt = "err": rejecting the statement (database unchanged) is conforming as well -- used where SQL leaves the
\* moment of a check open (NO ACTION checked at the end of the statement vs. immediately)
\* alt = "ok": accepting the statement as a no-op (0 rows, database unchanged) is conforming as well -- used where
\* the error would only be found by evaluating an expression that the implementation never needs to evaluate
\* (an unknown column in the WHERE / SET clause of an UPDATE or DELETE that selects no row)
\* aff = the affected rows of a successful DML statement as pairs [old, new] (<<>> where there is no such image):
\* what row-level triggers fire on (C34)
\* altst = a second conforming post-state, where a definition leaves two readings open (UPDATE OF: "the statement
\* assigns the column" vs "the column's value changes"); NoAlt when there is none
NoAlt == [none |-> TRUE]
Res(out, st, cnt) == [out |-> out, st |-> st, cnt |-> cnt, alt |-> "", aff |-> <<>>, altst |-> NoAlt]
Fail(st)   == Res("err", st, 0)
Ok(st, n)  == Res("ok", st, n)
SetRows(st, t, rows) == [st EXCEPT !.tabs[t].rows = rows]

\* ---------- DELETE with referential actions ----------
\* Removing the rows at positions `dead` of table t: returns [ok, st].  Cascades recurse; depth is
\* bounded by `fuel` (chains in the models are short; self-references terminate because rows vanish).
RECURSIVE DeleteRows(_,_,_,_)
DeleteRows(st, t, dead, fuel) ==
   LET T == st.tabs[t]
       gone == { KeyOf(T, ColNames(T), T.rows[i]) : i \in dead }      \* not used for matching, only emptiness
       keep == SelectSeq([i \in Idxs(T.rows) |-> i], LAMBDA i : i \notin dead)
       st1  == SetRows(st, t, [k \in Idxs(keep) |-> T.rows[keep[k]]])
       refs == Refs(st, t)
       \* child rows (positions in the *current* child table of st1) that reference a deleted parent row
       \* and no surviving parent row
       hit(x) == LET C == st1.tabs[x[1]] fk == C.fks[x[2]] P == st1.tabs[t] IN
                 { c \in Idxs(C.rows) :
                     LET k == KeyOf(C, fk.cols, C.rows[c]) IN
                     ~HasNullKey(k)
                     /\ (\E i \in dead : RowEq(KeyOf(T, fk.rcols, T.rows[i]), k))
                     /\ ~(\E p \in Idxs(P.rows) : RowEq(KeyOf(P, fk.rcols, P.rows[p]), k)) }
       RECURSIVE Go(_,_)
       Go(s, todo) ==
          IF todo = {} THEN [ok |-> TRUE, st |-> s] ELSE
          LET x == CHOOSE x \in todo : TRUE
              C == s.tabs[x[1]] fk == C.fks[x[2]]
              h == LET P == s.tabs[t] IN
                   { c \in Idxs(C.rows) :
                       LET k == KeyOf(C, fk.cols, C.rows[c]) IN
                       ~HasNullKey(k)
                       /\ (\E i \in dead : RowEq(KeyOf(T, fk.rcols, T.rows[i]), k))
                       /\ ~(\E p \in Idxs(P.rows) : RowEq(KeyOf(P, fk.rcols, P.rows[p]), k)) }
          IN IF h = {} THEN Go(s, todo \ {x})
             ELSE IF fk.ondel = "cascade" THEN
                     IF fuel = 0 THEN [ok |-> FALSE, st |-> s] ELSE
                     LET r == DeleteRows(s, x[1], h, fuel - 1) IN
                     IF r.ok THEN Go(r.st, todo \ {x}) ELSE [ok |-> FALSE, st |-> s]
             ELSE IF fk.ondel = "setnull" THEN
                     LET nulled(row) == [j \in Idxs(row) |-> IF \E q \in Idxs(fk.cols) : ColIdx(C, fk.cols[q]) = j THEN NULL ELSE row[j]]
                         rows2 == [c \in Idxs(C.rows) |-> IF c \in h THEN nulled(C.rows[c]) ELSE C.rows[c]]
                     IN IF NnOk(C, rows2) THEN Go(SetRows(s, x[1], rows2), todo \ {x}) ELSE [ok |-> FALSE, st |-> s]
             ELSE [ok |-> FALSE, st |-> s]          \* restrict / no action
   IN Go(st1, refs)

\* ---------- INSERT ----------
BuildRow(st, t, T, acols, exprs) ==
   [i \in Idxs(T.cols) |->
      IF acols = <<>> THEN Ev(exprs[i], <<>>, <<>>, DbOf(st))
      ELSE IF \E j \in Idxs(acols) : acols[j] = T.cols[i].n
           THEN Ev(exprs[CHOOSE j \in Idxs(acols) : acols[j] = T.cols[i].n], <<>>, <<>>, DbOf(st))
           ELSE IF T.cols[i].def.t = "none" THEN NULL ELSE T.cols[i].def]
RowsWellTyped(T, rows) == \A i \in Idxs(rows) : \A c \in Idxs(T.cols) : ~IsErr(rows[i][c]) /\ TypeOk(T.cols[c], rows[i][c])
\* append `news` to table t; defined iff every constraint holds afterwards
InsertRows(st, t, news) ==
   LET T == st.tabs[t] all == T.rows \o news st2 == SetRows(st, t, all) IN
   IF RowsWellTyped(T, news) /\ TableOk(st2, t, T, all)
      /\ (\A f \in Idxs(T.fks) : \A i \in Idxs(news) : FkRowOk(st2, T, T.fks[f], news[i]))
   THEN [ok |-> TRUE, st |-> st2] ELSE [ok |-> FALSE, st |-> st]

\* ---------- INSERT variants that resolve key conflicts: REPLACE INTO and INSERT ... ON DUPLICATE KEY UPDATE ----------
\* The rows of the statement are handled one after the other against the table as the earlier rows left it.  A row
\* CONFLICTS with the stored rows that equal it on the primary key or on a UNIQUE constraint whose key has no NULL.
\*   REPLACE: the conflicting rows are deleted (as by DELETE), then the row is inserted.
\*   ON DUPLICATE KEY UPDATE: without a conflict the row is inserted; with one, the conflicting row is updated by the
\*   assignments instead - a column reference means the stored row, VALUES(c) (kind "dkv") the row that was to be inserted.
\*   A row that conflicts with several stored rows is left open ("unmodelled": dialects pick different ones).
\* Every constraint must hold after each row; if any row fails the whole statement fails and changes nothing.  The
\* affected-row count is dialect business (MySQL counts a replaced row twice): cnt = -1 means "any".
ConflictsWith(T, r) ==
   LET keys == (IF T.pk = <<>> THEN {} ELSE {T.pk}) \cup Range(T.uqs) IN
   { i \in Idxs(T.rows) : \E k \in keys : ~HasNullKey(KeyOf(T, k, r)) /\ RowEq(KeyOf(T, k, T.rows[i]), KeyOf(T, k, r)) }
RECURSIVE Dkv(_,_,_)
Dkv(e, T, r) == IF e.k = "dkv" THEN Lit(r[ColIdx(T, e.c)])
                ELSE IF e.k = "arith" THEN [e EXCEPT !.l = Dkv(e.l, T, r), !.r = Dkv(e.r, T, r)] ELSE e
RECURSIVE UpsertGo(_,_,_,_)
UpsertGo(st, a, news, i) ==
   IF i > Len(news) THEN [out |-> "ok", st |-> st] ELSE
   LET T == st.tabs[a.t] r == news[i] conf == ConflictsWith(T, r)
       ins(s) == LET x == InsertRows(s, a.t, <<r>>) IN IF x.ok THEN UpsertGo(x.st, a, news, i + 1) ELSE [out |-> "err", st |-> st]
   IN IF conf = {} THEN ins(st)
      ELSE IF a.mode = "replace" THEN
           LET d == DeleteRows(st, a.t, conf, 3) IN IF d.ok THEN ins(d.st) ELSE [out |-> "err", st |-> st]
      ELSE IF Cardinality(conf) > 1 THEN [out |-> "unmodelled", st |-> st]
      ELSE LET p == CHOOSE p \in conf : TRUE
               old == T.rows[p]
               new == [c \in Idxs(T.cols) |->
                         IF \E j \in Idxs(a.set) : a.set[j].c = T.cols[c].n
                         THEN Ev(Dkv(a.set[CHOOSE j \in Idxs(a.set) : a.set[j].c = T.cols[c].n].e, T, r), RowEnv(a.t, T, old), <<>>, DbOf(st))
                         ELSE old[c]]
               rows2 == [T.rows EXCEPT ![p] = new]
               st2 == SetRows(st, a.t, rows2)
           IN IF (\E j \in Idxs(a.set) : ~HasCol(T, a.set[j].c)) THEN [out |-> "err", st |-> st]
              ELSE IF RowsWellTyped(T, <<new>>) /\ TableOk(st2, a.t, T, rows2)
                      /\ (\A f \in Idxs(T.fks) : FkRowOk(st2, T, T.fks[f], new))
                      \* (a changed key that other tables reference is outside this model)
                      /\ ~(\E x \in Refs(st, a.t) : TRUE)
                   THEN UpsertGo(st2, a, news, i + 1) ELSE [out |-> "err", st |-> st]
DoUpsert(st, a, news) ==
   IF \E i \in Idxs(st.trg) : st.trg[i].t = a.t THEN Res("unmodelled", st, 0) ELSE
   LET r == UpsertGo(st, a, news, 1) IN
   IF r.out = "ok" THEN Ok(r.st, -1) ELSE IF r.out = "err" THEN Fail(st) ELSE Res("unmodelled", st, 0)

DoInsert(st, a) ==
   IF a.t \notin DOMAIN st.tabs THEN Fail(st) ELSE
   LET T == st.tabs[a.t]
       arity == IF a.cols = <<>> THEN Len(T.cols) ELSE Len(a.cols) IN
   IF (\E i \in Idxs(a.rows) : Len(a.rows[i]) # arity) \/ (\E j \in Idxs(a.cols) : ~HasCol(T, a.cols[j])) THEN Fail(st) ELSE
   LET news == [i \in Idxs(a.rows) |-> BuildRow(st, a.t, T, a.cols, a.rows[i])]
       r == InsertRows(st, a.t, news)
   IN IF "mode" \in DOMAIN a /\ a.mode \in {"replace", "odku"}
      THEN (IF RowsWellTyped(T, news) THEN DoUpsert(st, a, news) ELSE Fail(st))
      ELSE
      IF r.ok THEN [Ok(r.st, Len(news)) EXCEPT !.aff = [i \in Idxs(news) |-> [old |-> <<>>, new |-> news[i]]]] ELSE Fail(st)

DoInsertSelect(st, a) ==
   IF a.t \notin DOMAIN st.tabs THEN Fail(st) ELSE
   LET T == st.tabs[a.t] R == EvalQ(a.q, DbOf(st), <<>>)
       arity == IF a.cols = <<>> THEN Len(T.cols) ELSE Len(a.cols) IN
   IF R.err \/ Len(R.names) # arity \/ (\E j \in Idxs(a.cols) : ~HasCol(T, a.cols[j])) THEN Fail(st) ELSE
   LET news == [i \in Idxs(R.rows) |-> BuildRow(st, a.t, T, a.cols, [j \in Idxs(R.rows[i]) |-> Lit(R.rows[i][j])])]
       r == InsertRows(st, a.t, news)
   IN IF r.ok THEN [Ok(r.st, Len(news)) EXCEPT !.aff = [i \in Idxs(news) |-> [old |-> <<>>, new |-> news[i]]]] ELSE Fail(st)

\* ---------- referential actions of UPDATE on a referenced (parent) table ----------
\* st2: the state with the parent rows already replaced by rows2; st0: the state before the statement.
\* A child row whose non-NULL foreign key k equals the OLD referenced key of a selected parent row whose
\* referenced key changes is "hit": ON UPDATE CASCADE rewrites its foreign-key columns to the new key, SET NULL
\* nulls them, RESTRICT / NO ACTION make the statement fail.  Left open ("unmodelled"): key hand-overs inside one
\* statement (another parent row takes over the old key), self-references, and propagation to grandchildren.
RECURSIVE UpdCascadeGo(_,_,_,_,_,_)
UpdCascadeGo(s, st0, t, sel, rows2, todo) ==
   IF todo = {} THEN [out |-> "ok", st |-> s] ELSE
   LET x  == CHOOSE y \in todo : TRUE
       T  == st0.tabs[t]
       C  == s.tabs[x[1]]
       fk == C.fks[x[2]]
       oldKey(i) == KeyOf(T, fk.rcols, T.rows[i])
       newKey(i) == KeyOf(T, fk.rcols, rows2[i])
       movers(k) == { i \in sel : RowEq(oldKey(i), k) /\ ~RowEq(newKey(i), k) }
       hit == { c \in Idxs(C.rows) : LET k == KeyOf(C, fk.cols, C.rows[c]) IN ~HasNullKey(k) /\ movers(k) # {} }
       stillThere(k) == \E p \in Idxs(rows2) : RowEq(KeyOf(T, fk.rcols, rows2[p]), k)
       fkPos(j) == \E q \in Idxs(fk.cols) : ColIdx(C, fk.cols[q]) = j
       fkQ(j) == CHOOSE q \in Idxs(fk.cols) : ColIdx(C, fk.cols[q]) = j
       newChild(c) == LET k == KeyOf(C, fk.cols, C.rows[c]) i == CHOOSE i \in movers(k) : TRUE IN
                      [j \in Idxs(C.rows[c]) |-> IF ~fkPos(j) THEN C.rows[c][j]
                                                  ELSE IF fk.onupd = "cascade" THEN newKey(i)[fkQ(j)] ELSE NULL]
       rows3 == [c \in Idxs(C.rows) |-> IF c \in hit THEN newChild(c) ELSE C.rows[c]]
       s3 == SetRows(s, x[1], rows3)
       grand == \E y \in Refs(s, x[1]) : \E q \in Idxs(fk.cols) : \E r \in Idxs(s.tabs[y[1]].fks[y[2]].rcols) :
                   s.tabs[y[1]].fks[y[2]].rcols[r] = fk.cols[q]
   IN IF hit = {} THEN UpdCascadeGo(s, st0, t, sel, rows2, todo \ {x})
      ELSE IF x[1] = t THEN [out |-> "unmodelled", st |-> s]
      ELSE IF \E c \in hit : stillThere(KeyOf(C, fk.cols, C.rows[c])) THEN [out |-> "unmodelled", st |-> s]
      ELSE IF fk.onupd \notin {"cascade", "setnull"} THEN [out |-> "err", st |-> s]
      ELSE IF grand THEN [out |-> "unmodelled", st |-> s]
      ELSE IF ~TableOk(s3, x[1], C, rows3) THEN [out |-> "err", st |-> s]
      ELSE UpdCascadeGo(s3, st0, t, sel, rows2, todo \ {x})
UpdCascade(st2, st0, t, sel, rows2, refs) == UpdCascadeGo(st2, st0, t, sel, rows2, refs)

\* ---------- UPDATE ----------
Selected(st, t, w) == LET T == st.tabs[t] IN
   { i \in Idxs(T.rows) : w.k = "none" \/ Truth(Ev(w, RowEnv(t, T, T.rows[i]), <<>>, DbOf(st))) }
WhereErr(st, t, w) == LET T == st.tabs[t] IN
   w.k # "none" /\ \E i \in Idxs(T.rows) : IsErr(Ev(w, RowEnv(t, T, T.rows[i]), <<>>, DbOf(st)))
DoUpdate(st, a) ==
   IF a.t \notin DOMAIN st.tabs THEN Fail(st) ELSE
   LET T == st.tabs[a.t] IN
   IF WhereErr(st, a.t, a.w) THEN [Fail(st) EXCEPT !.alt = "ok"] ELSE
   IF \E j \in Idxs(a.set) : ~HasCol(T, a.set[j].c) THEN [Fail(st) EXCEPT !.alt = IF Selected(st, a.t, a.w) = {} THEN "ok" ELSE ""] ELSE
   LET sel == Selected(st, a.t, a.w)
       newRow(r) == [c \in Idxs(T.cols) |->
                       IF \E j \in Idxs(a.set) : a.set[j].c = T.cols[c].n
                       THEN Ev(a.set[CHOOSE j \in Idxs(a.set) : a.set[j].c = T.cols[c].n].e, RowEnv(a.t, T, r), <<>>, DbOf(st))
                       ELSE r[c]]
       rows2 == [i \in Idxs(T.rows) |-> IF i \in sel THEN newRow(T.rows[i]) ELSE T.rows[i]]
       st2 == SetRows(st, a.t, rows2)
       changed == { i \in sel : ~RowEq(rows2[i], T.rows[i]) }
       \* parent side: rows whose referenced key changed while children still reference the old key
       refs == Refs(st, a.t)
       orphaned(x) == LET C == st2.tabs[x[1]] fk == C.fks[x[2]] P == st2.tabs[a.t] IN
            { c \in Idxs(C.rows) : LET k == KeyOf(C, fk.cols, C.rows[c]) IN
                 ~HasNullKey(k) /\ ~(\E p \in Idxs(P.rows) : RowEq(KeyOf(P, fk.rcols, P.rows[p]), k)) }
       casc == UpdCascade(st2, st, a.t, sel, rows2, refs)
       \* the final state is fine but a row's new key equals the OLD key of another row changed by the same statement
       \* (SET ID = ID + 1 over consecutive keys): legal under end-of-statement checking, refused under row-by-row checking
       keySets == (IF T.pk = <<>> THEN {} ELSE {T.pk}) \cup Range(T.uqs)
                  \cup { IdxKeyCols(st.idx[i]) : i \in { i \in DOMAIN st.idx : st.idx[i].t = a.t /\ st.idx[i].uq } }
       transient == \E cs \in keySets : \E i, j \in sel : i # j /\ ~HasNullKey(KeyOf(T, cs, rows2[i]))
                       /\ RowEq(KeyOf(T, cs, rows2[i]), KeyOf(T, cs, T.rows[j])) /\ ~RowEq(KeyOf(T, cs, rows2[j]), KeyOf(T, cs, T.rows[j]))
   IN IF ~RowsWellTyped(T, [k \in Idxs(SetToSeq(sel)) |-> rows2[SetToSeq(sel)[k]]]) THEN Fail(st)
      ELSE IF ~TableOk(st2, a.t, T, rows2) THEN Fail(st)
      ELSE IF \E f \in Idxs(T.fks) : \E i \in sel : ~FkRowOk(st2, T, T.fks[f], rows2[i]) THEN Fail(st)
      ELSE IF casc.out = "unmodelled" THEN Res("unmodelled", st, 0)
      ELSE IF casc.out = "err" THEN Fail(st)
      ELSE [Ok(casc.st, Cardinality(sel)) EXCEPT !.alt = IF transient THEN "err" ELSE "",
                                                 !.aff = [k \in Idxs(SetToSeq(sel)) |-> [old |-> T.rows[SetToSeq(sel)[k]], new |-> rows2[SetToSeq(sel)[k]]]]]

\* ---------- DELETE / TRUNCATE ----------
DoDelete(st, a) ==
   IF a.t \notin DOMAIN st.tabs THEN Fail(st) ELSE
   IF WhereErr(st, a.t, a.w) THEN [Fail(st) EXCEPT !.alt = "ok"] ELSE
   LET sel == Selected(st, a.t, a.w)
       r == DeleteRows(st, a.t, sel, 3)
       T == st.tabs[a.t]
       \* a RESTRICT / NO ACTION reference to a row being deleted that exists when the statement starts: if the
       \* referencing row is removed by the same statement the end-of-statement check passes, an immediate one fails
       immediateHit == \E x \in Refs(st, a.t) :
                          LET C == st.tabs[x[1]] fk == C.fks[x[2]] IN
                          /\ fk.ondel \notin {"cascade", "setnull"}
                          /\ \E c \in Idxs(C.rows) : LET k == KeyOf(C, fk.cols, C.rows[c]) IN
                                ~HasNullKey(k) /\ \E i \in sel : RowEq(KeyOf(T, fk.rcols, T.rows[i]), k)
   IN IF r.ok THEN [Ok(r.st, Cardinality(sel)) EXCEPT !.alt = IF immediateHit THEN "err" ELSE "",
                                                      !.aff = [k \in Idxs(SetToSeq(sel)) |-> [old |-> T.rows[SetToSeq(sel)[k]], new |-> <<>>]]]
      ELSE Fail(st)

DoTruncate(st, a) ==
   IF a.t \notin DOMAIN st.tabs THEN Fail(st) ELSE
   \* TRUNCATE is refused while another table's foreign key references this one
   IF \E x \in Refs(st, a.t) : x[1] # a.t THEN Fail(st)
   \* ... and while the table has DELETE triggers (they would have to fire per row)
   ELSE IF \E i \in Idxs(st.trg) : st.trg[i].t = a.t /\ st.trg[i].ev = "del" THEN Fail(st)
   ELSE Ok(SetRows(st, a.t, <<>>), Len(st.tabs[a.t].rows))

\* ---------- DDL ----------
DoCreateTable(st, a) ==
   IF a.t \in DOMAIN st.tabs \/ a.t \in DOMAIN st.views THEN Fail(st) ELSE
   LET pkFlag == SelectSeq([i \in Idxs(a.cols) |-> a.cols[i]], LAMBDA c : c.pk)
       pk  == IF a.pk # <<>> THEN a.pk ELSE [i \in Idxs(pkFlag) |-> pkFlag[i].n]
       uqFlag == SelectSeq([i \in Idxs(a.cols) |-> a.cols[i]], LAMBDA c : c.uq)
       uqs == [i \in Idxs(uqFlag) |-> <<uqFlag[i].n>>] \o a.uqs
       cols == [i \in Idxs(a.cols) |-> [n |-> a.cols[i].n, ty |-> a.cols[i].ty,
                                         nn |-> a.cols[i].nn \/ (\E j \in Idxs(pk) : pk[j] = a.cols[i].n), def |-> a.cols[i].def]]
       T == [cols |-> cols, pk |-> pk, uqs |-> uqs, checks |-> [i \in Idxs(a.checks) |-> [n |-> "", e |-> a.checks[i]]],
             fks |-> a.fks, rows |-> <<>>]
       fkOk == \A f \in Idxs(a.fks) : a.fks[f].rt = a.t \/ a.fks[f].rt \in DOMAIN st.tabs
   IN IF fkOk THEN Ok([st EXCEPT !.tabs = FnPut(st.tabs, a.t, T)], 0) ELSE Fail(st)

DoDropTable(st, a) ==
   IF a.t \notin DOMAIN st.tabs THEN Fail(st) ELSE
   IF \E x \in Refs(st, a.t) : x[1] # a.t THEN Res("unmodelled", st, 0)      \* DROP of a referenced parent: RESTRICT vs CASCADE left open
   ELSE Ok([st EXCEPT !.tabs = FnDel(st.tabs, a.t),
                      !.idx  = [i \in { i \in DOMAIN st.idx : st.idx[i].t # a.t } |-> st.idx[i]],
                      !.trg  = SelectSeq(st.trg, LAMBDA g : g.t # a.t)], 0)

DoCreateIndex(st, a) ==
   IF a.n \in DOMAIN st.idx \/ a.t \notin DOMAIN st.tabs THEN Fail(st) ELSE
   LET T == st.tabs[a.t] IN
   IF \E j \in Idxs(a.cols) : ~HasCol(T, a.cols[j].c) THEN Fail(st) ELSE
   LET ix == [t |-> a.t, cols |-> a.cols, uq |-> a.uq] IN
   IF a.uq /\ ~NoDupKeys(T, IdxKeyCols(ix), T.rows) THEN Fail(st)
   ELSE Ok([st EXCEPT !.idx = FnPut(st.idx, a.n, ix)], 0)
DoDropIndex(st, a) == IF a.n \in DOMAIN st.idx THEN Ok([st EXCEPT !.idx = FnDel(st.idx, a.n)], 0) ELSE Fail(st)

\* ---------- ALTER TABLE ... ADD / DROP / CHANGE COLUMN (C33) ----------
\* Retained columns keep their data; a new column holds its default (or NULL) in every existing row.
UsesCol(ix, c) == \E j \in Idxs(ix.cols) : ix.cols[j].c = c
ColInConstraint(st, t, c) ==
   LET T == st.tabs[t] IN
   \/ \E j \in Idxs(T.pk) : T.pk[j] = c
   \/ \E u \in Idxs(T.uqs) : \E j \in Idxs(T.uqs[u]) : T.uqs[u][j] = c
   \/ T.checks # <<>>
   \/ \E f \in Idxs(T.fks) : \E j \in Idxs(T.fks[f].cols) : T.fks[f].cols[j] = c
   \/ \E x \in Refs(st, t) : \E j \in Idxs(st.tabs[x[1]].fks[x[2]].rcols) : st.tabs[x[1]].fks[x[2]].rcols[j] = c
DoAddCol(st, a) ==
   IF a.t \notin DOMAIN st.tabs THEN Fail(st) ELSE
   LET T == st.tabs[a.t] IN
   IF HasCol(T, a.col.n) THEN Fail(st) ELSE
   LET v == IF a.col.def.t = "none" THEN NULL ELSE a.col.def
       T2 == [T EXCEPT !.cols = Append(@, [n |-> a.col.n, ty |-> a.col.ty, nn |-> FALSE, def |-> a.col.def]),
                       !.rows = [i \in Idxs(T.rows) |-> Append(T.rows[i], v)]]
   IN Ok([st EXCEPT !.tabs[a.t] = T2], 0)
\* indexes that use the column go with it; refusing the statement because of them is conforming as well
DoDropCol(st, a) ==
   IF a.t \notin DOMAIN st.tabs THEN Fail(st) ELSE
   LET T == st.tabs[a.t] IN
   IF ~HasCol(T, a.c) \/ Len(T.cols) <= 1 \/ (\E j \in Idxs(T.pk) : T.pk[j] = a.c) THEN Fail(st) ELSE
   IF ColInConstraint(st, a.t, a.c) THEN Res("unmodelled", st, 0) ELSE
   LET k == ColIdx(T, a.c)
       cut(sq) == SubSeq(sq, 1, k - 1) \o SubSeq(sq, k + 1, Len(sq))
       T2 == [T EXCEPT !.cols = cut(@), !.rows = [i \in Idxs(T.rows) |-> cut(T.rows[i])]]
       hit == { i \in DOMAIN st.idx : st.idx[i].t = a.t /\ UsesCol(st.idx[i], a.c) }
   IN [Ok([st EXCEPT !.tabs[a.t] = T2, !.idx = [i \in (DOMAIN st.idx) \ hit |-> st.idx[i]]], 0) EXCEPT !.alt = IF hit = {} THEN "" ELSE "err"]
\* CHANGE COLUMN old new <same type>: a rename; indexes follow the new name (or the statement is refused because of them)
DoRenCol(st, a) ==
   IF a.t \notin DOMAIN st.tabs THEN Fail(st) ELSE
   LET T == st.tabs[a.t] IN
   IF ~HasCol(T, a.c) \/ (a.to # a.c /\ HasCol(T, a.to)) THEN Fail(st) ELSE
   IF ColInConstraint(st, a.t, a.c) THEN Res("unmodelled", st, 0) ELSE
   LET k == ColIdx(T, a.c)
       T2 == [T EXCEPT !.cols[k].n = a.to]
       hit == { i \in DOMAIN st.idx : st.idx[i].t = a.t /\ UsesCol(st.idx[i], a.c) }
       ren(ix) == [ix EXCEPT !.cols = [j \in Idxs(ix.cols) |-> IF ix.cols[j].c = a.c THEN [ix.cols[j] EXCEPT !.c = a.to] ELSE ix.cols[j]]]
   IN [Ok([st EXCEPT !.tabs[a.t] = T2, !.idx = [i \in DOMAIN st.idx |-> IF i \in hit THEN ren(st.idx[i]) ELSE st.idx[i]]], 0)
          EXCEPT !.alt = IF hit = {} THEN "" ELSE "err"]

\* ALTER TABLE t ADD CONSTRAINT n FOREIGN KEY ...: accepted iff the existing rows already satisfy it
DoAddFk(st, a) ==
   IF a.t \notin DOMAIN st.tabs \/ a.fk.rt \notin DOMAIN st.tabs THEN Fail(st) ELSE
   LET T == st.tabs[a.t] IN
   IF (\E j \in Idxs(a.fk.cols) : ~HasCol(T, a.fk.cols[j])) \/ (\E j \in Idxs(a.fk.rcols) : ~HasCol(st.tabs[a.fk.rt], a.fk.rcols[j])) THEN Fail(st) ELSE
   LET st2 == [st EXCEPT !.tabs[a.t].fks = Append(@, a.fk)] IN
   IF \A i \in Idxs(T.rows) : FkRowOk(st2, T, a.fk, T.rows[i]) THEN Ok(st2, 0) ELSE Fail(st)

DoCreateView(st, a) ==
   IF a.n \in DOMAIN st.views \/ a.n \in DOMAIN st.tabs THEN Fail(st)
   ELSE Ok([st EXCEPT !.views = FnPut(st.views, a.n, [q |-> a.q, cols |-> a.cols])], 0)
DoDropView(st, a) == IF a.n \in DOMAIN st.views THEN Ok([st EXCEPT !.views = FnDel(st.views, a.n)], 0) ELSE Fail(st)

\* ---------- triggers (C34) ----------
\* trg = Seq([n, t, timing ("before"|"after"), ev ("ins"|"upd"|"del"), ofcols, gran ("row"|"stmt"), when, body])
\* body = [k |-> "audit", into, tag]: INSERT INTO into VALUES (tag, OLD.c1, OLD.c2, NEW.c1, NEW.c2) (NULL where no image)
\*      | [k |-> "chk", into, src]  : INSERT INTO into VALUES (src.c2)   with src = "new" | "old"  (fails when into's CHECK does)
\* Trigger bodies write to other tables than the one the statement runs on, so the final state does not depend on how the
\* firings are interleaved with the row changes: it is the statement's own effect plus one body execution per firing.
\* A firing that fails makes the whole statement fail: nothing changes, neither the table nor the audit tables (C11).
DoCreateTrigger(st, a) ==
   IF a.t \notin DOMAIN st.tabs \/ (\E i \in Idxs(st.trg) : st.trg[i].n = a.n) THEN Fail(st)
   ELSE Ok([st EXCEPT !.trg = Append(@, [n |-> a.n, t |-> a.t, timing |-> a.timing, ev |-> a.ev, ofcols |-> a.ofcols, gran |-> a.gran,
                                         when |-> a.when, body |-> a.body])], 0)
DoDropTrigger(st, a) == IF \E i \in Idxs(st.trg) : st.trg[i].n = a.n THEN Ok([st EXCEPT !.trg = SelectSeq(@, LAMBDA g : g.n # a.n)], 0) ELSE Fail(st)
Img(r, k) == IF r = <<>> THEN NULL ELSE r[k]
TrgEnv(T, old, new) ==
   LET nul == [i \in Idxs(T.cols) |-> NULL]
       o == IF old = <<>> THEN nul ELSE old
       w == IF new = <<>> THEN nul ELSE new
   IN << [cols |-> [i \in Idxs(T.cols) |-> [q |-> "OLD", c |-> T.cols[i].n]] \o [i \in Idxs(T.cols) |-> [q |-> "NEW", c |-> T.cols[i].n]],
          row |-> o \o w] >>
\* one firing: [ok, st]
FireOne(s, g, T, old, new) ==
   IF g.gran = "row" /\ g.when.k # "none" /\ ~Truth(Ev(g.when, TrgEnv(T, old, new), <<>>, DbOf(s))) THEN [ok |-> TRUE, st |-> s]
   ELSE IF g.body.into \notin DOMAIN s.tabs THEN [ok |-> FALSE, st |-> s]
   ELSE LET row == IF g.body.k = "audit" THEN << S(g.body.tag), Img(old, 1), Img(old, 2), Img(new, 1), Img(new, 2) >>
                   ELSE << Img(IF g.body.src = "new" THEN new ELSE old, 2) >>
        IN InsertRows(s, g.body.into, << row >>)
\* an UPDATE OF trigger fires only when the statement assigns one of its columns
OfMatches(g, a) == g.ev # "upd" \/ g.ofcols = <<>> \/ (\E j \in Idxs(g.ofcols) : \E k \in Idxs(a.set) : a.set[k].c = g.ofcols[j])
RECURSIVE FireAll(_,_,_,_)
\* todo = sequence of [g, old, new]
FireAll(s, T, todo, k) ==
   IF k > Len(todo) THEN [ok |-> TRUE, st |-> s]
   ELSE LET r == FireOne(s, todo[k].g, T, todo[k].old, todo[k].new) IN
        IF r.ok THEN FireAll(r.st, T, todo, k + 1) ELSE [ok |-> FALSE, st |-> s]
EvOf(a) == IF a.a \in {"ins", "inssel"} THEN "ins" ELSE a.a
WithTriggers(st, a, r) ==
   IF r.out # "ok" \/ a.t \notin DOMAIN st.tabs THEN r ELSE
   LET mine == SelectSeq(st.trg, LAMBDA g : g.t = a.t /\ g.ev = EvOf(a) /\ OfMatches(g, a)) IN
   IF mine = <<>> THEN r ELSE
   LET T == st.tabs[a.t]
       stmtG == SelectSeq(mine, LAMBDA g : g.gran = "stmt")
       rowG  == SelectSeq(mine, LAMBDA g : g.gran = "row")
       stmtTodo == [i \in Idxs(stmtG) |-> [g |-> stmtG[i], old |-> <<>>, new |-> <<>>]]
       \* every row-level trigger once per affected row
       rowTodo == [n \in 1..(Len(rowG) * Len(r.aff)) |->
                     LET gi == ((n - 1) % Len(rowG)) + 1 ri == ((n - 1) \div Len(rowG)) + 1
                     IN [g |-> rowG[gi], old |-> r.aff[ri].old, new |-> r.aff[ri].new]]
       f == FireAll(r.st, T, stmtTodo \o rowTodo, 1)
       \* second reading of UPDATE OF: the trigger fires only for rows in which one of its columns changes value
       changedOf(x) == x.g.ofcols = <<>> \/ \E j \in Idxs(x.g.ofcols) : ~GroupEq(x.old[ColIdx(T, x.g.ofcols[j])], x.new[ColIdx(T, x.g.ofcols[j])])
       rowTodo2 == SelectSeq(rowTodo, changedOf)
       f2 == FireAll(r.st, T, stmtTodo \o rowTodo2, 1)
   IN IF rowTodo2 = rowTodo THEN (IF f.ok THEN [r EXCEPT !.st = f.st] ELSE Fail(st))
      ELSE IF f.ok /\ f2.ok THEN [r EXCEPT !.st = f.st, !.altst = f2.st]
      ELSE IF ~f.ok /\ ~f2.ok THEN Fail(st)
      ELSE Res("unmodelled", st, 0)

\* ---------- transactions (C13, C14) ----------
SnapOf(st) == [tabs |-> st.tabs, views |-> st.views, idx |-> st.idx, trg |-> st.trg]
SpExists(st, n) == \E i \in Idxs(st.txn.sps) : st.txn.sps[i].name = n
SpPos(st, n) == CHOOSE i \in Idxs(st.txn.sps) : st.txn.sps[i].name = n /\ \A j \in Idxs(st.txn.sps) : st.txn.sps[j].name = n => i <= j
DoBegin(st)    == IF st.txn.active THEN Fail(st) ELSE Ok([st EXCEPT !.txn = [active |-> TRUE, snap |-> SnapOf(st), sps |-> <<>>]], 0)
DoCommit(st)   == IF st.txn.active THEN Ok([st EXCEPT !.txn = NoTxn], 0) ELSE Fail(st)
DoRollback(st) == IF st.txn.active
                  THEN Ok([st EXCEPT !.tabs = st.txn.snap.tabs, !.views = st.txn.snap.views, !.idx = st.txn.snap.idx,
                                     !.trg = st.txn.snap.trg, !.txn = NoTxn], 0)
                  ELSE Fail(st)
DoSavepoint(st, a) == IF st.txn.active THEN Ok([st EXCEPT !.txn.sps = Append(@, [name |-> a.n, tabs |-> st.tabs])], 0) ELSE Fail(st)
DoRollTo(st, a) ==
   IF st.txn.active /\ SpExists(st, a.n) THEN
      LET p == SpPos(st, a.n) sp == st.txn.sps[p] IN
      Ok([st EXCEPT !.tabs = [t \in DOMAIN st.tabs |-> IF t \in DOMAIN sp.tabs THEN [st.tabs[t] EXCEPT !.rows = sp.tabs[t].rows] ELSE st.tabs[t]],
                    !.txn.sps = SubSeq(@, 1, p)], 0)
   ELSE Fail(st)
DoRelease(st, a) ==
   IF st.txn.active /\ SpExists(st, a.n) THEN
      LET p == SpPos(st, a.n) IN Ok([st EXCEPT !.txn.sps = SubSeq(@, 1, p-1) \o SubSeq(@, p+1, Len(@))], 0)
   ELSE Fail(st)

\* ---------- queries ----------
DoQuery(st, a) == IF EvalQ(a.q, DbOf(st), <<>>).err THEN Fail(st) ELSE Ok(st, 0)

\* ---------- access control (C26) ----------
\* sec = [on, role, roles, grants]: grants is a set of [r, t, p] with p in {"select", "insert", "update", "delete"}.
\* Under a non-admin role a statement may run only if the role holds SELECT on every base table it can read rows of -
\* through FROM, joins, derived tables, CTEs, views (down to their base tables), subqueries in any clause, the source of
\* INSERT ... SELECT - and the matching write privilege on its target.  Otherwise it fails and changes nothing.
\* (Refusing a statement although these privileges are present is not a violation of the property: alt = "err".)
RECURSIVE SubQs(_)
SeqUnion(sq, f(_)) == UNION { f(sq[i]) : i \in Idxs(sq) }
SubQs(e) ==
   CASE e.k \in {"lit", "col", "none", "raw"} -> {}
     [] e.k \in {"cmp", "arith", "and", "or"} -> SubQs(e.l) \cup SubQs(e.r)
     [] e.k \in {"not", "neg", "isnull"} -> SubQs(e.l)
     [] e.k = "between" -> SubQs(e.l) \cup SubQs(e.lo) \cup SubQs(e.hi)
     [] e.k = "inlist" -> SubQs(e.l) \cup UNION { SubQs(e.vs[i]) : i \in Idxs(e.vs) }
     [] e.k = "like" -> SubQs(e.l) \cup SubQs(e.p)
     [] e.k = "coalesce" -> UNION { SubQs(e.vs[i]) : i \in Idxs(e.vs) }
     [] e.k = "case" -> SubQs(e.els) \cup UNION { SubQs(e.whens[i].c) \cup SubQs(e.whens[i].v) : i \in Idxs(e.whens) }
     [] e.k = "scase" -> SubQs(e.l) \cup SubQs(e.els) \cup UNION { SubQs(e.whens[i].c) \cup SubQs(e.whens[i].v) : i \in Idxs(e.whens) }
     [] e.k = "agg" -> IF e.star THEN {} ELSE SubQs(e.arg)
     [] e.k \in {"scalar", "exists"} -> {e.q}
     [] e.k = "insub" -> {e.q} \cup SubQs(e.l)
     [] OTHER -> {}
RECURSIVE QTables(_,_,_)
RECURSIVE FromTables(_,_,_)
\* base tables a query can read rows of; ctes = names bound by an enclosing WITH (they are not tables)
FromTables(f, st, ctes) ==
   CASE f.k = "none" -> {}
     [] f.k = "table" -> IF f.t \in ctes THEN {}
                         ELSE IF f.t \in DOMAIN st.views THEN QTables(st.views[f.t].q, st, {}) ELSE {f.t}
     [] f.k = "derived" -> QTables(f.q, st, ctes)
     [] f.k = "join" -> FromTables(f.l, st, ctes) \cup FromTables(f.r, st, ctes) \cup (IF f.jt \in {"inner", "left"} THEN UNION { QTables(q, st, ctes) : q \in SubQs(f.on) } ELSE {})
     [] OTHER -> {}
QTables(q, st, ctes) ==
   IF q.k = "setop" THEN QTables(q.l, st, ctes) \cup QTables(q.r, st, ctes) ELSE
   LET names == { q.with[i].n : i \in Idxs(q.with) }
       inner == ctes \cup names
       exprs == {q.where, q.having} \cup { q.sel[i].e : i \in Idxs(q.sel) } \cup { q.group[i] : i \in Idxs(q.group) }
                \cup { q.order[i].e : i \in { i \in Idxs(q.order) : q.order[i].pos = 0 } }
   IN FromTables(q.from, st, inner)
      \cup UNION { QTables(q.with[i].q, st, ctes) : i \in Idxs(q.with) }
      \cup UNION { UNION { QTables(sq, st, inner) : sq \in SubQs(e) } : e \in exprs }
ExprTables(e, st) == UNION { QTables(sq, st, {}) : sq \in SubQs(e) }
Needs(st, a) ==
   CASE a.a \in {"q", "cq"} -> { <<t, "select">> : t \in QTables(a.q, st, {}) }
     [] a.a = "ins"    -> { <<a.t, "insert">> }
     [] a.a = "inssel" -> { <<a.t, "insert">> } \cup { <<t, "select">> : t \in QTables(a.q, st, {}) }
     [] a.a = "upd"    -> { <<a.t, "update">> } \cup { <<t, "select">> : t \in ExprTables(a.w, st) \cup UNION { ExprTables(a.set[i].e, st) : i \in Idxs(a.set) } }
     [] a.a = "del"    -> { <<a.t, "delete">> } \cup { <<t, "select">> : t \in ExprTables(a.w, st) }
     [] OTHER -> {}
Holds(st, need) == \A n \in need : [r |-> st.sec.role, t |-> n[1], p |-> n[2]] \in st.sec.grants
Restricted(st) == st.sec.on /\ st.sec.role \notin {"", "ADMIN", "DBA"}
DoGrant(st, a, add) ==
   IF Restricted(st) THEN Res("unmodelled", st, 0)
   ELSE IF a.t \notin DOMAIN st.tabs \/ a.r \notin st.sec.roles THEN Fail(st)
   ELSE Ok([st EXCEPT !.sec.grants = IF add THEN @ \cup {[r |-> a.r, t |-> a.t, p |-> a.p]} ELSE @ \ {[r |-> a.r, t |-> a.t, p |-> a.p]}], 0)

\* ---------- the step function ----------
Apply0(st, a) ==
   CASE a.a = "reset"    -> Ok(InitSt, 0)
     [] a.a = "secon"    -> Ok([st EXCEPT !.sec.on = TRUE], 0)
     [] a.a = "secoff"   -> Ok([st EXCEPT !.sec.on = FALSE], 0)
     [] a.a = "setrole"  -> Ok([st EXCEPT !.sec.role = a.r], 0)
     [] a.a = "crole"    -> IF Restricted(st) THEN Res("unmodelled", st, 0)
                            ELSE IF a.r \in st.sec.roles THEN Fail(st) ELSE Ok([st EXCEPT !.sec.roles = @ \cup {a.r}], 0)
     [] a.a = "grant"    -> DoGrant(st, a, TRUE)
     [] a.a = "revoke"   -> DoGrant(st, a, FALSE)
     [] a.a = "ct"       -> DoCreateTable(st, a)
     [] a.a = "dt"       -> DoDropTable(st, a)
     [] a.a = "ins"      -> WithTriggers(st, a, DoInsert(st, a))
     [] a.a = "inssel"   -> WithTriggers(st, a, DoInsertSelect(st, a))
     [] a.a = "upd"      -> WithTriggers(st, a, DoUpdate(st, a))
     [] a.a = "del"      -> WithTriggers(st, a, DoDelete(st, a))
     [] a.a = "ctrg"     -> DoCreateTrigger(st, a)
     [] a.a = "dtrg"     -> DoDropTrigger(st, a)
     [] a.a = "trunc"    -> DoTruncate(st, a)
     [] a.a = "ci"       -> DoCreateIndex(st, a)
     [] a.a = "di"       -> DoDropIndex(st, a)
     [] a.a = "analyze"  -> IF a.t = "" \/ a.t \in DOMAIN st.tabs THEN Ok(st, 0) ELSE Fail(st)
     [] a.a = "addfk"    -> DoAddFk(st, a)
     [] a.a = "addcol"   -> DoAddCol(st, a)
     [] a.a = "dropcol"  -> DoDropCol(st, a)
     [] a.a = "rencol"   -> DoRenCol(st, a)
     [] a.a = "cv"       -> DoCreateView(st, a)
     [] a.a = "dv"       -> DoDropView(st, a)
     [] a.a = "begin"    -> DoBegin(st)
     [] a.a = "commit"   -> DoCommit(st)
     [] a.a = "rollback" -> DoRollback(st)
     [] a.a = "sp"       -> DoSavepoint(st, a)
     [] a.a = "rollto"   -> DoRollTo(st, a)
     [] a.a = "release"  -> DoRelease(st, a)
     [] a.a = "q"        -> DoQuery(st, a)
     \* a query answered through the result cache (C25) has exactly the meaning of the query: the cache is invisible
     [] a.a = "cq"       -> DoQuery(st, a)
     \* persistence (C18, C19): saving and loading back is the identity on tables, rows and index definitions
     [] a.a = "saveload" -> IF st.txn.active THEN Res("unmodelled", st, 0) ELSE Ok(st, 0)
     \* loading a damaged file (C20) either works or returns an error; the running database is not touched
     [] a.a = "corruptload" -> [Ok(st, 0) EXCEPT !.alt = "err"]
     [] OTHER            -> Res("unmodelled", st, 0)

\* the step function under access control
Apply(st, a) ==
   IF Restricted(st) /\ a.a \in {"q", "cq", "ins", "inssel", "upd", "del"} THEN
      IF Holds(st, Needs(st, a)) THEN LET r == Apply0(st, a) IN IF r.out = "ok" /\ r.alt = "" THEN [r EXCEPT !.alt = "err"] ELSE r
      \* an UPDATE / DELETE that holds the write privilege on its target and lacks SELECT only for a subquery of its
      \* WHERE / SET clause may also end as a no-op (the refused subquery makes no row qualify): nothing was read or changed
      ELSE IF a.a \in {"upd", "del"} /\ Holds(st, { n \in Needs(st, a) : n[2] # "select" }) THEN [Fail(st) EXCEPT !.alt = "ok"]
      ELSE Fail(st)
   ELSE IF Restricted(st) /\ a.a \notin {"reset", "secon", "secoff", "setrole", "begin", "commit", "rollback", "sp", "rollto", "release"}
        THEN Res("unmodelled", st, 0)        \* DDL and administration under a restricted role: outside the model
   ELSE Apply0(st, a)

\* ---------- action constructors (generators use these) ----------
ColDef(n, ty) == [n |-> n, ty |-> ty, nn |-> FALSE, pk |-> FALSE, uq |-> FALSE, def |-> NoDef]
PkCol(n, ty)  == [n |-> n, ty |-> ty, nn |-> FALSE, pk |-> TRUE, uq |-> FALSE, def |-> NoDef]
CreateTable(t, cols) == [a |-> "ct", t |-> t, cols |-> cols, pk |-> <<>>, uqs |-> <<>>, checks |-> <<>>, fks |-> <<>>]
InsertV(t, rows) == [a |-> "ins", t |-> t, cols |-> <<>>, rows |-> [i \in Idxs(rows) |-> [j \in Idxs(rows[i]) |-> Lit(rows[i][j])]], mode |-> "plain"]
UpdateA(t, set, w) == [a |-> "upd", t |-> t, set |-> set, w |-> w]
DeleteA(t, w) == [a |-> "del", t |-> t, w |-> w]
QueryA(q) == [a |-> "q", q |-> q]
Fk(cols, rt, rcols, ondel, onupd) == [cols |-> cols, rt |-> rt, rcols |-> rcols, ondel |-> ondel, onupd |-> onupd]
=============================================================================
