------------------------------- MODULE MC_Sec -------------------------------
(***************************************************************************)
(* GEN for C26: histories that interleave GRANT / REVOKE (issued as ADMIN)  *)
(* with statements issued under the role R1, security enabled.  MINE and    *)
(* SECRET are two populated tables, VS is a view over SECRET, SECRET has an  *)
(* index (so that IN subqueries can take the index path).  The statements    *)
(* reach SECRET's rows through every shape the property names: scan, index   *)
(* filter, join, derived table, CTE, view, scalar / IN / EXISTS subquery in  *)
(* SELECT, in UPDATE ... SET, in UPDATE / DELETE ... WHERE, UNION, and the   *)
(* two implementations of INSERT ... SELECT.  Engine!Apply says: without     *)
(* SELECT on every table read and the write privilege on the target the      *)
(* statement fails and changes nothing; with them it has its usual effect.   *)
(* The model checks the two obligations of the property as an action         *)
(* property (SecLaw).                                                        *)
(***************************************************************************)
EXTENDS Engine, Json
CONSTANTS MaxDepth
VARIABLES st, hist, base
vars == <<st, hist, base>>

RECURSIVE Run(_,_)
Run(s, as) == IF as = <<>> THEN s ELSE Run(Apply(s, Head(as)).st, Tail(as))
L(k) == Lit(I(k))
Tab(t) == CreateTable(t, << ColDef("A", "INTEGER"), ColDef("B", "INTEGER") >>)
Secret == TableRef("SECRET")   Mine == TableRef("MINE")
SelS(items, w) == [BaseSel(Secret) EXCEPT !.star = FALSE, !.sel = items, !.where = w]
SA == SelS(<<SelItem(Col("A"), "A")>>, NoExpr)
Setup == << Tab("MINE"), Tab("SECRET"),
            InsertV("MINE", << <<I(1), I(0)>>, <<I(5), I(0)>> >>), InsertV("SECRET", << <<I(1), I(7)>>, <<I(2), I(8)>> >>),
            [a |-> "ci", n |-> "ISEC", t |-> "SECRET", cols |-> << [c |-> "A", dir |-> "asc", plen |-> 0] >>, uq |-> FALSE],
            [a |-> "cv", n |-> "VS", q |-> SelS(<<SelItem(Col("A"), "A"), SelItem(Col("B"), "B")>>, NoExpr), cols |-> <<>>],
            [a |-> "crole", r |-> "R1"], [a |-> "secon"] >>
AsAdmin(a) == << [a |-> "setrole", r |-> "ADMIN"], a >>
AsR1(a) == << [a |-> "setrole", r |-> "R1"], a >>
Privs == {"select", "insert", "update", "delete"}
Admin == { [a |-> x, p |-> p, t |-> t, r |-> "R1"] : x \in {"grant", "revoke"}, p \in Privs, t \in {"MINE", "SECRET"} }
MA == QCol("MINE", "A")   SAq == QCol("SECRET", "A")
Queries ==
   { BaseSel(Secret), BaseSel(Mine), [BaseSel(Secret) EXCEPT !.where = CmpE("=", Col("A"), L(1))],
     [BaseSel(Mine) EXCEPT !.where = InSubE(Col("A"), SA, FALSE)],
     [BaseSel(Mine) EXCEPT !.where = InSubE(Col("A"), SA, TRUE)],
     [BaseSel(Mine) EXCEPT !.where = ExistsE(SelS(<<SelItem(L(1), "X")>>, CmpE("=", SAq, MA)), FALSE)],
     [BaseSel(Mine) EXCEPT !.star = FALSE, !.sel = <<SelItem(Col("A"), "A"), SelItem(ScalarE(SelS(<<SelItem(AggE("max", Col("B"), FALSE), "M")>>, NoExpr)), "M")>>],
     [BaseSel(JoinF("inner", Mine, Secret, CmpE("=", MA, SAq))) EXCEPT !.star = FALSE, !.sel = <<SelItem(MA, "A"), SelItem(QCol("SECRET", "B"), "B")>>],
     [BaseSel(JoinF("comma", Mine, Secret, NoExpr)) EXCEPT !.star = FALSE, !.sel = <<SelItem(QCol("SECRET", "B"), "B")>>],
     [BaseSel(Derived(SA, "D")) EXCEPT !.star = FALSE, !.sel = <<SelItem(QCol("D", "A"), "A")>>],
     [BaseSel(TableRef("W")) EXCEPT !.with = << [n |-> "W", q |-> SA, cols |-> <<>>] >>],
     BaseSel(TableRef("VS")), [BaseSel(Mine) EXCEPT !.where = InSubE(Col("A"), [BaseSel(TableRef("VS")) EXCEPT !.star = FALSE, !.sel = <<SelItem(Col("A"), "A")>>], FALSE)],
     SetOp("union", FALSE, [BaseSel(Mine) EXCEPT !.star = FALSE, !.sel = <<SelItem(Col("A"), "A")>>], SA),
     [BaseSel(Mine) EXCEPT !.star = FALSE, !.sel = <<SelItem(CountStar, "N")>>, !.having = CmpE(">", ScalarE(SelS(<<SelItem(CountStar, "N")>>, NoExpr)), L(0))] }
Stmts == { QueryA(q) : q \in Queries }
   \cup { [a |-> "inssel", t |-> "MINE", cols |-> <<>>, q |-> BaseSel(Secret)],
          [a |-> "inssel", t |-> "MINE", cols |-> <<"A", "B">>, q |-> SelS(<<SelItem(Col("A"), "A"), SelItem(Col("B"), "B")>>, NoExpr)],
          [a |-> "inssel", t |-> "SECRET", cols |-> <<>>, q |-> BaseSel(Mine)],
          InsertV("MINE", << <<I(9), I(9)>> >>), InsertV("SECRET", << <<I(9), I(9)>> >>),
          UpdateA("MINE", << [c |-> "B", e |-> ScalarE(SelS(<<SelItem(AggE("max", Col("B"), FALSE), "M")>>, NoExpr))] >>, NoExpr),
          UpdateA("MINE", << [c |-> "B", e |-> L(1)] >>, InSubE(Col("A"), SA, FALSE)),
          UpdateA("MINE", << [c |-> "B", e |-> L(2)] >>, NoExpr), UpdateA("SECRET", << [c |-> "B", e |-> L(0)] >>, NoExpr),
          DeleteA("MINE", ExistsE(SelS(<<SelItem(L(1), "X")>>, CmpE("=", SAq, MA)), FALSE)),
          DeleteA("MINE", CmpE("=", Col("A"), L(5))), DeleteA("SECRET", NoExpr) }

\* starting points: no privileges; everything on MINE; everything on MINE plus SELECT on SECRET
G(p, t) == [a |-> "grant", p |-> p, t |-> t, r |-> "R1"]
AllMine == AsAdmin(G("select", "MINE")) \o << G("insert", "MINE"), G("update", "MINE"), G("delete", "MINE") >>
Prefixes == { <<>>, AllMine, AllMine \o << G("select", "SECRET") >> }
Init == \E pre \in Prefixes : st = Run(InitSt, Setup \o pre) /\ hist = Setup \o pre /\ base = Len(Setup \o pre)
Step(as) == st' = Run(st, as) /\ hist' = hist \o as /\ base' = base
Next == (\E a \in Admin : Step(AsAdmin(a))) \/ (\E a \in Stmts : Step(AsR1(a)))
View == [tabs |-> st.tabs, grants |-> st.sec.grants]
\* every step appends two actions (SET ROLE + the action)
Bound == Len(hist) < 2 * MaxDepth + base
Emit == PrintT(<<"REPLAY", ToJson(hist')>>)
\* the two obligations of the property, on every statement issued under R1
SecLaw == [][ (hist' # hist /\ hist'[Len(hist') - 1] = [a |-> "setrole", r |-> "R1"]) =>
                LET a == hist'[Len(hist')] s1 == Apply(st, [a |-> "setrole", r |-> "R1"]).st r == Apply(s1, a) IN
                /\ (r.out = "ok" => Holds(s1, Needs(s1, a)))
                /\ (~Holds(s1, Needs(s1, a)) => r.out = "err" /\ r.st.tabs = st.tabs) ]_vars
=============================================================================
