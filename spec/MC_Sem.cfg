CONSTANTS
  Family = "F1"
  Max1 = 2
  Max2 = 1
  IntVals = {0, 1}
  StrVals = {"a", "A"}
INIT Init
NEXT Next
VIEW View
ACTION_CONSTRAINT Emit
INVARIANT Theorems
CHECK_DEADLOCK FALSE
