------------------------------- MODULE MC_Ddl -------------------------------
(***************************************************************************)
(* GEN for C33 (and the DDL half of C13): histories of CREATE / DROP TABLE, *)
(* CREATE / DROP INDEX, ALTER TABLE ADD / DROP / CHANGE COLUMN, DML and      *)
(* BEGIN / ROLLBACK / COMMIT on one table name that is dropped and created   *)
(* again, with the table and index names also spelled in lower case.  After  *)
(* every statement the harness projects: the catalog's table list and column *)
(* lists, each stored table's own column list and rows, the index registry    *)
(* and the contents of every index; TraceEngine compares all of it with      *)
(* Engine!Apply, so a registry that is keyed or updated differently from the  *)
(* others (catalog vs storage vs index manager) shows up as a mismatch.       *)
(* Probe queries (SELECT *, an index-driven filter, a projection of a         *)
(* possibly added / renamed column) are appended by the check driver.         *)
(***************************************************************************)
EXTENDS Engine, Json
CONSTANTS MaxDepth
VARIABLES st, hist, base
vars == <<st, hist, base>>

RECURSIVE Run(_,_)
Run(s, as) == IF as = <<>> THEN s ELSE Run(Apply(s, Head(as)).st, Tail(as))
L(k) == Lit(I(k))
IdxCol(c, dir, plen) == [c |-> c, dir |-> dir, plen |-> plen]
CT1 == CreateTable("T1", << ColDef("A", "INTEGER"), ColDef("B", "INTEGER") >>)
Lc(a) == [a EXCEPT !.lc = TRUE]
WithLc(a) == [x \in (DOMAIN a) \cup {"lc"} |-> IF x = "lc" THEN FALSE ELSE a[x]]
CI(n, c) == [a |-> "ci", n |-> n, t |-> "T1", cols |-> <<IdxCol(c, "asc", 0)>>, uq |-> FALSE, lc |-> FALSE]
AddCol(n, def) == [a |-> "addcol", t |-> "T1", col |-> [n |-> n, ty |-> "INTEGER", def |-> def], lc |-> FALSE]
Alphabet ==
      { WithLc(CT1), [WithLc(CreateTable("T1", << PkCol("A", "INTEGER"), ColDef("B", "INTEGER") >>)) EXCEPT !.lc = TRUE],
        [a |-> "dt", t |-> "T1", lc |-> FALSE], [a |-> "dt", t |-> "T1", lc |-> TRUE] }
 \cup { CI("I1", "A"), CI("I2", "B"), Lc(CI("I1", "B")), CI("I3", "C"),
        [a |-> "di", n |-> "I1", lc |-> FALSE], [a |-> "di", n |-> "I2", lc |-> TRUE] }
 \cup { AddCol("C", NoDef), AddCol("C", I(7)), Lc(AddCol("B", NoDef)),
        [a |-> "dropcol", t |-> "T1", c |-> "B", lc |-> FALSE], [a |-> "dropcol", t |-> "T1", c |-> "C", lc |-> TRUE],
        [a |-> "dropcol", t |-> "T1", c |-> "A", lc |-> FALSE],
        [a |-> "rencol", t |-> "T1", c |-> "B", to |-> "D", ty |-> "INTEGER", lc |-> FALSE],
        [a |-> "rencol", t |-> "T1", c |-> "D", to |-> "B", ty |-> "INTEGER", lc |-> FALSE] }
 \cup { WithLc(InsertV("T1", << <<I(1), I(0)>> >>)), WithLc(InsertV("T1", << <<I(2), I(1)>>, <<I(3), I(1)>> >>)),
        WithLc(InsertV("T1", << <<I(4), I(0), I(5)>> >>)), Lc(WithLc(InsertV("T1", << <<I(1), I(1)>> >>))),
        [WithLc(InsertV("T1", << <<I(6)>> >>)) EXCEPT !.cols = <<"A">>],
        WithLc(UpdateA("T1", << [c |-> "B", e |-> L(2)] >>, CmpE("=", Col("A"), L(1)))),
        WithLc(DeleteA("T1", CmpE("=", Col("A"), L(1)))), Lc(WithLc(DeleteA("T1", NoExpr))) }
 \cup { [a |-> x, lc |-> FALSE] : x \in {"begin", "commit", "rollback"} }

Enabled(s, a) == /\ (a.a \in {"rollback", "commit"} => s.txn.active) /\ (a.a = "begin" => ~s.txn.active)
                 /\ (a.a = "ins" /\ "T1" \in DOMAIN s.tabs => Len(s.tabs["T1"].rows) + Len(a.rows) <= 3)
Prefixes == { <<>>, << WithLc(CT1) >>, << WithLc(CT1), WithLc(InsertV("T1", << <<I(1), I(0)>>, <<I(2), I(1)>> >>)), CI("I1", "A"), CI("I2", "B") >> }
Init == \E pre \in Prefixes : st = Run(InitSt, pre) /\ hist = pre /\ base = Len(pre)
Next == \E a \in Alphabet : Enabled(st, a) /\ st' = Apply(st, a).st /\ hist' = Append(hist, a) /\ base' = base
View == st
Bound == Len(hist) < MaxDepth + base
Emit == PrintT(<<"REPLAY", ToJson(hist')>>)
\* every index belongs to an existing table and only names existing columns; rows are as wide as the column list
Inv == /\ \A i \in DOMAIN st.idx : st.idx[i].t \in DOMAIN st.tabs /\ \A j \in Idxs(st.idx[i].cols) : HasCol(st.tabs[st.idx[i].t], st.idx[i].cols[j].c)
       /\ \A t \in DOMAIN st.tabs : \A r \in Idxs(st.tabs[t].rows) : Len(st.tabs[t].rows[r]) = Len(st.tabs[t].cols)
       /\ ConstraintsHold(st)
=============================================================================
