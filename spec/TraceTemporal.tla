--------------------------- MODULE TraceTemporal ---------------------------
(***************************************************************************)
(* VAL for C22: validates what the real Display / FromStr / constructors of *)
(* Date, Time, Timestamp and Interval answered (vq_temporal) against         *)
(* Temporal.tla.  Deterministic fold, one TLC state per event.              *)
(*   rt   a valid value must be accepted by its constructor, its text must    *)
(*        be one of the lossless renderings, and reading the text must give   *)
(*        the same components back (the spec compares components; the code's  *)
(*        own == must agree);                                                *)
(*   pf   every text form of a value must read as that value;                 *)
(*   iv   an interval text must denote its value (months, days, seconds,      *)
(*        microseconds), must be == to the reference spelling of the same     *)
(*        value, and must survive its own text;                              *)
(*   mut  totality: a mutated text is accepted or rejected, never a panic;    *)
(*        an accepted one survives its own text; a mutant that is still a     *)
(*        canonical text of a valid value must be read as exactly that value. *)
(* The spec recomputes the forms itself: an event whose text is not a form of *)
(* its value (a corrupted or mis-generated trace) is rejected (what = spec).  *)
(***************************************************************************)
EXTENDS Temporal, Json, IOUtils

Rec == ndJsonDeserialize(IOEnv.TRACE)
MaxPer == 40      \* reported mismatches per (action, violated clause): one kind cannot crowd out another

VARIABLES l, bad, cnt
vars == <<l, bad, cnt>>

Kind(e) == IF "k" \in DOMAIN e.a THEN e.a.k ELSE "interval"
Text(e) == IF e.a.a \in {"pf", "iv"} THEN e.a.txt ELSE IF e.a.a = "rt" THEN e.txt ELSE ""
BadRec(e, what, want) == [sc |-> e.sc, i |-> e.i, a |-> e.a.a, what |-> what, exp |-> "", obs |-> e.out, dev |-> "", cfg |-> e.cfg,
                          want |-> want, k |-> Kind(e), txt |-> Text(e), f |-> IF e.a.a = "iv" THEN e.a.f ELSE ""]

\* "" = conforming, otherwise the name of the first violated clause
WhatRt(e) == LET c == e.a.c k == e.a.k IN
   IF ~ValidValue(k, c) THEN "spec"
   ELSE IF e.out = "panic" \/ e.mk = "panic" THEN "panic"
   ELSE IF e.mk # "ok" THEN "constructor"
   ELSE IF e.txt \notin Display(k, c) THEN "display"
   ELSE IF e.out # "ok" THEN "reparse"
   ELSE IF ~SameValue(k, c, e.back) \/ ~e.same THEN "roundtrip"
   ELSE ""
WhatPf(e) == LET c == e.a.c k == e.a.k IN
   IF ~ValidValue(k, c) \/ e.a.txt \notin Forms(k, c) THEN "spec"
   ELSE IF e.out = "panic" THEN "panic"
   ELSE IF e.out # "ok" THEN "form_rejected"
   ELSE IF ~SameValue(k, c, e.back) THEN "form_value"
   ELSE ""
WhatIv(e) == LET v == e.a.v IN
   IF ~IvValid(v) \/ [f |-> e.a.f, txt |-> e.a.txt] \notin IvForms(v) \/ e.a.ref # IvRef(v) THEN "spec"
   ELSE IF e.out = "panic" THEN "panic"
   ELSE IF ~e.rtsame THEN "roundtrip"
   ELSE IF e.iv.dbg = 1 /\ ~IvSame(v, e.iv) THEN "iv_value"
   ELSE IF e.a.ref # "" /\ ~e.eqref THEN "iv_eqref"
   ELSE ""
Canonical(e) == IF e.a.k = "interval" THEN NoValue ELSE ReadCanon(e.a.k, e.a.toks)
WhatMut(e) == LET r == Canonical(e) IN
   IF e.out \notin {"ok", "err"} \/ e.out2 = "panic" THEN "panic"
   ELSE IF e.out = "ok" /\ (e.out2 # "ok" \/ ~e.same2) THEN "reparse"
   ELSE IF r.ok /\ e.out # "ok" THEN "canon_rejected"
   ELSE IF r.ok /\ ~SameValue(e.a.k, r, e.back) THEN "canon_value"
   ELSE ""
What(e) == CASE e.a.a = "rt" -> WhatRt(e) [] e.a.a = "pf" -> WhatPf(e) [] e.a.a = "iv" -> WhatIv(e) [] e.a.a = "mut" -> WhatMut(e) [] OTHER -> "spec"
Want(e) == CASE e.a.a = "rt" -> [texts |-> Display(e.a.k, e.a.c), value |-> e.a.c]
             [] e.a.a = "pf" -> [texts |-> {}, value |-> e.a.c]
             [] e.a.a = "iv" -> [texts |-> {}, value |-> e.a.v]
             [] OTHER -> [texts |-> {}, value |-> Canonical(e)]

Init == l = 1 /\ bad = <<>>
        /\ cnt = [ok |-> 0, notok |-> 0, queries |-> 0, rt |-> 0, pf |-> 0, iv |-> 0, mut |-> 0, mut_ok |-> 0, mut_err |-> 0, mut_canon |-> 0, frac |-> 0]
Inc(c, f, cond) == IF cond THEN [c EXCEPT ![f] = @ + 1] ELSE c
Step(e) ==
   IF e.a.a = "reset" THEN UNCHANGED <<bad, cnt>>
   ELSE LET w == What(e)
            c1 == Inc(Inc(cnt, "ok", w = ""), "notok", w # "")
            c2 == Inc(Inc(Inc(Inc(c1, "rt", e.a.a = "rt"), "pf", e.a.a = "pf"), "iv", e.a.a = "iv"), "mut", e.a.a = "mut")
            c3 == Inc(Inc(c2, "mut_ok", e.a.a = "mut" /\ e.out = "ok"), "mut_err", e.a.a = "mut" /\ e.out = "err")
            c4 == Inc(c3, "mut_canon", e.a.a = "mut" /\ Canonical(e).ok)
            c5 == Inc(c4, "frac", e.a.a = "rt" /\ e.a.c.ns # 0)
            same == Cardinality({ j \in 1..Len(bad) : bad[j].what = w /\ bad[j].a = e.a.a /\ bad[j].f = (IF e.a.a = "iv" THEN e.a.f ELSE "") })
        IN /\ bad' = IF w = "" \/ same >= MaxPer THEN bad ELSE Append(bad, BadRec(e, w, Want(e)))
           /\ cnt' = c5
Next == l <= Len(Rec) /\ Step(Rec[l]) /\ l' = l + 1
Verdict == [n |-> Len(Rec), nbad |-> Len(bad), cnt |-> cnt, bad |-> bad]
Done == l > Len(Rec) => PrintT(<<"VERDICT", ToJson(Verdict)>>)
Post == TLCGet("stats").diameter = Len(Rec) + 1
=============================================================================
