------------------------------- MODULE MC_Fk -------------------------------
(***************************************************************************)
(* GEN for C12: histories over a parent / child / grandchild chain and a    *)
(* self-referencing table, with the referential action of the child's       *)
(* foreign key chosen by the constant Mode (cascade | setnull | restrict |   *)
(* noaction, used for ON DELETE and ON UPDATE alike).                        *)
(*    P(ID PK, X)            C(ID PK, PID -> P(ID) ON DELETE/UPDATE Mode)    *)
(*    G(ID PK, CID -> C(ID) ON DELETE CASCADE)                               *)
(*    D(ID PK, PID -> P(ID) ON DELETE/UPDATE NO ACTION)                      *)
(*    S(ID PK, UP -> S(ID) ON DELETE Mode)                                   *)
(* The alphabet holds inserts that reference existing / missing / NULL       *)
(* parents, child updates that re-point the reference, parent key updates    *)
(* (single and multi-row), single- and multi-row parent deletes, deletes on  *)
(* the self-referencing table, and TRUNCATE of parent and child.  The model  *)
(* itself is checked for FKHold and ConstraintsHold in every reachable state *)
(* and for "a rejected statement is a stuttering step".                      *)
(***************************************************************************)
EXTENDS Engine, Json
CONSTANTS MaxDepth, Mode, GMode, WithD
VARIABLES st, hist, base
vars == <<st, hist, base>>

C2(n, ty, pk) == [n |-> n, ty |-> ty, nn |-> FALSE, pk |-> pk, uq |-> FALSE, def |-> NoDef]
Tab(t, c2, fks) == [a |-> "ct", t |-> t, cols |-> << C2("ID", "INTEGER", TRUE), C2(c2, "INTEGER", FALSE) >>,
                    pk |-> <<>>, uqs |-> <<>>, checks |-> <<>>, fks |-> fks]
Setup == << Tab("P", "X", <<>>),
            Tab("C", "PID", << Fk(<<"PID">>, "P", <<"ID">>, Mode, Mode) >>),
            \* the grandchild cascades or restricts (GMode): with "noaction" a DELETE on P cascades into C and is then refused
            \* one level further down
            Tab("G", "CID", << Fk(<<"CID">>, "C", <<"ID">>, GMode, "noaction") >>),
            \* a second child of P that always restricts (a DELETE on P may cascade into C and then be refused because of D);
            \* without a foreign key when WithD = FALSE, so that no DIRECT reference to P restricts
            Tab("D", "PID", IF WithD THEN << Fk(<<"PID">>, "P", <<"ID">>, "noaction", "noaction") >> ELSE <<>>),
            \* the code refuses a self-reference inside CREATE TABLE (the table does not exist yet) but accepts it as ALTER TABLE
            Tab("S", "UP", <<>>), [a |-> "addfk", t |-> "S", n |-> "FKS", fk |-> Fk(<<"UP">>, "S", <<"ID">>, Mode, "noaction")] >>
RECURSIVE Run(_,_)
Run(s, as) == IF as = <<>> THEN s ELSE Run(Apply(s, Head(as)).st, Tail(as))

L(k) == Lit(I(k))
Ins(t, rows) == InsertV(t, rows)
Eq(c, k) == CmpE("=", Col(c), L(k))
Set1(c, e) == << [c |-> c, e |-> e] >>
Alphabet ==
      \* parents
      { Ins("P", << <<I(1), I(0)>> >>), Ins("P", << <<I(2), I(0)>> >>), Ins("P", << <<I(1), I(0)>>, <<I(2), I(0)>> >>) }
      \* children: existing parent, second child of the same parent, other parent, NULL reference, missing parent,
      \* multi-row with a missing parent in the last row
 \cup { Ins("C", << <<I(1), I(1)>> >>), Ins("C", << <<I(2), I(1)>> >>), Ins("C", << <<I(3), I(2)>> >>), Ins("C", << <<I(4), NULL>> >>),
        Ins("C", << <<I(5), I(9)>> >>), Ins("C", << <<I(6), I(1)>>, <<I(7), I(9)>> >>) }
      \* the restricting second child
 \cup { Ins("D", << <<I(1), I(2)>> >>), Ins("D", << <<I(2), I(1)>> >>), DeleteA("D", NoExpr) }
      \* grandchildren
 \cup { Ins("G", << <<I(1), I(1)>> >>), Ins("G", << <<I(2), I(3)>> >>), Ins("G", << <<I(3), I(8)>> >>) }
      \* self-referencing table: root, child of the root, grandchild, dangling reference
 \cup { Ins("S", << <<I(1), NULL>> >>), Ins("S", << <<I(2), I(1)>> >>), Ins("S", << <<I(3), I(2)>> >>), Ins("S", << <<I(4), I(7)>> >>) }
      \* child updates: re-point to an existing / a missing parent, to NULL; all rows at once
 \cup { UpdateA("C", Set1("PID", L(2)), Eq("ID", 1)), UpdateA("C", Set1("PID", L(9)), Eq("ID", 1)),
        UpdateA("C", Set1("PID", Lit(NULL)), Eq("ID", 2)), UpdateA("C", Set1("PID", L(1)), NoExpr) }
      \* parent updates: non-key column; key of a (possibly referenced) row; every key at once
 \cup { UpdateA("P", Set1("X", L(1)), NoExpr), UpdateA("P", Set1("ID", L(3)), Eq("ID", 1)),
        UpdateA("P", Set1("ID", ArE("+", Col("ID"), L(10))), NoExpr), UpdateA("P", Set1("ID", L(1)), Eq("ID", 2)) }
      \* self-referencing table: re-point a row to a LATER row (the referencing row then precedes the referenced one in
      \* storage order) and close a cycle
 \cup { UpdateA("S", Set1("UP", L(2)), Eq("ID", 1)), UpdateA("S", Set1("UP", L(3)), Eq("ID", 1)) }
      \* key update in the middle of the chain (C is child of P and parent of G)
 \cup { UpdateA("C", Set1("ID", L(8)), Eq("ID", 1)) }
      \* deletes
 \cup { DeleteA("P", Eq("ID", 1)), DeleteA("P", NoExpr), DeleteA("P", CmpE(">=", Col("ID"), L(2))),
        DeleteA("C", Eq("ID", 1)), DeleteA("C", Eq("PID", 1)), DeleteA("C", NoExpr), DeleteA("G", NoExpr),
        DeleteA("S", Eq("ID", 1)), DeleteA("S", Eq("ID", 2)), DeleteA("S", NoExpr) }
 \cup { [a |-> "trunc", t |-> "P"], [a |-> "trunc", t |-> "C"], [a |-> "trunc", t |-> "G"] }

\* populated starting points, so that the bounded search spends its depth on the interesting part
Prefixes == { <<>>,
              << Ins("P", << <<I(1), I(0)>>, <<I(2), I(0)>> >>), Ins("C", << <<I(1), I(1)>> >>) >>,
              << Ins("P", << <<I(1), I(0)>>, <<I(2), I(0)>> >>), Ins("C", << <<I(1), I(1)>> >>), Ins("C", << <<I(3), I(2)>> >>),
                 Ins("G", << <<I(1), I(1)>> >>) >>,
              << Ins("P", << <<I(1), I(0)>>, <<I(2), I(0)>> >>), Ins("C", << <<I(1), I(1)>> >>), Ins("D", << <<I(1), I(2)>> >>) >>,
              << Ins("S", << <<I(1), NULL>> >>), Ins("S", << <<I(2), I(1)>> >>), Ins("S", << <<I(3), I(2)>> >>) >> }

Init == \E pre \in Prefixes : st = Run(InitSt, Setup \o pre) /\ hist = Setup \o pre /\ base = Len(Setup \o pre)
Next == \E a \in Alphabet : st' = Apply(st, a).st /\ hist' = Append(hist, a) /\ base' = base
View == st
Bound == Len(hist) < MaxDepth + base
Emit == PrintT(<<"REPLAY", ToJson(hist')>>)

Inv == FKHold(st) /\ ConstraintsHold(st)
FailedIsStutter == [][ hist' # hist => (Apply(st, hist'[Len(hist')]).out \in {"err", "unmodelled"} => st' = st) ]_vars
\* ON DELETE CASCADE never leaves a grandchild behind, SET NULL never removes a child row
CascadeShape == [][ (hist' # hist /\ hist'[Len(hist')].a = "del" /\ hist'[Len(hist')].t = "P" /\ Apply(st, hist'[Len(hist')]).out = "ok")
                      => /\ (Mode = "setnull" => Len(st'.tabs["C"].rows) = Len(st.tabs["C"].rows))
                         /\ (Mode \in {"restrict", "noaction"} => st'.tabs["C"] = st.tabs["C"]) ]_vars
=============================================================================
