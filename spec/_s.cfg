CONSTANTS
  Mode = "exh"
  Family = "thorough"
  DepthCap = 9
  SimLen = 400
  Phase = 100
INIT Init
NEXT Next
VIEW View
ACTION_CONSTRAINT Emit
INVARIANT Inv
PROPERTY StepLaws
CHECK_DEADLOCK FALSE
