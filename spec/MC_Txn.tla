------------------------------- MODULE MC_Txn -------------------------------
(* GEN for C13 / C14: all interleavings of DML and transaction control on   *)
(* one keyed table, up to MaxDepth actions after the setup.                 *)
EXTENDS Engine, Json
CONSTANTS MaxDepth, Keys, Vals, Names
VARIABLES st, hist, base
vars == <<st, hist, base>>

\* one secondary index exists from the start and can be dropped / re-created inside a transaction: the
\* index registry and the index contents are part of what ROLLBACK / ROLLBACK TO must restore (the harness
\* logs the contents of every index after every statement, TraceEngine!IndexInv)
IdxCol(c, dir, plen) == [c |-> c, dir |-> dir, plen |-> plen]
CreateIV == [a |-> "ci", n |-> "IV", t |-> "T1", cols |-> <<IdxCol("V", "asc", 0)>>, uq |-> FALSE]
DropIV   == [a |-> "di", n |-> "IV"]
Setup == << CreateTable("T1", << PkCol("ID", "INTEGER"), ColDef("V", "INTEGER") >>), CreateIV >>
RECURSIVE Run(_,_)
Run(s, as) == IF as = <<>> THEN s ELSE Run(Apply(s, Head(as)).st, Tail(as))

IdEq(k) == CmpE("=", Col("ID"), Lit(I(k)))
Alphabet ==
      { InsertV("T1", << <<I(k), I(v)>> >>) : k \in Keys, v \in Vals }
 \cup { UpdateA("T1", << [c |-> "V", e |-> Lit(I(v))] >>, IdEq(k)) : k \in Keys, v \in Vals }
 \cup { DeleteA("T1", IdEq(k)) : k \in Keys }
 \cup { CreateIV, DropIV, [a |-> "trunc", t |-> "T1"] }       \* TRUNCATE is transactional too (C13 names it)
 \cup { [a |-> x] : x \in {"begin", "commit", "rollback"} }
 \cup { [a |-> x, n |-> n] : x \in {"sp", "rollto", "release"}, n \in Names }

\* savepoint names are not re-used while live (SQL leaves the meaning of duplicates to the dialect)
Enabled(s, a) == ~(a.a = "sp" /\ s.txn.active /\ SpExists(s, a.n))

\* Several initial states (empty table; populated table; populated table inside an open transaction, with and
\* without a savepoint taken before a change): the depth bound counts the actions AFTER the prefix, so the
\* bounded search reaches nested-savepoint histories that would otherwise need two or three more levels.
R(k, v) == InsertV("T1", << <<I(k), I(v)>> >>)
Prefixes == { <<>>, << R(1, 0) >>, << R(1, 0), R(2, 1), [a |-> "begin"] >>,
              << R(1, 0), [a |-> "begin"], [a |-> "sp", n |-> "A"], UpdateA("T1", << [c |-> "V", e |-> Lit(I(1))] >>, IdEq(1)) >> }
Init == \E pre \in Prefixes : st = Run(InitSt, Setup \o pre) /\ hist = Setup \o pre /\ base = Len(Setup \o pre)
Next == \E a \in Alphabet : Enabled(st, a) /\ st' = Apply(st, a).st /\ hist' = Append(hist, a) /\ base' = base
View == st
Bound == Len(hist) < MaxDepth + base
Emit == PrintT(<<"REPLAY", ToJson(hist')>>)

\* design-level properties checked on the model itself
Inv == /\ ConstraintsHold(st) /\ FKHold(st)
       /\ (~st.txn.active => st.txn.sps = <<>>)
\* C13: ROLLBACK restores exactly the snapshot taken at BEGIN, COMMIT keeps the current state
RollbackRestores == [][ (hist' # hist /\ hist'[Len(hist')].a = "rollback" /\ st.txn.active)
                          => (st'.tabs = st.txn.snap.tabs /\ st'.idx = st.txn.snap.idx /\ st'.views = st.txn.snap.views) ]_vars
CommitKeeps == [][ (hist' # hist /\ hist'[Len(hist')].a = "commit") => st'.tabs = st.tabs ]_vars
\* C14: ROLLBACK TO s restores the table contents at s, keeps s, destroys later savepoints; RELEASE changes no data
RollToRestores == [][ (hist' # hist /\ hist'[Len(hist')].a = "rollto" /\ st.txn.active /\ SpExists(st, hist'[Len(hist')].n))
                        => LET p == SpPos(st, hist'[Len(hist')].n) IN
                           /\ st'.tabs = st.txn.sps[p].tabs
                           /\ st'.txn.sps = SubSeq(st.txn.sps, 1, p) ]_vars
ReleaseKeepsData == [][ (hist' # hist /\ hist'[Len(hist')].a = "release") => st'.tabs = st.tabs ]_vars
\* C11: a failing statement is a stuttering step on the database
FailedIsStutter == [][ hist' # hist => (Apply(st, hist'[Len(hist')]).out = "err" => st' = st) ]_vars
=============================================================================
