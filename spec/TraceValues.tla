---------------------------- MODULE TraceValues ----------------------------
(***************************************************************************)
(* VAL for C21: every `laws` event carries the relation tables the real     *)
(* code produced (==, cmp, partial_cmp, hash over all pairs of a universe of *)
(* concrete SqlValues), what std containers keyed by those values did, and   *)
(* what the SQL operators returned for a typed column holding them.  The     *)
(* laws of ValueLaws are evaluated on the recorded tables; each violated law  *)
(* instance becomes one `bad` record naming the witness values.             *)
(* Deterministic fold, one TLC state per event.                             *)
(***************************************************************************)
EXTENDS ValueLaws, TLC, Json, IOUtils, SequencesExt

Rec == ndJsonDeserialize(IOEnv.TRACE)
MaxPer == 12       \* witnesses reported per law and event
MaxBad == 600

VARIABLES l, bad, cnt
vars == <<l, bad, cnt>>

Min2(a, b) == IF a < b THEN a ELSE b
Name(e, i) == IF i \in 1..Len(e.a.vals) THEN e.a.vals[i].t \o ":" \o e.a.vals[i].c ELSE ""
TypeOf(e, i) == IF i \in 1..Len(e.a.vals) THEN e.a.vals[i].t ELSE ""
At(w, k) == IF k <= Len(w) THEN w[k] ELSE 0
BadRec(e, what, w, want) ==
   [sc |-> e.sc, i |-> e.i, a |-> e.a.a, what |-> what, exp |-> "", obs |-> e.out, dev |-> "", cfg |-> e.cfg, want |-> want,
    x |-> Name(e, At(w, 1)), y |-> Name(e, At(w, 2)), z |-> Name(e, At(w, 3)), t1 |-> TypeOf(e, At(w, 1)), t2 |-> TypeOf(e, At(w, 2)),
    col |-> e.a.sql]
Cap(W) == LET s == SetToSeq(W) IN SubSeq(s, 1, Min2(Len(s), MaxPer))
LawBad(e, what, W) == LET c == Cap(W) IN [k \in 1..Len(c) |-> BadRec(e, what, c[k], <<>>)]
One(e, what, cond, want) == IF cond THEN <<>> ELSE <<BadRec(e, what, <<>>, want)>>

Pairs(rows) == { <<rows[k][1], rows[k][2]>> : k \in 1..Len(rows) }
IsNullIdx(e, i) == e.a.vals[i].c = "null"

\* ---------------------------------------------------------------- SQL operators over a typed column
SqlBad(e) ==
   LET A == { i \in Idx(e) : e.a.side[i] = 0 }
       B == { i \in Idx(e) : e.a.side[i] = 1 }
       q == e.q
       ran(name) == q[name].out = "ok"
       nonNullClasses == { C \in Classes(e) : \E i \in C : ~IsNullIdx(e, i) }
       pan == { name \in DOMAIN q : q[name].out = "panic" }
   IN  (IF pan = {} THEN <<>> ELSE <<BadRec(e, "panic", <<>>, SetToSeq(pan))>>)
    \o (IF ran("grp") THEN One(e, "group", GroupOk(e, q.grp.rows) /\ { RangeOf(q.grp.rows[k].m) : k \in 1..Len(q.grp.rows) } = Classes(e), q.grp.rows) ELSE <<>>)
    \o (IF ran("dst") THEN One(e, "distinct", DedupOk(e, Idx(e), q.dst.rows), q.dst.rows) ELSE <<>>)
    \o (IF ran("uni") THEN One(e, "union", DedupOk(e, Idx(e), q.uni.rows), q.uni.rows) ELSE <<>>)
    \o (IF ran("int") THEN One(e, "intersect", IntersectOk(e, A, B, q.int.rows), q.int.rows) ELSE <<>>)
    \o (IF ran("exc") THEN One(e, "except", ExceptOk(e, A, B, q.exc.rows), q.exc.rows) ELSE <<>>)
    \o (IF ran("join") THEN LawBad(e, "join", JoinW(e, Pairs(q.join.rows))) ELSE <<>>)
    \o (IF ran("isub") THEN LawBad(e, "in", { <<i>> : i \in InW(e, B, RangeOf(q.isub.rows)) }) ELSE <<>>)
    \o (IF ran("cd") THEN One(e, "countdistinct", Len(q.cd.rows) = 1 /\ q.cd.rows[1] = Cardinality(nonNullClasses), q.cd.rows) ELSE <<>>)

NOk(e)  == IF e.a.sql = "" \/ e.sqlout # "ok" THEN 0 ELSE Cardinality({ name \in DOMAIN e.q : e.q[name].out = "ok" })
NErr(e) == IF e.a.sql = "" \/ e.sqlout # "ok" THEN 0 ELSE Cardinality({ name \in DOMAIN e.q : e.q[name].out = "err" })

\* ---------------------------------------------------------------- one event
LawsBad(e) ==
   IF e.out = "panic" THEN <<BadRec(e, "panic", <<>>, <<>>)>>
   ELSE
   LET core == LawBad(e, "eq_refl", EqReflW(e)) \o LawBad(e, "eq_sym", EqSymW(e)) \o LawBad(e, "eq_trans", EqTransW(e))
               \o LawBad(e, "ord_converse", OrdConvW(e)) \o LawBad(e, "ord_trans", OrdTransW(e))
               \o LawBad(e, "ord_eq", OrdEqW(e)) \o LawBad(e, "pcmp_vs_cmp", PcW(e)) \o LawBad(e, "hash", HashW(e))
       equiv == EqIsEquivalence(e)
       \* consequences are stated over equivalence classes: only meaningful (and only checked) when == is an equivalence
       cont == IF ~equiv THEN <<>>
               ELSE LawBad(e, "hashmap", MapW(e, e.hm)) \o LawBad(e, "btreemap", MapW(e, e.bm))
                    \o One(e, "sort", SortedOk(e, e.srt), e.srt)
       sqlb == IF e.a.sql = "" \/ ~equiv THEN <<>>
               ELSE IF e.sqlout = "panic" THEN <<BadRec(e, "panic", <<>>, <<>>)>>
               ELSE IF e.sqlout # "ok" THEN <<>>
               ELSE SqlBad(e)
   IN core \o cont \o sqlb

Init == l = 1 /\ bad = <<>>
        /\ cnt = [ok |-> 0, queries |-> 0, laws |-> 0, pairs |-> 0, triples |-> 0, eqpairs |-> 0, cmpeq |-> 0, pcnone |-> 0,
                  sqlerr |-> 0, sqlskip |-> 0]

Step(e) ==
   IF e.a.a = "reset" THEN UNCHANGED <<bad, cnt>>
   ELSE
   LET b == LawsBad(e)
       room == MaxBad - Len(bad)
       off == { p \in Idx(e) \X Idx(e) : p[1] # p[2] }
   IN /\ bad' = bad \o SubSeq(b, 1, Min2(Len(b), IF room > 0 THEN room ELSE 0))
      /\ cnt' = [cnt EXCEPT !.ok = IF b = <<>> THEN @ + 1 ELSE @,
                            !.laws = @ + 1,
                            !.queries = @ + NOk(e),
                            !.sqlerr = @ + NErr(e),
                            !.sqlskip = @ + (IF e.a.sql # "" /\ e.sqlout = "err" THEN 1 ELSE 0),
                            !.pairs = @ + e.n * e.n,
                            !.triples = @ + e.n * e.n * e.n,
                            \* non-vacuity: how often the antecedents of the laws were met by DIFFERENT values
                            !.eqpairs = @ + Cardinality({ p \in off : Eq(e, p[1], p[2]) }),
                            !.cmpeq = @ + Cardinality({ p \in off : e.cmp[p[1]][p[2]] = 0 }),
                            !.pcnone = @ + Cardinality({ p \in off : e.pc[p[1]][p[2]] = 2 })]

Next == l <= Len(Rec) /\ Step(Rec[l]) /\ l' = l + 1
Verdict == [n |-> Len(Rec), nbad |-> Len(bad), cnt |-> cnt, bad |-> bad]
Done == l > Len(Rec) => PrintT(<<"VERDICT", ToJson(Verdict)>>)
Post == TLCGet("stats").diameter = Len(Rec) + 1
=============================================================================
