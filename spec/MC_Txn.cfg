CONSTANTS
  MaxDepth = 5
  Keys = {1, 2}
  Vals = {0, 1}
  Names = {"A", "B"}
INIT Init
NEXT Next
VIEW View
CONSTRAINT Bound
ACTION_CONSTRAINT Emit
INVARIANT Inv
PROPERTY RollbackRestores CommitKeeps RollToRestores ReleaseKeepsData FailedIsStutter
CHECK_DEADLOCK FALSE
