------------------------------- MODULE MC_Csv -------------------------------
(***************************************************************************)
(* GEN for C31 (CLI import / export) and the theorems of CsvJson.tla.      *)
(* Pure input enumeration, one TLC run per Family:                         *)
(*   rt    table contents x format: create T, its empty twin TT and the    *)
(*         bystander T2; fill T through the storage API; export T; import  *)
(*         the exported file into TT.  Contents: every string class of     *)
(*         SAll (plain, empty, comma, quote, LF, CRLF, bare CR, the text   *)
(*         NULL, a SQL fragment, padded, number-looking, backslash, single *)
(*         quote, non-ASCII ...) and NULL in the VARCHAR column, integers  *)
(*         incl. negative and NULL in the INTEGER columns, one- and two-   *)
(*         row tables (Size 2: all pairs, three rows), the empty table, an *)
(*         all-NULL row; floats (1.5, -2.25, 0.0625, 100) in a DOUBLE      *)
(*         PRECISION column of a second schema.                            *)
(*   csv   import files from the RFC 4180 grammar: header forms (exact,    *)
(*         lower case, quoted, permuted, subset, unknown / duplicate /     *)
(*         SQL-fragment names) x records of field forms (unquoted, quoted, *)
(*         embedded comma / quote / LF / CRLF, doubled quotes, malformed:  *)
(*         quote inside unquoted text, text after the closing quote,       *)
(*         unterminated quote, bare CR) x line end LF | CRLF x final line  *)
(*         end present | absent; wrong field counts, blank lines, empty    *)
(*         file; integer field forms (negative, quoted, padded, signed,    *)
(*         empty, not a number) and decimal forms for the float schema.    *)
(*   json  import files: array of objects, value forms of every JSON type  *)
(*         (strings incl. "NULL", "1", quotes, newlines, backslash, SQL    *)
(*         fragment; null; integer and decimal numbers; true / false;      *)
(*         nested array / object) x key forms (exact, lower case, unknown, *)
(*         with comma / quote / semicolon / space / newline, SQL fragments *)
(*         closing the column list) in the first and in a later object,    *)
(*         missing keys, {} and [], compact and indented layout, plus      *)
(*         texts that are not an array of objects.                         *)
(*   laws  no scenarios: the theorems below.                               *)
(* An import scenario starts from T = one row, T2 = two rows, so that      *)
(* "table before + exactly the records, everything else unchanged" is      *)
(* observable.                                                             *)
(***************************************************************************)
EXTENDS CsvJson, TLC, Json
CONSTANTS Family, Size          \* Size: 1 (quick) | 2 (thorough)
VARIABLE dummy

\* ---------------------------------------------------------------- texts (code points)
Tab   == <<97, 98>>                      \* ab
Tcomma == <<97, 44, 98>>                 \* a,b
Tquote == <<97, 34, 98>>                 \* a"b
Tlf   == <<97, 10, 98>>                  \* a LF b
Tcrlf == <<97, 13, 10, 98>>              \* a CR LF b
Tcr   == <<97, 13, 98>>                  \* a CR b
TNULL == <<78, 85, 76, 76>>              \* NULL
Tnull == <<110, 117, 108, 108>>          \* null
Tfrag == <<39, 41, 59, 32, 68, 82, 79, 80, 32, 84, 65, 66, 76, 69, 32, 84, 50, 59, 32, 45, 45>>   \* '); DROP TABLE T2; --
Tpad  == <<32, 97, 32>>                  \* ' a '
T007  == <<48, 48, 55>>                  \* 007
Tneg  == <<45, 49>>                      \* -1
Tdec  == <<49, 46, 53>>                  \* 1.5
Tdq   == <<34>>                          \* "
Tdqdq == <<34, 34>>                      \* ""
Tbsl  == <<97, 92>>                      \* a\
Tsq   == <<79, 39, 66>>                  \* O'B
Tuni  == <<233, 8364>>                   \* e-acute, euro sign
Tnl   == <<10>>                          \* LF
Tc    == <<44>>                          \* ,
Tsemi == <<97, 59, 98, 45, 45>>          \* a;b--
Tmix  == <<97, 44, 34, 98, 34, 44, 99>>  \* a,"b",c
Ttab  == <<97, 9, 98>>                   \* a HT b
Tkeep == <<107, 101, 101, 112>>          \* keep
Tzz   == <<122, 122>>                    \* zz
Tabc  == <<97, 98, 99>>                  \* abc
T1    == <<49>>
T7    == <<55>>
Tm5   == <<45, 53>>                      \* -5
Tsp1  == <<32, 49>>                      \* ' 1'
Tplus1 == <<43, 49>>                     \* +1
T1e2  == <<49, 101, 50>>                 \* 1e2
Tm225 == <<45, 50, 46, 50, 53>>          \* -2.25
T0625 == <<48, 46, 48, 54, 50, 53>>      \* 0.0625
T100  == <<49, 48, 48>>                  \* 100
Tarr  == <<91, 49, 93>>                  \* [1]
Tobj  == <<123, 34, 97, 34, 58, 49, 125>>   \* {"a":1}
\* names
NID == <<73, 68>>   NS == <<83>>   NN == <<78>>   NX == <<88>>
Nid == <<105, 100>>   Ns == <<115>>   Nn == <<110>>
KcommaN == <<83, 44, 32, 78>>            \* S, N
Kinj1 == <<83, 41, 32, 86, 65, 76, 85, 69, 83, 32, 40, 39, 120, 39, 41, 32, 45, 45>>                         \* S) VALUES ('x') --
Kinj2 == <<73, 68, 41, 32, 83, 69, 76, 69, 67, 84, 32, 73, 68, 32, 70, 82, 79, 77, 32, 84, 50, 32, 45, 45>>  \* ID) SELECT ID FROM T2 --
Kinj3 == <<73, 68, 41, 32, 86, 65, 76, 85, 69, 83, 32, 40, 57, 57, 41, 32, 45, 45>>                          \* ID) VALUES (99) --
Kdq == <<83, 34>>   Ksq == <<83, 39>>   Ksemi == <<83, 59>>   Ksp == <<83, 32>>   Klf == <<83, 10, 78>>     \* S"  S'  S;  'S '  S LF N
Hinj == <<78, 41, 32, 45, 45>>           \* N) --

\* ---------------------------------------------------------------- schemas and actions
Col(n, ty) == [n |-> n, ty |-> ty]
Cols3 == << Col(NID, "i"), Col(NS, "s"), Col(NN, "i") >>       \* T, TT (ID INTEGER, S VARCHAR(100), N INTEGER)
ColsB == << Col(NID, "i"), Col(NS, "s") >>                      \* T2, the bystander
ColsF == << Col(NID, "i"), Col(NX, "f") >>                      \* T, TT (ID INTEGER, X DOUBLE PRECISION)
ACreate(t, cols) == [a |-> "create", t |-> t, cols |-> cols]
AFill(t, rows)   == [a |-> "fill", t |-> t, rows |-> rows]
AExport(t, fmt)  == [a |-> "export", t |-> t, fmt |-> fmt]
AImport(t, fmt, src, text) == [a |-> "import", t |-> t, fmt |-> fmt, src |-> src, text |-> text]
BRows == << <<IntV(1), Str(Tkeep)>>, <<IntV(2), Str(Tfrag)>> >>
Fmts == {"csv", "json"}

\* ---------------------------------------------------------------- rt: table contents
SAll == { Tab, <<>>, Tcomma, Tquote, Tlf, Tcrlf, Tcr, TNULL, Tnull, Tfrag, Tpad, T007, Tneg, Tdec, Tdq, Tdqdq, Tbsl, Tsq, Tuni, Tnl, Tc, Tsemi, Tmix, Ttab }
SFew == { Tab, <<>>, Tcomma, Tquote, Tlf, TNULL, Tfrag }
SVals(S) == { Str(x) : x \in S } \cup { Null }
Row3(i, s, n) == << i, s, n >>
Rt3 == { <<>>, << Row3(Null, Null, Null) >>, << Row3(Null, Str(<<>>), Null), Row3(IntV(3), Null, IntV(3)) >> }
         \cup { << Row3(p[1], s, p[2]) >> : s \in SVals(SAll), p \in { <<IntV(1), Null>>, <<IntV(-5), IntV(0)>> } }
         \cup { << Row3(IntV(1), s1, Null), Row3(IntV(-5), s2, IntV(7)) >> : s1, s2 \in SVals(IF Size >= 2 THEN SAll ELSE SFew) }
         \cup (IF Size >= 2 THEN { << Row3(IntV(1), s1, IntV(-3)), Row3(IntV(2), s2, Null), Row3(IntV(3), s1, IntV(0)) >> : s1, s2 \in SVals(SFew) } ELSE {})
FVals == { Flt(Tdec), Flt(Tm225), Flt(T0625), Flt(T100), Null }
RtF == { << <<IntV(1), x>> >> : x \in FVals } \cup { << <<IntV(1), Flt(Tdec)>>, <<IntV(2), Flt(Tm225)>>, <<IntV(3), Null>>, <<IntV(4), Flt(T0625)>>, <<IntV(5), Flt(T100)>> >> }
RtScenario(cols, rows, fmt) ==
   << ACreate("T", cols), ACreate("TT", cols), ACreate("T2", ColsB), AFill("T2", BRows), AFill("T", rows),
      AExport("T", fmt), AImport("TT", fmt, "last", <<>>) >>
RtScenarios == { RtScenario(Cols3, rows, fmt) : rows \in Rt3, fmt \in Fmts } \cup { RtScenario(ColsF, rows, fmt) : rows \in RtF, fmt \in Fmts }

\* ---------------------------------------------------------------- import scenarios
Before3 == << <<IntV(9), Str(Tkeep), Null>> >>
BeforeF == << <<IntV(9), Flt(Tdec)>> >>
ImpScenario(cols, before, fmt, text) ==
   << ACreate("T", cols), ACreate("T2", ColsB), AFill("T2", BRows), AFill("T", before), AImport("T", fmt, "text", text) >>

\* ---------------------------------------------------------------- csv: files from the grammar (raw field forms)
Q(x) == WriteField(F(x, TRUE))                 \* x between quotes, quotes doubled
SU == { Tab, TNULL, Tnull, T007, <<>>, Tpad, Tsq, Tsemi, Tbsl, Tuni, Tfrag, Ttab }
SQuoted == { Q(x) : x \in { Tab, <<>>, Tcomma, Tquote, Tlf, Tcrlf, Tcr, TNULL, Tfrag, Tdq, Tc, Tmix, Tnl, Tpad } }
SBad == { Tquote,                                  \* a"b      quote inside an unquoted field
          <<34, 97, 34, 98>>,                      \* "a"b     text after the closing quote
          <<34, 97, 98>>,                          \* "ab      unterminated
          <<34, 97, 34, 34>>,                      \* "a""     unterminated after a doubled quote
          Tcr }                                    \* a CR b   bare CR
SForms == SU \cup SQuoted \cup SBad
SPair == { Tab, TNULL, Q(Tcomma), Q(Tlf), Q(Tquote), Q(<<>>), <<34, 97, 98>> }
IdForms == { T1, Tm5, Q(T1), <<>>, Tsp1, Tabc, Tdec, Q(<<>>), T007, Tplus1 }
R(fields) == Join(fields, <<COMMA>>)
R3(id, s, n) == R(<<id, s, n>>)
Eols == { <<LF>>, <<CR, LF>> }
File(hdr, recs, eol, fin) == Join(<<hdr>> \o recs, eol) \o (IF fin THEN eol ELSE <<>>)
HExact == R(<<NID, NS, NN>>)
Headers == { <<HExact, R3(T1, Tab, T7)>>,
             <<R(<<Nid, Ns, Nn>>), R3(T1, Tab, T7)>>,                       \* lower case
             <<R(<<Q(NID), Q(NS), Q(NN)>>), R3(T1, Tab, T7)>>,              \* quoted names
             <<R(<<NS, NID, NN>>), R3(Tab, T1, T7)>>,                       \* permuted
             <<R(<<NID, NS>>), R(<<T1, Tab>>)>>,                             \* subset
             <<R(<<NID, NS, NX>>), R3(T1, Tab, T7)>>,                       \* unknown column
             <<R(<<NID, NID, NN>>), R3(T1, T1, T7)>>,                       \* duplicate column
             <<R(<<NID, NS, Hinj>>), R3(T1, Tab, T7)>>,                     \* SQL fragment as a name
             <<R(<<NID, NS, Q(Kinj1)>>), R3(T1, Tab, T7)>>,                 \* quoted SQL fragment as a name
             <<R(<<T1, Tab, T7>>), R3(T1, Tab, T7)>>,                       \* no header line
             <<<<>>, R3(T1, Tab, T7)>> }                                    \* empty first line
Ragged == { File(HExact, <<R(<<T1, Tab>>)>>, <<LF>>, TRUE),                               \* a field short
            File(HExact, <<R(<<T1, Tab, T7, T7>>)>>, <<LF>>, TRUE),                       \* a field too many
            File(HExact, <<R3(T1, Tab, T7), R(<<T1, Tab>>), R3(Tm5, Tzz, T7)>>, <<LF>>, TRUE),
            File(HExact, <<R3(T1, Tab, T7), <<>>, R3(Tm5, Tzz, T7)>>, <<LF>>, TRUE),     \* blank line between records
            File(HExact, <<R3(T1, Tab, T7), <<>>>>, <<LF>>, TRUE),                        \* blank line at the end
            File(HExact, <<>>, <<LF>>, TRUE), File(HExact, <<>>, <<LF>>, FALSE),          \* header only
            <<>>, <<LF>>,                                                                 \* empty file, one line end
            File(HExact, <<R3(T1, Tab, T7)>>, <<CR>>, TRUE),                              \* CR as the line end
            File(HExact, <<R3(T1, Tab, T7), R3(Tm5, Tabc, T7), R3(T7, Tzz, <<>>)>>, <<LF>>, TRUE) }   \* all well-formed, three records
CsvFiles3 ==
   { File(HExact, <<R3(T1, s, T7)>>, eol, fin) : s \in SForms, eol \in Eols, fin \in BOOLEAN }
   \cup { File(HExact, <<R3(id, Tab, n)>>, <<LF>>, TRUE) : id \in IdForms, n \in { T7, <<>> } }
   \cup { File(h[1], <<h[2]>>, <<LF>>, TRUE) : h \in Headers }
   \cup { File(HExact, <<R3(T1, s1, T7), R3(Tm5, s2, <<>>)>>, eol, TRUE) : s1, s2 \in (IF Size >= 2 THEN SForms ELSE SPair), eol \in (IF Size >= 2 THEN Eols ELSE { <<LF>> }) }
   \cup (IF Size >= 2 THEN { File(HExact, <<R3(id, s, T7)>>, <<LF>>, FALSE) : id \in IdForms, s \in SForms } ELSE {})
   \cup Ragged
XForms == { Tdec, Tm225, T100, <<>>, Tabc, T1e2, <<32, 49, 46, 53>>, Q(Tdec), T007 }
CsvFilesF == { File(R(<<NID, NX>>), <<R(<<T1, x>>)>>, <<LF>>, TRUE) : x \in XForms }
CsvScenarios == { ImpScenario(Cols3, Before3, "csv", f) : f \in CsvFiles3 } \cup { ImpScenario(ColsF, BeforeF, "csv", f) : f \in CsvFilesF }

\* ---------------------------------------------------------------- json: documents and raw texts
JS(x) == JV("s", x, 0)
JI(k) == JV("i", IntText(k), k)
JF(x) == JV("f", x, 0)
JB(b) == JV("b", <<>>, b)
JX(x) == JV("x", x, 0)
M(k, v) == [k |-> k, v |-> v]
Obj3(i, s, n) == << M(NID, i), M(NS, s), M(NN, n) >>
SJ == { JS(x) : x \in { Tab, <<>>, TNULL, Tnull, T1, Tquote, Tlf, Tcrlf, Tbsl, Tfrag, Tcomma, Tsq, Tuni, Ttab, Tdq } }
         \cup { JNull, JI(5), JI(-5), JF(Tdec), JB(1), JB(0), JX(Tarr), JX(Tobj) }
SJFew == { JS(Tab), JS(TNULL), JS(Tfrag), JS(Tquote), JNull, JI(5), JX(Tarr) }
IdJ == { JI(1), JI(-5), JS(T1), JNull, JF(Tdec), JB(1), JS(Tabc), JX(Tarr), JS(<<>>) }
KeysS == { NS, Ns, NX, KcommaN, Kinj1, Kdq, Ksq, Ksemi, Ksp, <<>>, Klf }
KeysID == { Kinj2, Kinj3 }
Docs3 ==
   { << Obj3(JI(1), s, JI(7)) >> : s \in SJ }
   \cup { << << M(NID, i), M(NS, JS(Tab)) >> >> : i \in IdJ }
   \cup { << << M(NID, JI(2)), M(k, JS(Tzz)) >> >> : k \in KeysS }
   \cup { << Obj3(JI(1), JS(Tab), JI(7)), << M(NID, JI(2)), M(k, JS(Tzz)) >> >> : k \in KeysS }
   \cup { << << M(k, JI(5)) >> >> : k \in KeysID }
   \cup { << Obj3(JI(1), JS(Tab), JI(7)), << M(k, JI(5)) >> >> : k \in KeysID }
   \cup { << Obj3(JI(1), JS(Tab), JI(7)), << M(k, JI(5)) >>, Obj3(JI(3), JS(Tzz), JNull) >> : k \in KeysID }
   \cup { <<>>, << <<>> >>, << << M(NID, JI(1)) >> >>, << Obj3(JI(1), JS(Tab), JI(7)), Obj3(JI(-5), JS(Tzz), JNull) >>,
          << Obj3(JI(1), JS(Tab), JI(7)), Obj3(JS(Tabc), JS(Tzz), JNull), Obj3(JI(3), JS(Tkeep), JI(0)) >>,
          << Obj3(JI(1), JS(Tab), JI(7)), <<>> >> }
   \cup { << Obj3(JI(1), s1, JI(7)), Obj3(JI(-5), s2, JNull) >> : s1, s2 \in (IF Size >= 2 THEN SJ ELSE SJFew) }
\* texts that are not an array of objects (as characters): the empty file, [ , {"ID":1} , [1] , [[{"ID":1}]] , [{"ID":1},] ,
\* [{"ID":1} {"ID":2}] , [{"ID":1,"ID":2}] , [{"ID":01}] , null , [{"ID":1}]x , [{"ID":"a\qb"}]
RawJson == { <<>>, <<91>>,
             <<123, 34, 73, 68, 34, 58, 49, 125>>,
             <<91, 49, 93>>,
             <<91, 91, 123, 34, 73, 68, 34, 58, 49, 125, 93, 93>>,
             <<91, 123, 34, 73, 68, 34, 58, 49, 125, 44, 93>>,
             <<91, 123, 34, 73, 68, 34, 58, 49, 125, 32, 123, 34, 73, 68, 34, 58, 50, 125, 93>>,
             <<91, 123, 34, 73, 68, 34, 58, 49, 44, 34, 73, 68, 34, 58, 50, 125, 93>>,
             <<91, 123, 34, 73, 68, 34, 58, 48, 49, 125, 93>>,
             <<110, 117, 108, 108>>,
             <<91, 123, 34, 73, 68, 34, 58, 49, 125, 93, 120>>,
             <<91, 123, 34, 73, 68, 34, 58, 34, 97, 92, 113, 98, 34, 125, 93>> }
JsonFiles3 == { JWriteDoc(d, p) : d \in Docs3, p \in BOOLEAN } \cup RawJson
XJ == { JF(Tdec), JF(Tm225), JI(100), JNull, JS(Tdec), JS(Tabc), JB(1), JF(T1e2) }
JsonFilesF == { JWriteDoc(<< << M(NID, JI(1)), M(NX, x) >> >>, FALSE) : x \in XJ }
JsonScenarios == { ImpScenario(Cols3, Before3, "json", f) : f \in JsonFiles3 } \cup { ImpScenario(ColsF, BeforeF, "json", f) : f \in JsonFilesF }

Scenarios == CASE Family = "rt" -> RtScenarios [] Family = "csv" -> CsvScenarios [] Family = "json" -> JsonScenarios [] OTHER -> {}
ASSUME \A s \in Scenarios : PrintT(<<"REPLAY", ToJson(s)>>)
ASSUME PrintT(<<"COUNT", Family, Cardinality(Scenarios)>>)

\* ================================================================ theorems of the reference model (Family = "laws")
Strings(alpha, n) == UNION { [1..k -> alpha] : k \in 0..n }
\* RFC 4180 round trip: what is written is read back, field for field (quoted iff written quoted), for every line end and with
\* or without the final line end.  (A last record that is one empty unquoted field is an empty line: only with the final line end.)
LawAlpha == {97, COMMA, DQ, LF, CR, SP}
LawFields(n) == { F(x, q) : x \in Strings(LawAlpha, n), q \in BOOLEAN }
LawRecs(n, w) == UNION { [1..k -> LawFields(n)] : k \in 1..w }
Lone(r) == r = << F(<<>>, FALSE) >>
CsvRound(recs, eol, fin) ==
   (fin \/ ~Lone(recs[Len(recs)])) =>
      ParseCsv(WriteCsv(recs, eol, fin)) = CsvOk([i \in 1..Len(recs) |-> [k \in 1..Len(recs[i]) |-> AsRead(recs[i][k])]])
CsvLaw ==
   /\ \A r \in LawRecs(2, 2), eol \in Eols, fin \in BOOLEAN : CsvRound(<<r>>, eol, fin)
   /\ \A r1, r2 \in LawRecs(1, IF Size >= 2 THEN 2 ELSE 1), eol \in Eols, fin \in BOOLEAN : CsvRound(<<r1, r2>>, eol, fin)
   /\ ParseCsv(<<>>) = CsvOk(<<>>)
\* the parser is total, and a text it accepts means the same as its canonical rewriting
CsvTotal ==
   \A t \in Strings({97, COMMA, DQ, LF, CR}, IF Size >= 2 THEN 6 ELSE 5) :
      \E p \in { ParseCsv(t) } :
         IF p.ok THEN ParseCsv(WriteCsv([i \in 1..Len(p.recs) |-> p.recs[i]], <<CR, LF>>, TRUE)) = p
         ELSE p.why \in { "bare CR", "quote inside an unquoted field", "text after a closing quote", "unterminated quote" }
\* JSON: what is written is read back, in both layouts
LawVals == SJ \cup IdJ \cup XJ
LawObjs == { <<>> } \cup { << M(k, v) >> : k \in KeysS \cup KeysID, v \in LawVals } \cup { Obj3(JI(1), v, w) : v, w \in SJFew }
JsonLaw ==
   /\ \A o \in LawObjs, p \in BOOLEAN : JDoc(JWriteDoc(<<o>>, p)) = [ok |-> TRUE, objs |-> <<o>>, why |-> ""]
   /\ \A d \in Docs3, p \in BOOLEAN : JDoc(JWriteDoc(d, p)) = [ok |-> TRUE, objs |-> d, why |-> ""]
   /\ \A t \in RawJson : ~JDoc(t).ok \/ \E r \in 1..Len(JDoc(t).objs) : HasDupKeys(JDoc(t).objs[r])
\* export then import reproduces the rows: the reference exporter's file is well-formed, every record has to be accepted, and
\* the reference reading - as well as every accepted reading - is the original table
RoundTrip(cols, rows, fmt) ==
   \E m \in { FileMeaning(fmt, cols, Export(fmt, cols, rows)) } :
      /\ m.fs = "must" /\ \A r \in 1..Len(m.recs) : m.recs[r].st = "must"
      /\ RefRows(cols, m) = rows
      /\ MatchBag(cols, m.recs, rows)
RoundTripLaw == /\ \A rows \in Rt3, fmt \in Fmts : RoundTrip(Cols3, rows, fmt)
                /\ \A rows \in RtF, fmt \in Fmts : RoundTrip(ColsF, rows, fmt)
\* the verdict: the reference answer is accepted, refusing is accepted exactly where the model allows it, and an import that
\* touches the bystander, loses a row or adds a row that is in no record is flagged
Tbl(name, cols, rows) == [name |-> name, cols |-> cols, rows |-> rows]
Db(cols, rows) == << Tbl("T", cols, rows), Tbl("T2", ColsB, BRows) >>
MustRows(cols, m) == LET S == SelectSeq([r \in 1..Len(m.recs) |-> r], LAMBDA r : m.recs[r].st = "must") IN [k \in 1..Len(S) |-> RefRow(cols, m.recs[S[k]])]
Verdicts(fmt, cols, before, text) ==
   \E m \in { FileMeaning(fmt, cols, text) } :
      LET good == IF m.fs \in {"must", "may"} THEN before \o MustRows(cols, m) ELSE before
          mayRefuse == m.fs \in {"malformed", "no", "may"} \/ m.recs = <<>> \/ \E r \in 1..Len(m.recs) : m.recs[r].st # "must"
          extra == [c \in 1..Len(cols) |-> IF c = 1 THEN IntV(99) ELSE Null] IN
      /\ JudgeImport(fmt, "T", text, Db(cols, before), Db(cols, good), "ok") = ""
      /\ JudgeImport(fmt, "T", text, Db(cols, before), Db(cols, before), "err") = (IF mayRefuse THEN "" ELSE "rejected")
      /\ JudgeImport(fmt, "T", text, Db(cols, before), << Tbl("T", cols, good), Tbl("T2", ColsB, <<>>) >>, "ok") = "unsafe"
      /\ JudgeImport(fmt, "T", text, Db(cols, before), << Tbl("T", cols, good) >>, "ok") = "unsafe"
      /\ JudgeImport(fmt, "T", text, Db(cols, before), Db(cols, <<>>), "ok") = "lost"
      /\ JudgeImport(fmt, "T", text, Db(cols, before), Db(cols, Append(good, extra)), "err") = "partial"
      /\ (m.fs # "malformed" => JudgeImport(fmt, "T", text, Db(cols, before), Db(cols, Append(good, extra)), "ok") = "rows")
      /\ JudgeImport(fmt, "T", text, Db(cols, before), Db(cols, good), "panic") = "panic"
VerdictLaw == /\ \A f \in CsvFiles3 : Verdicts("csv", Cols3, Before3, f)
              /\ \A f \in CsvFilesF : Verdicts("csv", ColsF, BeforeF, f)
              /\ \A f \in JsonFiles3 : Verdicts("json", Cols3, Before3, f)
              /\ \A f \in JsonFilesF : Verdicts("json", ColsF, BeforeF, f)
\* vacuity: the generated files reach every file status and every record status
Stats(fmt, cols, files) == { <<m.fs, { m.recs[r].st : r \in 1..Len(m.recs) }>> : m \in { FileMeaning(fmt, cols, f) : f \in files } }
Reached == /\ { s[1] : s \in Stats("csv", Cols3, CsvFiles3) } = {"must", "may", "no", "malformed"}
           /\ UNION { s[2] : s \in Stats("csv", Cols3, CsvFiles3) } = {"must", "may", "no"}
           /\ { s[1] : s \in Stats("json", Cols3, JsonFiles3) } = {"must", "malformed"}
           /\ UNION { s[2] : s \in Stats("json", Cols3, JsonFiles3) } = {"must", "may", "no"}
ASSUME Family = "laws" => CsvLaw
ASSUME Family = "laws" => CsvTotal
ASSUME Family = "laws" => JsonLaw
ASSUME Family = "laws" => RoundTripLaw
ASSUME Family = "laws" => VerdictLaw
ASSUME Family = "laws" => Reached
ASSUME Family = "laws" => PrintT(<<"LAWS", Cardinality(LawRecs(2, 2)), Cardinality(Rt3) + Cardinality(RtF),
                                  Cardinality(CsvFiles3) + Cardinality(CsvFilesF), Cardinality(JsonFiles3) + Cardinality(JsonFilesF)>>)

Init == dummy = 0
Next == UNCHANGED dummy
=============================================================================
