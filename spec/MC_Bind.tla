------------------------------- MODULE MC_Bind -------------------------------
(***************************************************************************)
(* GEN for C30: sequences of cursor.execute(text, params) calls of the      *)
(* Python DB-API extension.  A call means: the statement obtained from the  *)
(* text by replacing every '?' OUTSIDE string literals, left to right, by a  *)
(* literal of the corresponding parameter value - nothing else (no memory of *)
(* earlier calls with the same text, no change of the statement's structure  *)
(* by quotes or '?' inside values).  That meaning is computed HERE: every     *)
(* template carries its Engine action as a function of the parameters, so     *)
(* each emitted step is an ordinary Engine action (validated by TraceEngine:  *)
(* outcome, affected rows, table contents, fetched rows) plus the text and    *)
(* the parameter tuple the Python driver hands to the extension.              *)
(***************************************************************************)
EXTENDS Engine, Json
CONSTANTS MaxCalls
VARIABLES st, hist, base
vars == <<st, hist, base>>
RECURSIVE Run(_,_)
Run(s, as) == IF as = <<>> THEN s ELSE Run(Apply(s, Head(as)).st, Tail(as))

Setup == << [x \in (DOMAIN CreateTable("T", <<>>)) \cup {"text", "params"} |->
                IF x = "text" THEN "CREATE TABLE T (A INTEGER, B VARCHAR(20))" ELSE IF x = "params" THEN <<>>
                ELSE CreateTable("T", << ColDef("A", "INTEGER"), ColDef("B", "VARCHAR(20)") >>)[x]] >>
IntP == { I(0), I(1), I(-1), NULL }
StrP == { S("a"), S("it's"), S("?"), S("a?b"), S(""), S("x' OR '1'='1"), S("a;b"), NULL,
          S("NULL"), S("1") }        \* strings that PRINT like another parameter value (None, the integer 1)
T == TableRef("T")
With(act, text, params) == [x \in (DOMAIN act) \cup {"text", "params"} |-> IF x = "text" THEN text ELSE IF x = "params" THEN params ELSE act[x]]
SelAB(w) == QueryA([BaseSel(T) EXCEPT !.star = FALSE, !.sel = <<SelItem(Col("A"), "A"), SelItem(Col("B"), "B")>>, !.where = w])
SelA(w) == QueryA([BaseSel(T) EXCEPT !.star = FALSE, !.sel = <<SelItem(Col("A"), "A")>>, !.where = w])
Calls ==
      { With(InsertV("T", << <<a, b>> >>), "INSERT INTO T VALUES (?, ?)", <<a, b>>) : a \in IntP, b \in StrP }
 \cup { With(SelAB(CmpE("=", Col("A"), Lit(a))), "SELECT A, B FROM T WHERE A = ?", <<a>>) : a \in IntP }
 \cup { With(SelA(CmpE("=", Col("B"), Lit(b))), "SELECT A FROM T WHERE B = ?", <<b>>) : b \in StrP }
 \cup { With(SelA(CmpE("=", Col("B"), Lit(S("?")))), "SELECT A FROM T WHERE B = '?'", <<>>) }
 \cup { With(SelA(AndE(CmpE("=", Col("B"), Lit(S("?"))), CmpE("=", Col("A"), Lit(a)))), "SELECT A FROM T WHERE B = '?' AND A = ?", <<a>>) : a \in {I(0), I(1)} }
 \cup { With(UpdateA("T", << [c |-> "B", e |-> Lit(b)] >>, CmpE("=", Col("A"), Lit(a))), "UPDATE T SET B = ? WHERE A = ?", <<b, a>>) : a \in {I(0), I(1)}, b \in StrP }
 \cup { With(DeleteA("T", CmpE("=", Col("B"), Lit(b))), "DELETE FROM T WHERE B = ?", <<b>>) : b \in {S("a"), S("it's"), S("?")} }
Init == st = Run(InitSt, Setup) /\ hist = Setup /\ base = Len(Setup)
Next == \E c \in Calls : st' = Apply(st, c).st /\ hist' = Append(hist, c) /\ base' = base
\* which texts were used before matters for the implementation's statement cache: keep the set of used texts in the view
Texts(h) == { h[i].text : i \in { i \in 1..Len(h) : "text" \in DOMAIN h[i] } }
View == <<st.tabs, Texts(hist)>>
Bound == Len(hist) < MaxCalls + base /\ Len(st.tabs["T"].rows) <= 2
Emit == PrintT(<<"REPLAY", ToJson(hist')>>)
=============================================================================
