CONSTANTS
  Mode = "rt"
  MaxRows = 11
  MaxAt = 40
INIT Init
NEXT Next
CHECK_DEADLOCK FALSE
