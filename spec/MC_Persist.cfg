CONSTANTS
  Mode = "rt"
  MaxRows = 11
  MaxAt = 40
  Stride = 7
  MaxStrides = 0
  Stride2 = 5
  MaxStrides2 = 0
INIT Init
NEXT Next
CHECK_DEADLOCK FALSE
