------------------------------- MODULE MC_Auth -------------------------------
(***************************************************************************)
(* GEN for C29.  State machine over the password store: Add (through the   *)
(* API in every creation mode) and Load (password file) up to MaxDepth     *)
(* steps; `past` remembers the passwords a user had before an overwrite.   *)
(* For every distinct reachable (store, past) TLC prints ONE scenario: the *)
(* shortest history that builds the store followed by the full probe set   *)
(*   cleartext : every user (and an unknown one) x every password          *)
(*   MD5       : every user x the issued salt x                            *)
(*                 well-formed responses computed from every password x    *)
(*                 every user name x {issued salt, another salt}           *)
(*                 near-miss forms of the RIGHT digest (no "md5" prefix,    *)
(*                 upper-case hex, "MD5" prefix, truncated, one character  *)
(*                 more, prefix only, empty, the password itself, doubled  *)
(*                 prefix, inner digest, trailing blank)                   *)
(* '#' in a name or password stands for a non-ASCII character (the check   *)
(* substitutes U+00E9 when it computes the concrete strings); "" is the    *)
(* empty password.  Users "c" / "bc" and passwords "ab" / "a" are chosen   *)
(* so that pw \o user collides across users.                               *)
(***************************************************************************)
EXTENDS Auth, TLC, Json, SequencesExt
CONSTANTS MaxDepth, Modes, FileModes, Pws, FilePws
VARIABLES store, past, hist
vars == <<store, past, hist>>

Users == {"c", "bc"}
Unknown == "zz"
S1 == <<1, 2, 3, 4>>
S2 == <<0, 255, 10, 13>>
Forms == {"bare", "upper", "capprefix", "trunc", "extra", "prefix_only", "empty", "stored_clear", "double", "inner", "space"}

AddA(u, mode, pw) == [a |-> "add", u |-> u, mode |-> mode, pw |-> pw]
LoadA(ents) == [a |-> "load", ents |-> ents]
Ent(u, mode, pw) == [u |-> u, mode |-> mode, pw |-> pw]
Files == { <<Ent(u, m, p)>> : u \in Users, m \in FileModes, p \in FilePws }
           \cup { <<Ent("c", m1, "ab"), Ent("bc", m2, "a")>> : m1, m2 \in FileModes }
           \cup { <<Ent("c", m, "ab"), Ent("c", m, "a")>> : m \in FileModes }

Superseded(s2) == { <<u, store[u].pw>> : u \in { x \in DOMAIN store : x \notin DOMAIN s2 \/ s2[x] # store[x] } }
Init == store = EmptyStore /\ past = {} /\ hist = <<>>
Add == \E u \in Users, m \in Modes, p \in Pws :
          LET s2 == Put(store, u, m, p) IN store' = s2 /\ past' = past \cup Superseded(s2) /\ hist' = Append(hist, AddA(u, m, p))
LoadF == \E f \in Files :
          LET s2 == Load(f) IN store' = s2 /\ past' = past \cup Superseded(s2) /\ hist' = Append(hist, LoadA(f))
Next == Len(hist) < MaxDepth /\ (Add \/ LoadF)
View == <<store, past>>

\* ---------------------------------------------------------------- probes
ClearA(u, p) == [a |-> "clear", u |-> u, p |-> p]
Md5A(u, form, dpw, du, dsalt) == [a |-> "md5", u |-> u, salt |-> S1, form |-> form, dpw |-> dpw, du |-> du, dsalt |-> dsalt]
Target(s, u) == IF u \in DOMAIN s THEN s[u].pw ELSE "ab"
ClearProbes == SetToSeq({ ClearA(u, p) : u \in Users \cup {Unknown}, p \in Pws })
Md5Probes(s) == SetToSeq({ Md5A(u, "md5hex", p, du, ds) : u \in Users \cup {Unknown}, p \in Pws, du \in Users \cup {Unknown}, ds \in {S1, S2} }
                          \cup { Md5A(u, f, Target(s, u), u, S1) : u \in Users \cup {Unknown}, f \in Forms })
Probes(s) == ClearProbes \o Md5Probes(s)
Emit == PrintT(<<"REPLAY", ToJson(hist \o Probes(store))>>)

\* ---------------------------------------------------------------- theorems of the reference model (checked on every state)
AllUsers == Users \cup {Unknown}
RespOf(a) == Resp(a.form, a.dpw, a.du, a.dsalt)
AcceptedMd5(s, u) == { i \in 1..Len(Md5Probes(s)) : Md5Probes(s)[i].u = u /\ VerifyMd5(s, u, RespOf(Md5Probes(s)[i]), S1) }
Theorems ==
   \* at most one password opens an account; an unknown user opens nothing
   /\ \A u \in AllUsers : Cardinality({ p \in Pws : VerifyClear(store, u, p) }) <= (IF u \in DOMAIN store THEN 1 ELSE 0)
   \* no account is open to both exchanges
   /\ \A u \in AllUsers : (\E p \in Pws : VerifyClear(store, u, p)) => AcceptedMd5(store, u) = {}
   \* every accepted MD5 response is well-formed, was made for the issued salt, and carries the digest of the stored password
   /\ \A u \in AllUsers : \A i \in AcceptedMd5(store, u) : LET a == Md5Probes(store)[i] IN
          a.form = "md5hex" /\ a.dsalt = S1 /\ a.dpw \o a.du = store[u].pw \o u
   \* the right response is accepted (the iff is not vacuous)
   /\ \A u \in DOMAIN store : store[u].k = "md5" => VerifyMd5(store, u, Resp("md5hex", store[u].pw, u, S1), S1)
   /\ \A u \in DOMAIN store : store[u].k = "argon2" => VerifyClear(store, u, store[u].pw)
   \* a superseded password no longer opens the account
   /\ \A x \in past : (x[1] \notin DOMAIN store \/ store[x[1]].pw # x[2]) => ~VerifyClear(store, x[1], x[2])
\* changing one user's entry does not change what any other user may do
Frame == [][ hist' # hist /\ hist'[Len(hist')].a = "add" =>
               \A v \in AllUsers \ {hist'[Len(hist')].u} : \A p \in Pws :
                   VerifyClear(store', v, p) = VerifyClear(store, v, p)
                   /\ VerifyMd5(store', v, Resp("md5hex", p, v, S1), S1) = VerifyMd5(store, v, Resp("md5hex", p, v, S1), S1) ]_vars
=============================================================================
