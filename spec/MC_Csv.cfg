CONSTANTS
  Family = "rt"
  Size = 1
INIT Init
NEXT Next
CHECK_DEADLOCK FALSE
