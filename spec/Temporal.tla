------------------------------ MODULE Temporal ------------------------------
(***************************************************************************)
(* C22: calendar validity, the text forms of DATE / TIME / TIMESTAMP /      *)
(* INTERVAL values and a reference reader for the canonical forms.          *)
(*                                                                         *)
(* A value is a record of integer components                                *)
(*    date  [y, m, d]        time [h, mi, s, ns]       timestamp = both      *)
(*    interval [mo, d, s, us]   (months, days, whole seconds, microseconds;  *)
(*                               all >= 0 or all <= 0)                       *)
(* Texts are built here (TLC concatenates strings), so the harness never     *)
(* decides what a value looks like as text, and never what a text means.     *)
(* Numbers stay below 2^31 (TLC integers): seconds and microseconds of an    *)
(* interval are kept apart for that reason.                                  *)
(***************************************************************************)
EXTENDS Integers, Sequences, FiniteSets, TLC

\* ---------------------------------------------------------------- calendar
IsLeap(y)    == (y % 4 = 0 /\ y % 100 # 0) \/ y % 400 = 0
DaysIn(y, m) == IF m \in {1, 3, 5, 7, 8, 10, 12} THEN 31 ELSE IF m = 2 THEN (IF IsLeap(y) THEN 29 ELSE 28) ELSE 30
ValidDate(y, m, d)     == y \in 1..9999 /\ m \in 1..12 /\ d \in 1..DaysIn(y, m)
ValidTime(h, mi, s, ns) == h \in 0..23 /\ mi \in 0..59 /\ s \in 0..59 /\ ns \in 0..999999999
DaysInYear(y) == IF IsLeap(y) THEN 366 ELSE 365

\* ---------------------------------------------------------------- decimal text
Pow10(k) == CASE k = 0 -> 1 [] k = 1 -> 10 [] k = 2 -> 100 [] k = 3 -> 1000 [] k = 4 -> 10000 [] k = 5 -> 100000
              [] k = 6 -> 1000000 [] k = 7 -> 10000000 [] k = 8 -> 100000000 [] k = 9 -> 1000000000
RECURSIVE Pad(_, _)
Pad(n, w) == IF w <= 1 THEN ToString(n) ELSE IF n < Pow10(w - 1) THEN "0" \o Pad(n, w - 1) ELSE ToString(n)   \* n >= 0
Abs(n) == IF n < 0 THEN 0 - n ELSE n

\* fraction of `frac` (an integer of `width` decimal digits) written with k digits; MinFrac = fewest digits that lose nothing
FracText(frac, width, k) == Pad(frac \div Pow10(width - k), k)
MinFrac(frac, width)     == IF frac = 0 THEN 0 ELSE CHOOSE k \in 1..width : frac % Pow10(width - k) = 0 /\ \A j \in 1..(k - 1) : frac % Pow10(width - j) # 0
\* "SS", "SS.f" .. with every precision that represents the fraction exactly
SecTexts(whole, wpad, frac, width) ==
   { Pad(whole, wpad) \o (IF k = 0 THEN "" ELSE "." \o FracText(frac, width, k)) : k \in MinFrac(frac, width)..width }
SecCanon(whole, wpad, frac, width) ==
   LET k == MinFrac(frac, width) IN Pad(whole, wpad) \o (IF k = 0 THEN "" ELSE "." \o FracText(frac, width, k))

\* ---------------------------------------------------------------- DATE / TIME / TIMESTAMP texts
DateText(c)   == Pad(c.y, 4) \o "-" \o Pad(c.m, 2) \o "-" \o Pad(c.d, 2)
HmText(c)     == Pad(c.h, 2) \o ":" \o Pad(c.mi, 2)
TimeCanon(c)  == HmText(c) \o ":" \o SecCanon(c.s, 2, c.ns, 9)
TimeTexts(c)  == { HmText(c) \o ":" \o st : st \in SecTexts(c.s, 2, c.ns, 9) }

ValidValue(kind, c) == CASE kind = "date" -> ValidDate(c.y, c.m, c.d)
                         [] kind = "time" -> ValidTime(c.h, c.mi, c.s, c.ns)
                         [] kind = "ts"   -> ValidDate(c.y, c.m, c.d) /\ ValidTime(c.h, c.mi, c.s, c.ns)
\* the canonical text, and the set of texts a formatter may choose from (any lossless precision of the fraction)
Canon(kind, c)   == CASE kind = "date" -> DateText(c) [] kind = "time" -> TimeCanon(c) [] kind = "ts" -> DateText(c) \o " " \o TimeCanon(c)
Display(kind, c) == CASE kind = "date" -> {DateText(c)}
                      [] kind = "time" -> TimeTexts(c)
                      [] kind = "ts"   -> { DateText(c) \o " " \o t : t \in TimeTexts(c) }
\* texts that denote the value and must be read back as exactly that value
Forms(kind, c)   == Display(kind, c)
                    \cup (IF kind = "ts" THEN { DateText(c) \o "T" \o t : t \in TimeTexts(c) } ELSE {})
                    \cup (IF kind = "ts" /\ c.h = 0 /\ c.mi = 0 /\ c.s = 0 /\ c.ns = 0 THEN {DateText(c)} ELSE {})
\* which components a kind compares
SameValue(kind, c, o) == /\ (kind \in {"date", "ts"} => (o.y = c.y /\ o.m = c.m /\ o.d = c.d))
                         /\ (kind \in {"time", "ts"} => (o.h = c.h /\ o.mi = c.mi /\ o.s = c.s /\ o.ns = c.ns))

\* ---------------------------------------------------------------- INTERVAL texts
IvIsYM(v)  == v.d = 0 /\ v.s = 0 /\ v.us = 0
IvIsDT(v)  == v.mo = 0
IvNeg(v)   == v.mo < 0 \/ v.d < 0 \/ v.s < 0 \/ v.us < 0
IvValid(v) == /\ (IvIsYM(v) \/ IvIsDT(v))
              /\ ((v.mo >= 0 /\ v.d >= 0 /\ v.s >= 0 /\ v.us >= 0) \/ (v.mo <= 0 /\ v.d <= 0 /\ v.s <= 0 /\ v.us <= 0))
              /\ Abs(v.us) <= 999999
Sg(v) == IF IvNeg(v) THEN "-" ELSE ""
Form(f, txt) == [f |-> f, txt |-> txt]
\* every (form name, text) that denotes v: single-unit forms, and the compound forms of SQL:1999 (non-negative only,
\* except YEAR TO MONTH whose sign applies to the whole literal)
IvForms(v) ==
   LET mo == Abs(v.mo) d == Abs(v.d) s == Abs(v.s) us == Abs(v.us)
       hh == s \div 3600  mm == (s % 3600) \div 60  ss == s % 60
       whole == us = 0
       pos == ~IvNeg(v)
   IN  (IF IvIsYM(v) THEN
           (IF mo % 12 = 0 THEN {Form("YEAR", Sg(v) \o ToString(mo \div 12) \o " YEAR")} ELSE {})
           \cup {Form("MONTH", Sg(v) \o ToString(mo) \o " MONTH")}
           \cup {Form("YEAR TO MONTH", Sg(v) \o ToString(mo \div 12) \o "-" \o ToString(mo % 12) \o " YEAR TO MONTH")}
        ELSE {})
       \cup
       (IF IvIsDT(v) THEN
           (IF s = 0 /\ whole THEN {Form("DAY", Sg(v) \o ToString(d) \o " DAY")} ELSE {})
           \cup (IF d = 0 /\ whole /\ s % 3600 = 0 THEN {Form("HOUR", Sg(v) \o ToString(hh) \o " HOUR")} ELSE {})
           \cup (IF d = 0 /\ whole /\ s % 60 = 0 THEN {Form("MINUTE", Sg(v) \o ToString(s \div 60) \o " MINUTE")} ELSE {})
           \cup (IF d = 0 THEN { Form("SECOND", Sg(v) \o st \o " SECOND") : st \in SecTexts(s, 1, us, 6) } ELSE {})
           \cup (IF pos /\ s < 86400 THEN { Form("DAY TO SECOND", ToString(d) \o " " \o Pad(hh, 2) \o ":" \o Pad(mm, 2) \o ":" \o st \o " DAY TO SECOND") : st \in SecTexts(ss, 2, us, 6) } ELSE {})
           \cup (IF pos /\ s < 86400 /\ whole /\ ss = 0 THEN {Form("DAY TO MINUTE", ToString(d) \o " " \o Pad(hh, 2) \o ":" \o Pad(mm, 2) \o " DAY TO MINUTE")} ELSE {})
           \cup (IF pos /\ s < 86400 /\ whole /\ ss = 0 /\ mm = 0 THEN {Form("DAY TO HOUR", ToString(d) \o " " \o Pad(hh, 2) \o " DAY TO HOUR")} ELSE {})
           \cup (IF pos /\ d = 0 THEN { Form("HOUR TO SECOND", Pad(hh, 2) \o ":" \o Pad(mm, 2) \o ":" \o st \o " HOUR TO SECOND") : st \in SecTexts(ss, 2, us, 6) } ELSE {})
           \cup (IF pos /\ d = 0 /\ whole /\ ss = 0 THEN {Form("HOUR TO MINUTE", Pad(hh, 2) \o ":" \o Pad(mm, 2) \o " HOUR TO MINUTE")} ELSE {})
           \cup (IF pos /\ d = 0 THEN { Form("MINUTE TO SECOND", Pad(s \div 60, 2) \o ":" \o st \o " MINUTE TO SECOND") : st \in SecTexts(ss, 2, us, 6) } ELSE {})
        ELSE {})
\* the plainest single-unit spelling of v ("" when v needs two units): used to observe equality through the public API
IvRef(v) == IF IvIsYM(v) THEN Sg(v) \o ToString(Abs(v.mo)) \o " MONTH"
            ELSE IF v.s = 0 /\ v.us = 0 THEN Sg(v) \o ToString(Abs(v.d)) \o " DAY"
            ELSE IF v.d = 0 THEN Sg(v) \o SecCanon(Abs(v.s), 1, Abs(v.us), 6) \o " SECOND"
            ELSE ""
IvSame(v, o) == o.mo = v.mo /\ o.d = v.d /\ o.s = v.s /\ o.us = v.us

\* ---------------------------------------------------------------- reference reader for canonical texts given as character sequences
\* (the totality model mutates texts character by character; a mutant that is still a canonical text of a valid value
\*  must be read as exactly that value, every other mutant may be accepted or rejected, none may crash)
DigitVal == "0" :> 0 @@ "1" :> 1 @@ "2" :> 2 @@ "3" :> 3 @@ "4" :> 4 @@ "5" :> 5 @@ "6" :> 6 @@ "7" :> 7 @@ "8" :> 8 @@ "9" :> 9
IsDigit(ch) == ch \in DOMAIN DigitVal
AllDigits(t, a, b) == \A k \in a..b : IsDigit(t[k])
RECURSIVE NumOf(_, _, _)
NumOf(t, a, b) == IF b < a THEN 0 ELSE NumOf(t, a, b - 1) * 10 + DigitVal[t[b]]
NoValue == [ok |-> FALSE, y |-> 0, m |-> 0, d |-> 0, h |-> 0, mi |-> 0, s |-> 0, ns |-> 0]
\* YYYY-MM-DD at positions a..a+9
ReadDate(t, a) == IF a + 9 <= Len(t) /\ AllDigits(t, a, a + 3) /\ t[a + 4] = "-" /\ AllDigits(t, a + 5, a + 6) /\ t[a + 7] = "-" /\ AllDigits(t, a + 8, a + 9)
                  THEN [NoValue EXCEPT !.ok = TRUE, !.y = NumOf(t, a, a + 3), !.m = NumOf(t, a + 5, a + 6), !.d = NumOf(t, a + 8, a + 9)]
                  ELSE NoValue
\* HH:MM:SS[.f{1..9}] from position a to the end
ReadTime(t, a) == LET n == Len(t)
                      base == a + 7 <= n /\ AllDigits(t, a, a + 1) /\ t[a + 2] = ":" /\ AllDigits(t, a + 3, a + 4) /\ t[a + 5] = ":" /\ AllDigits(t, a + 6, a + 7)
                      nf == n - (a + 8)       \* number of fraction digits if a fraction follows
                      frac == n > a + 7 /\ t[a + 8] = "." /\ nf \in 1..9 /\ AllDigits(t, a + 9, n)
                  IN IF base /\ (n = a + 7 \/ frac)
                     THEN [NoValue EXCEPT !.ok = TRUE, !.h = NumOf(t, a, a + 1), !.mi = NumOf(t, a + 3, a + 4), !.s = NumOf(t, a + 6, a + 7),
                                          !.ns = IF n = a + 7 THEN 0 ELSE NumOf(t, a + 9, n) * Pow10(9 - nf)]
                     ELSE NoValue
\* [ok, components] of a character sequence that is a canonical-shaped text of a VALID value of the kind; ok = FALSE otherwise
ReadCanon(kind, t) ==
   LET r == CASE kind = "date" -> IF Len(t) = 10 THEN ReadDate(t, 1) ELSE NoValue
              [] kind = "time" -> ReadTime(t, 1)
              [] kind = "ts"   -> LET dd == ReadDate(t, 1) tt == ReadTime(t, 12)
                                  IN IF Len(t) >= 19 /\ dd.ok /\ tt.ok /\ t[11] \in {" ", "T"}
                                     THEN [tt EXCEPT !.y = dd.y, !.m = dd.m, !.d = dd.d] ELSE NoValue
              [] OTHER -> NoValue
   IN IF r.ok /\ ValidValue(kind, r) THEN r ELSE NoValue
=============================================================================
