------------------------------ MODULE TraceCsv -------------------------------
(***************************************************************************)
(* VAL for C31: validates an ndjson trace recorded by vq_cli from the      *)
(* CLI's real `\copy` implementation against CsvJson.tla.  Deterministic   *)
(* fold, one TLC state per event.  Every event carries e.db, the whole     *)
(* database after the step (tables sorted by name, columns, rows), and     *)
(* e.file, the text of the file written / read (code points).              *)
(*   reset            new session: empty database                          *)
(*   create / fill    set-up through SQL / the storage API: the database   *)
(*                    must be the one before plus the table / the rows     *)
(*                    (what = "setup": the scenario could not be staged)   *)
(*   export a.t       `\copy t TO file`: must succeed and change nothing;  *)
(*                    the file and the rows of t are remembered            *)
(*   import a.t       `\copy t FROM file`, the file being the last export  *)
(*                    (a.src = "last") or a.text.  Accepted iff            *)
(*                    CsvJson!JudgeImport(..) = "" and - after an export - *)
(*                    the rows that arrived are the exported table's rows  *)
(*                    as a multiset (what = "roundtrip"; want.blame says   *)
(*                    whether the reference reading of the file gives the  *)
(*                    rows, i.e. which side lost them).                    *)
(* After a mismatch the observed database is adopted and validation goes   *)
(* on (the fold always continues from e.db).                               *)
(***************************************************************************)
EXTENDS CsvJson, TLC, Json, IOUtils

Rec == ndJsonDeserialize(IOEnv.TRACE)
MaxBad == 25        \* mismatch records kept per kind of deviation and shard; every mismatch is counted in cnt["bad:<kind>"]

VARIABLES l, db, lastfile, lastrows, lastok, bad, cnt
vars == <<l, db, lastfile, lastrows, lastok, bad, cnt>>

Inc(c, k) == IF k \in DOMAIN c THEN [c EXCEPT ![k] = @ + 1] ELSE c @@ (k :> 1)
BadRec(e, what, exp, want) == [sc |-> e.sc, i |-> e.i, a |-> e.a.a, what |-> what, exp |-> exp, obs |-> e.out, dev |-> "",
                               cfg |-> e.cfg, want |-> want]
AddBad(b, r) == IF Cardinality({ i \in 1..Len(b) : b[i].what = r.what /\ b[i].obs = r.obs /\ b[i].exp = r.exp }) < MaxBad THEN Append(b, r) ELSE b
AsSet(s) == { s[i] : i \in 1..Len(s) }
RowsOf(d, name) == IF TableOf(d, name) = 0 THEN <<>> ELSE d[TableOf(d, name)].rows

Init == l = 1 /\ db = <<>> /\ lastfile = <<>> /\ lastrows = <<>> /\ lastok = FALSE /\ bad = <<>> /\ cnt = [ok |-> 0, queries |-> 0]

Keep == lastfile' = lastfile /\ lastrows' = lastrows /\ lastok' = lastok
Verdict1(e, w, exp, want, keys) ==
   /\ bad' = IF w = "" THEN bad ELSE AddBad(bad, BadRec(e, w, exp, want))
   /\ cnt' = LET c1 == IF w = "" THEN Inc(cnt, "ok") ELSE Inc(cnt, "bad:" \o w)
                 c2 == IF Len(keys) >= 1 THEN Inc(c1, keys[1]) ELSE c1 IN
             IF Len(keys) >= 2 THEN Inc(c2, keys[2]) ELSE c2

StepReset(e) ==
   /\ db' = e.db /\ lastfile' = <<>> /\ lastrows' = <<>> /\ lastok' = FALSE
   /\ Verdict1(e, IF e.out = "ok" /\ e.db = <<>> THEN "" ELSE "setup", "empty database", <<>>, <<>>)
StepCreate(e) ==
   LET good == e.out = "ok" /\ Len(e.db) = Len(db) + 1 /\ AsSet(e.db) = AsSet(db) \cup { [name |-> e.a.t, cols |-> e.a.cols, rows |-> <<>>] } IN
   /\ db' = e.db /\ Keep
   /\ Verdict1(e, IF good THEN "" ELSE "setup", "table created", <<>>, <<>>)
StepFill(e) ==
   LET good == e.out = "ok" /\ Len(e.db) = Len(db) /\ Others(e.db, e.a.t) = Others(db, e.a.t)
               /\ TableOf(db, e.a.t) # 0 /\ RowsOf(e.db, e.a.t) = RowsOf(db, e.a.t) \o e.a.rows IN
   /\ db' = e.db /\ Keep
   /\ Verdict1(e, IF good THEN "" ELSE "setup", "rows stored", <<>>, <<>>)
StepExport(e) ==
   LET w == IF e.out \notin {"ok", "err"} THEN e.out
            ELSE IF e.db # db THEN "unsafe"
            ELSE IF e.out # "ok" \/ e.fok # 1 THEN "export" ELSE "" IN
   /\ db' = e.db /\ lastfile' = e.file /\ lastrows' = RowsOf(db, e.a.t) /\ lastok' = (e.out = "ok" /\ e.fok = 1)
   /\ Verdict1(e, w, "file written, database unchanged", <<>>, << "export:" \o e.a.fmt \o ":" \o e.out >>)
\* m = the meaning of the file for the target table
StepImportM(e, text, m) ==
   LET rt == e.a.src = "last"
       cols == ColsOf(db, e.a.t)
       w0 == JudgeImportM(m, e.a.t, db, e.db, e.out)
       arrived == BagMinus(RowsOf(e.db, e.a.t), RowsOf(db, e.a.t))
       same == arrived.ok /\ SameBag(arrived.rest, lastrows)
       \* which side lost the rows: the file, read by the reference model, is the exported table or it is not
       faithful == m.fs = "must" /\ (\A r \in 1..Len(m.recs) : m.recs[r].st = "must") /\ MatchBag(cols, m.recs, lastrows)
       w == IF w0 # "" THEN w0 ELSE IF rt /\ ~same THEN "roundtrip" ELSE ""
       exp == IF w = "roundtrip" THEN "the exported rows arrive" ELSE "file " \o m.fs
       nst(s) == Cardinality({ r \in 1..Len(m.recs) : m.recs[r].st = s })
       want == [fs |-> m.fs, why |-> m.why, must |-> nst("must"), may |-> nst("may"), no |-> nst("no"),
                blame |-> IF ~rt THEN "" ELSE IF faithful THEN "import" ELSE "export"] IN
   /\ db' = e.db /\ Keep
   /\ Verdict1(e, w, exp, want,
               << (IF rt THEN "roundtrip:" ELSE "import:") \o e.a.fmt \o ":" \o m.fs \o ":" \o e.out,
                  IF rt THEN "roundtrip:" \o e.a.fmt \o (IF same THEN ":same" ELSE ":differs") ELSE "queries" >>)
StepImport(e) ==
   \E text \in { IF e.a.src = "last" THEN lastfile ELSE e.a.text } :
      \E m \in { FileMeaning(e.a.fmt, ColsOf(db, e.a.t), text) } : StepImportM(e, text, m)
Step(e) == CASE e.a.a = "reset"  -> StepReset(e)
             [] e.a.a = "create" -> StepCreate(e)
             [] e.a.a = "fill"   -> StepFill(e)
             [] e.a.a = "export" -> StepExport(e)
             [] e.a.a = "import" -> StepImport(e)
Next == l <= Len(Rec) /\ Step(Rec[l]) /\ l' = l + 1
Verdict == [n |-> Len(Rec), nbad |-> Len(bad), cnt |-> cnt, bad |-> bad]
Done == l > Len(Rec) => PrintT(<<"VERDICT", ToJson(Verdict)>>)
Post == TLCGet("stats").diameter = Len(Rec) + 1
=============================================================================
