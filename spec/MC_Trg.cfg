CONSTANTS
  MaxDepth = 3
  TrgSet = "fail"
INIT Init
NEXT Next
VIEW View
CONSTRAINT Bound
ACTION_CONSTRAINT Emit
INVARIANT Inv
PROPERTY FiringCount
CHECK_DEADLOCK FALSE
