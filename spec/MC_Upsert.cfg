CONSTANTS
  MaxDepth = 3
INIT Init
NEXT Next
VIEW View
CONSTRAINT Bound
ACTION_CONSTRAINT Emit
INVARIANT Inv
PROPERTY FailedIsStutter
PROPERTY LastRowPresent
CHECK_DEADLOCK FALSE
