------------------------------ MODULE TraceWire ------------------------------
(***************************************************************************)
(* VAL for C27 / C28: validates an ndjson trace recorded by vq_wire from   *)
(* the server's real protocol module against Wire.tla.  Deterministic      *)
(* fold, one TLC state per event:                                          *)
(*   reset            new connection (empty read and write buffers)        *)
(*   feed  a.b        bytes arrive; e.rem = the read buffer afterwards     *)
(*   dec   a.su       FrontendMessage::decode (su = 0) / decode_startup    *)
(*                    (su = 1) on the read buffer; e.out in need | err |   *)
(*                    msg | panic, e.m the decoded message, e.rem the      *)
(*                    buffer after the call.  Accepted iff                 *)
(*                    Wire!Judge(Decode(buf), buf, e) = "".                *)
(*   enc   a.m        BackendMessage::encode appends to the write buffer;  *)
(*                    e.buf = the whole write buffer afterwards.  Accepted *)
(*                    iff the earlier bytes are untouched and the appended *)
(*                    bytes are exactly one frame whose length field       *)
(*                    counts the bytes after the type byte, which the      *)
(*                    reference parser reads back as the same fields and   *)
(*                    (where field order is fixed) equals Wire!Encode(m).  *)
(* After a mismatch the observed buffer is adopted and validation goes on. *)
(***************************************************************************)
EXTENDS Wire, TLC, Json, IOUtils

Rec == ndJsonDeserialize(IOEnv.TRACE)
MaxBad == 25        \* mismatch records kept per kind of deviation and shard; every mismatch is counted in cnt["bad:<kind>"]
ParseLimit == 64          \* longer field / value lists are compared with the reference encoding only

VARIABLES l, buf, obuf, bad, cnt
vars == <<l, buf, obuf, bad, cnt>>

Inc(c, k) == IF k \in DOMAIN c THEN [c EXCEPT ![k] = @ + 1] ELSE c @@ (k :> 1)
BadRec(e, what, exp, want) == [sc |-> e.sc, i |-> e.i, a |-> e.a.a, what |-> what, exp |-> exp, obs |-> e.out, dev |-> "",
                               cfg |-> e.cfg, want |-> want]
AddBad(b, r) == IF Cardinality({ i \in 1..Len(b) : b[i].what = r.what /\ b[i].obs = r.obs }) < MaxBad THEN Append(b, r) ELSE b

Init == l = 1 /\ buf = <<>> /\ obuf = <<>> /\ bad = <<>> /\ cnt = [ok |-> 0, queries |-> 0]

StepReset(e) == buf' = <<>> /\ obuf' = <<>> /\ bad' = bad /\ cnt' = Inc(cnt, "ok")
StepFeed(e) ==
   LET good == e.out = "ok" /\ e.rem = buf \o e.a.b IN
   /\ buf' = e.rem /\ obuf' = obuf
   /\ bad' = IF good THEN bad ELSE AddBad(bad, BadRec(e, "feed", "ok", <<>>))
   /\ cnt' = IF good THEN Inc(cnt, "ok") ELSE Inc(cnt, "bad:feed")
StepDec(e) ==
   LET r == IF e.a.su = 1 THEN DecodeStartup(buf) ELSE Decode(buf)
       w == Judge(r, buf, e)
       c1 == Inc(Inc(Inc(cnt, "queries"), "spec:" \o KindsStr(r.kinds)), "obs:" \o e.out) IN
   /\ buf' = e.rem /\ obuf' = obuf
   /\ bad' = IF w = "" THEN bad
             ELSE AddBad(bad, BadRec(e, w, KindsStr(r.kinds), [end |-> r.end, consumed |-> Len(buf) - Len(e.rem), m |-> r.m]))
   /\ cnt' = IF w = "" THEN Inc(c1, "ok") ELSE Inc(c1, "bad:" \o w)
StepEnc(e) ==
   LET m == e.a.m
       preOk == Len(e.buf) >= Len(obuf) /\ Sub(e.buf, 1, Len(obuf)) = obuf
       d == Drop(e.buf, Len(obuf))
       big == Len(m.fl) * m.rep + Len(m.vl) * m.rep > ParseLimit
       lenOk == Len(d) >= 5 /\ I32(Sub(d, 2, 5)) = Len(d) - 1
       parseOk == big \/ SameB(m, ParseBackend(d))
       bytesOk == OrderFree(m) \/ d = Encode(m)
       w == IF e.out # "ok" THEN e.out
            ELSE IF ~preOk THEN "prefix"
            ELSE IF ~lenOk THEN "length"
            ELSE IF ~parseOk THEN "parse"
            ELSE IF ~bytesOk THEN "bytes" ELSE ""
       c1 == Inc(Inc(cnt, "queries"), "enc:" \o m.t) IN
   /\ buf' = buf /\ obuf' = e.buf
   /\ IF ~Representable(m) THEN bad' = bad /\ cnt' = Inc(cnt, "unmodelled")
      ELSE /\ bad' = IF w = "" THEN bad ELSE AddBad(bad, BadRec(e, w, "frame", [len |-> Len(d), ref |-> IF big THEN <<>> ELSE Encode(m)]))
           /\ cnt' = IF w = "" THEN Inc(c1, "ok") ELSE Inc(c1, "bad:" \o w)
Step(e) == CASE e.a.a = "reset" -> StepReset(e)
             [] e.a.a = "feed"  -> StepFeed(e)
             [] e.a.a = "dec"   -> StepDec(e)
             [] e.a.a = "enc"   -> StepEnc(e)
Next == l <= Len(Rec) /\ Step(Rec[l]) /\ l' = l + 1
Verdict == [n |-> Len(Rec), nbad |-> Len(bad), cnt |-> cnt, bad |-> bad]
Done == l > Len(Rec) => PrintT(<<"VERDICT", ToJson(Verdict)>>)
Post == TLCGet("stats").diameter = Len(Rec) + 1
=============================================================================
