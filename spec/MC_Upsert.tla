------------------------------ MODULE MC_Upsert ------------------------------
(***************************************************************************)
(* GEN for the conflict-resolving INSERT variants (C09 / C10 / C11 / C15):   *)
(* REPLACE INTO and INSERT ... ON DUPLICATE KEY UPDATE on a table with a      *)
(* primary key, a nullable UNIQUE column, a CHECK constraint and a           *)
(* user-defined secondary index.                                              *)
(*    T1(ID INTEGER PRIMARY KEY, U INTEGER UNIQUE, V INTEGER CHECK (V <= 3))  *)
(*    CREATE INDEX IV ON T1 (V)                                               *)
(* The alphabet has rows that conflict on the primary key, on the UNIQUE      *)
(* column, on both (with two different stored rows), on nothing, and with an  *)
(* earlier row of the same statement; replacement rows and updates that       *)
(* violate CHECK, UNIQUE or PRIMARY KEY (the statement must then fail as a    *)
(* whole, C11), assignments reading the stored row (V + 1) and VALUES(col).   *)
(* After every statement the harness logs the rows, the constraint indexes    *)
(* and the contents of IV; two queries go through IV.  Engine!DoUpsert is the *)
(* meaning; the invariants below are checked on the model itself.             *)
(***************************************************************************)
EXTENDS Engine, Json
CONSTANTS MaxDepth
VARIABLES st, hist, base
vars == <<st, hist, base>>

C(n, pk, uq) == [n |-> n, ty |-> "INTEGER", nn |-> FALSE, pk |-> pk, uq |-> uq, def |-> NoDef]
Setup == << [a |-> "ct", t |-> "T1", cols |-> << C("ID", TRUE, FALSE), C("U", FALSE, TRUE), C("V", FALSE, FALSE) >>,
             pk |-> <<>>, uqs |-> <<>>, checks |-> << CmpE("<=", Col("V"), Lit(I(3))) >>, fks |-> <<>>],
            [a |-> "ci", n |-> "IV", t |-> "T1", cols |-> << [c |-> "V", dir |-> "asc", plen |-> 0] >>, uq |-> FALSE] >>
RECURSIVE Run(_,_)
Run(s, as) == IF as = <<>> THEN s ELSE Run(Apply(s, Head(as)).st, Tail(as))

L(k) == Lit(I(k))
Row(id, u, v) == << id, u, v >>
Ins(rows) == InsertV("T1", rows)
Rep(rows) == [InsertV("T1", rows) EXCEPT !.mode = "replace"]
Odku(rows, set) == [x \in (DOMAIN InsertV("T1", rows)) \cup {"set"} |->
                      IF x = "set" THEN set ELSE IF x = "mode" THEN "odku" ELSE InsertV("T1", rows)[x]]
Set1(c, e) == << [c |-> c, e |-> e] >>
NewVal(c) == [k |-> "dkv", c |-> c]
Alphabet ==
      { Ins(<< Row(I(1), I(1), I(0)) >>), Ins(<< Row(I(2), I(2), I(0)) >>), Ins(<< Row(I(3), NULL, I(1)) >>) }
      \* REPLACE: primary-key conflict; UNIQUE conflict; both, with two different stored rows; none; NULL unique key
 \cup { Rep(<< Row(I(1), I(5), I(1)) >>), Rep(<< Row(I(4), I(1), I(1)) >>), Rep(<< Row(I(1), I(2), I(2)) >>), Rep(<< Row(I(5), NULL, I(1)) >>),
        \* the replacement violates CHECK: the stored row must survive
        Rep(<< Row(I(1), NULL, I(9)) >>),
        \* two rows of one statement that conflict with each other; a later row that fails after an earlier one replaced something
        Rep(<< Row(I(1), I(7), I(0)), Row(I(2), I(7), I(1)) >>), Rep(<< Row(I(1), I(8), I(0)), Row(I(2), NULL, I(9)) >>) }
      \* ON DUPLICATE KEY UPDATE
 \cup { Odku(<< Row(I(1), I(9), I(0)) >>, Set1("V", ArE("+", Col("V"), L(1)))),          \* counter on the stored row
        Odku(<< Row(I(4), I(1), I(2)) >>, Set1("V", NewVal("V"))),                            \* conflict on U; take the new V
        Odku(<< Row(I(1), I(0), I(0)) >>, Set1("U", L(2))),                                \* the update collides with another row's U
        Odku(<< Row(I(2), I(6), I(0)) >>, Set1("ID", L(1))),                               \* ... with another row's primary key
        Odku(<< Row(I(1), I(6), I(0)) >>, Set1("V", L(9))),                                \* ... violates CHECK
        Odku(<< Row(I(6), I(6), I(2)) >>, Set1("V", ArE("+", Col("V"), L(1)))),          \* no conflict: a plain insert
        Odku(<< Row(I(1), I(3), I(0)), Row(I(1), I(3), I(0)) >>, Set1("V", ArE("+", Col("V"), L(1)))),  \* the same key twice
        Odku(<< Row(I(7), I(7), I(1)), Row(I(2), I(9), I(0)) >>, Set1("V", L(9))) }      \* first row inserted, second fails
 \cup { DeleteA("T1", CmpE("=", Col("ID"), L(1))), UpdateA("T1", Set1("V", L(1)), CmpE("=", Col("ID"), L(2))) }
 \cup { QueryA([BaseSel(TableRef("T1")) EXCEPT !.where = CmpE("=", Col("V"), L(k))]) : k \in {0, 1} }

Prefixes == { <<>>,
              << Ins(<< Row(I(1), I(1), I(0)) >>), Ins(<< Row(I(2), I(2), I(0)) >>) >>,
              << Ins(<< Row(I(1), I(1), I(0)) >>), Ins(<< Row(I(2), I(2), I(0)) >>), Ins(<< Row(I(3), NULL, I(1)) >>) >> }
Init == \E pre \in Prefixes : st = Run(InitSt, Setup \o pre) /\ hist = Setup \o pre /\ base = Len(Setup \o pre)
Next == \E a \in Alphabet : st' = Apply(st, a).st /\ hist' = Append(hist, a) /\ base' = base
View == st
Bound == Len(hist) < MaxDepth + base
Emit == PrintT(<<"REPLAY", ToJson(hist')>>)

Inv == ConstraintsHold(st)
FailedIsStutter == [][ hist' # hist => (Apply(st, hist'[Len(hist')]).out \in {"err", "unmodelled"} => st' = st) ]_vars
\* a conflict-resolving insert never leaves fewer distinct primary keys than rows, and the inserted key is present afterwards
LastRowPresent == [][ (hist' # hist /\ hist'[Len(hist')].a = "ins" /\ hist'[Len(hist')].mode = "replace" /\ Apply(st, hist'[Len(hist')]).out = "ok")
                        => LET a == hist'[Len(hist')] r == a.rows[Len(a.rows)] IN
                           \E i \in Idxs(st'.tabs["T1"].rows) : RowEq(st'.tabs["T1"].rows[i], [j \in 1..3 |-> r[j].v]) ]_vars
=============================================================================
