CONSTANTS
  MaxDepth = 0
  MaxRows = 0
  MaxIdx = 0
INIT Init
NEXT Next
VIEW View
CONSTRAINT Bound
CHECK_DEADLOCK FALSE
