----------------------------- MODULE TraceBTree -----------------------------
(***************************************************************************)
(* VAL for C17: validates an ndjson trace recorded by vq_btree from the    *)
(* real BTreeIndex against the ordered multimap of BTree.tla.              *)
(* Deterministic fold, one TLC state per event.  Every call is checked for *)
(*   - its outcome class (the API is total on these inputs: "ok"),         *)
(*   - the value it returns (delete / delete_specific: found or not),      *)
(*   - the probe battery executed after it: lookup of EVERY key of the     *)
(*     universe, the range scans and multi-lookups of the battery,         *)
(*     against the acceptance sets of BTree.tla,                           *)
(*   - the well-formedness of the dumped page structure and its agreement  *)
(*     with the multimap.                                                  *)
(* The scenario header names the key universe and the battery (schema,     *)
(* size, stride); both are recomputed here from BTree.tla, and the         *)
(* universe must be strictly increasing in the specified key order,        *)
(* otherwise the scenario is rejected ("header").  After the first         *)
(* mismatch of a scenario the remaining events of that scenario are        *)
(* skipped (the state of the real tree is unknown).                        *)
(***************************************************************************)
EXTENDS BTree, Json, IOUtils, TLC

Rec == ndJsonDeserialize(IOEnv.TRACE)
MaxBad == 300      \* per mismatch kind

VARIABLES m, hd, l, bad, cnt, synced
vars == <<m, hd, l, bad, cnt, synced>>
\* hd = [nu, R, M] of the current scenario

Zero == [ok |-> 0, skipped |-> 0, queries |-> 0, probed |-> 0,
         new |-> 0, bulk |-> 0, seq |-> 0, ins_new |-> 0, ins_dup |-> 0, del_t |-> 0, del_f |-> 0, dels_t |-> 0, dels_f |-> 0,
         reload |-> 0, reopen |-> 0, look_hit |-> 0, look_miss |-> 0, range_nonempty |-> 0, range_empty |-> 0]
Init == m = <<>> /\ hd = [nu |-> 0, R |-> <<>>, M |-> <<>>] /\ l = 1 /\ bad = <<>> /\ synced = TRUE /\ cnt = Zero

NBad(what) == Cardinality({ i \in 1..Len(bad) : bad[i].what = what })
BadRec(e, what, want) == [sc |-> e.sc, i |-> e.i, a |-> e.a.a, what |-> what, exp |-> "ok", obs |-> e.out, dev |-> "", cfg |-> e.cfg, want |-> want]

IsHdr(e) == e.a.a \in {"new", "bulk"}
\* the universe and the battery are functions of (schema, nu, stride); the harness received them from the generator
\* (MC_BTree, Mode "probes") and reports their sizes
HeaderOk(e) == LET a == e.a IN
               /\ a.schema \in Schemas /\ a.nu >= 3 /\ a.stride >= 1
               /\ \E U \in { Univ(a.schema, a.nu) } : StrictlySorted(U)      \* (bound once: operator arguments are re-evaluated at every use)
               /\ e.un = a.nu /\ e.rn = Len(Ranges(a.nu, a.stride)) /\ e.mn = Len(Multis(a.nu))
               /\ (a.a = "bulk" => /\ SortedEnts(a.ents)
                                   /\ \A i \in 1..Len(a.ents) : a.ents[i][1] \in Storable(a.schema, a.nu))

\* first index at which a probe answer is outside its acceptance set (0 = none)
FirstBad(n, P(_)) == IF \A i \in 1..n : P(i) THEN 0 ELSE CHOOSE i \in 1..n : ~P(i) /\ \A j \in 1..(i - 1) : P(j)

Step(e) ==
  IF e.a.a = "reset" THEN
     /\ m' = <<>> /\ hd' = [nu |-> 0, R |-> <<>>, M |-> <<>>] /\ synced' = TRUE /\ UNCHANGED <<bad, cnt>>
  ELSE IF ~synced THEN
     /\ UNCHANGED <<m, hd, bad, synced>> /\ cnt' = [cnt EXCEPT !.skipped = @ + 1]
  ELSE IF IsHdr(e) /\ e.out = "ok" /\ ~HeaderOk(e) THEN
     /\ bad' = IF NBad("header") < MaxBad THEN Append(bad, BadRec(e, "header", <<>>)) ELSE bad
     /\ synced' = FALSE /\ UNCHANGED <<m, hd, cnt>>
  ELSE
  \* (bound variables of singleton sets: TLC evaluates each of them exactly once per event)
  \E h1 \in { IF IsHdr(e) THEN [nu |-> e.a.nu, R |-> Ranges(e.a.nu, e.a.stride), M |-> Multis(e.a.nu)] ELSE hd } :
  \E exp \in { Apply(m, e.a) } :
  \E probed \in { e.out = "ok" /\ e.a.pr } :
  \E fa \in { IF probed THEN FlatTo(exp.st, h1.nu) ELSE <<>> } :
  \E cu \in { IF probed THEN CumTo(exp.st, h1.nu) ELSE <<>> } :
  \E segs \in { IF probed THEN [i \in 1..Len(h1.R) |-> Seg(fa, cu, h1.R[i])] ELSE <<>> } :
  LET s     == exp.st
      \* exact agreement with the model order is the common case; otherwise the acceptance sets decide
      lb    == IF probed /\ Len(e.L) = h1.nu /\ e.L # s THEN FirstBad(h1.nu, LAMBDA i : AcceptLookup(s, i, e.L[i])) ELSE 0
      rb    == IF probed /\ Len(e.Rg) = Len(h1.R) /\ e.Rg # segs
               THEN FirstBad(Len(h1.R), LAMBDA i : e.Rg[i] = segs[i] \/ AcceptRange(s, h1.R[i], e.Rg[i])) ELSE 0
      mb    == IF probed /\ Len(e.Mu) = Len(h1.M) THEN FirstBad(Len(h1.M), LAMBDA i : AcceptMulti(s, h1.M[i], e.Mu[i])) ELSE 0
  IN
  \E wf \in { IF probed THEN WfFails(e.dump, s, h1.nu) ELSE <<>> } :
  \E what \in {
               IF e.out # "ok" THEN (IF e.out \in {"panic", "abort", "hang"} THEN e.out ELSE "out")
               ELSE IF exp.hasret /\ e.ret # exp.ret THEN "ret"
               ELSE IF ~probed THEN ""
               ELSE IF Len(e.pe) # 0 THEN "probe_out"
               ELSE IF Len(e.L) # h1.nu \/ Len(e.Rg) # Len(h1.R) \/ Len(e.Mu) # Len(h1.M) THEN "cover"
               ELSE IF lb # 0 THEN "lookup"
               ELSE IF rb # 0 THEN "range"
               ELSE IF mb # 0 THEN "multi"
               ELSE IF e.h # e.dump.h THEN "wf"
               ELSE IF wf # <<>> THEN "wf"
               ELSE "" } :
  LET want  == CASE what = "ret"    -> <<exp.ret>>
                 [] what = "lookup" -> <<lb, s[lb]>>
                 [] what = "range"  -> <<h1.R[rb], Flat(RangeGroups(s, h1.R[rb]))>>
                 [] what = "multi"  -> <<h1.M[mb], Flat(MultiGroups(s, h1.M[mb]))>>
                 [] what = "wf"     -> wf
                 [] what = "probe_out" -> e.pe
                 [] OTHER -> <<>>
      k     == e.a.a
      nq    == IF probed THEN h1.nu + Len(h1.R) + Len(h1.M) ELSE 0
      hit   == IF probed THEN Size(s) ELSE 0
      rne   == IF probed THEN Cardinality({ i \in 1..Len(segs) : segs[i] # <<>> }) ELSE 0
  IN /\ bad' = IF what = "" \/ NBad(what) >= MaxBad THEN bad ELSE Append(bad, BadRec(e, what, want))
     /\ synced' = (what = "")
     /\ m' = s /\ hd' = h1
     /\ cnt' = [cnt EXCEPT !.ok = IF what = "" THEN @ + 1 ELSE @,
                           !.queries = @ + nq,
                           !.probed = IF probed THEN @ + 1 ELSE @,
                           !.new = IF k = "new" THEN @ + 1 ELSE @,
                           !.bulk = IF k = "bulk" THEN @ + 1 ELSE @,
                           !.seq = IF k = "seq" THEN @ + 1 ELSE @,
                           !.ins_new = IF k = "ins" /\ m[e.a.k] = <<>> THEN @ + 1 ELSE @,
                           !.ins_dup = IF k = "ins" /\ m[e.a.k] # <<>> THEN @ + 1 ELSE @,
                           !.del_t = IF k = "del" /\ exp.ret THEN @ + 1 ELSE @,
                           !.del_f = IF k = "del" /\ ~exp.ret THEN @ + 1 ELSE @,
                           !.dels_t = IF k = "dels" /\ exp.ret THEN @ + 1 ELSE @,
                           !.dels_f = IF k = "dels" /\ ~exp.ret THEN @ + 1 ELSE @,
                           !.reload = IF k = "reload" THEN @ + 1 ELSE @,
                           !.reopen = IF k = "reopen" THEN @ + 1 ELSE @,
                           !.look_hit = @ + hit,
                           !.look_miss = @ + (IF probed THEN h1.nu - hit ELSE 0),
                           !.range_nonempty = @ + rne,
                           !.range_empty = @ + (IF probed THEN Len(h1.R) - rne ELSE 0)]

Next == /\ l <= Len(Rec)
        /\ Step(Rec[l])
        /\ l' = l + 1

Verdict == [n |-> Len(Rec), nbad |-> Len(bad), cnt |-> cnt, bad |-> bad]
Done == l > Len(Rec) => PrintT(<<"VERDICT", ToJson(Verdict)>>)
Post == TLCGet("stats").diameter = Len(Rec) + 1
=============================================================================
