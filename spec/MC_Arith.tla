------------------------------ MODULE MC_Arith -------------------------------
(* GEN for C24 (arithmetic half): every operator on every pair of boundary operands, in three syntactic contexts     *)
(* (select list, WHERE comparison, aggregate over a two-row column); plus spec-level laws of the pair arithmetic.    *)
EXTENDS Arith, Json, TLC
As == {-1, 0, 1}
Ns == {-2, -1, 0, 1, 2}
Operands == { Big(a, n) : a \in As, n \in Ns } \ { Big(-1, -1), Big(-1, -2) }     \* below -2^63: no literal
Ctxs == {"select", "where", "column"}
Scenario(op, x, y, c) == << [a |-> "arith", op |-> op, x |-> x, y |-> y, ctx |-> c] >>
Scenarios == { Scenario(op, x, y, c) : op \in Ops \ {"neg", "sum2"}, x \in Operands, y \in Operands, c \in Ctxs }
        \cup { Scenario("neg", x, Big(0, 0), c) : x \in Operands, c \in Ctxs }
        \cup { Scenario("sum2", x, y, "column") : x \in Operands, y \in Operands }
ASSUME \A s \in Scenarios : PrintT(<<"REPLAY", ToJson(s)>>)
\* laws of the pair arithmetic (sanity of the model): commutativity, x - x = 0, -(-x) = x, range of the literals
ASSUME \A x \in Operands, y \in Operands :
          /\ Add(x, y) = Add(y, x) /\ Sub(x, x) = Big(0, 0) /\ Neg(Neg(x)) = x
          /\ (MulDefined(x, y) => Mul(x, y) = Mul(y, x))
          /\ Exact("+", x, Neg(x)).v = Big(0, 0)
\* the wrapped result of MAX + 1 (MIN = -2^63) is not allowed, the error and NULL are
ASSUME /\ ~Allowed("+", Big(1, -1), Big(0, 1), "select", [k |-> "int", a |-> -1, n |-> 0])
       /\ Allowed("+", Big(1, -1), Big(0, 1), "select", [k |-> "err", a |-> 0, n |-> 0])
       /\ Allowed("+", Big(1, -1), Big(0, 1), "select", [k |-> "float", a |-> 1, n |-> 0])
       /\ Allowed("+", Big(0, 1), Big(0, 1), "select", [k |-> "int", a |-> 0, n |-> 2])
       /\ ~Allowed("+", Big(0, 1), Big(0, 1), "select", [k |-> "int", a |-> 0, n |-> 3])
       /\ ~Allowed("/0", Big(0, 1), Big(0, 0), "select", [k |-> "int", a |-> 0, n |-> 0])
VARIABLE x
Init == x = 0
Next == x' = x
=============================================================================
