------------------------------ MODULE MC_BTree ------------------------------
(***************************************************************************)
(* GEN for C17 (B+ tree = ordered multimap).  One module, four modes:       *)
(*                                                                         *)
(*  Mode = "exh"    exhaustive small scope: for every combination           *)
(*                  (key schema, universe, prefix, key window, depth) of    *)
(*                  the chosen Family, ALL sequences of insert / delete /   *)
(*                  delete_specific / reload calls on the keys of the       *)
(*                  window up to the depth, identified up to the multimap   *)
(*                  they produce (VIEW).  The prefixes are boundary         *)
(*                  directed: empty tree, bulk loads whose sizes sit on     *)
(*                  both sides of every height change of a degree-5 tree,   *)
(*                  ascending / descending / permuted insert runs (trees    *)
(*                  at minimum fill, where the next delete underflows).     *)
(*  Mode = "sim"    long random walks (TLC -simulate) over the whole        *)
(*                  universe with grow / mixed / shrink phases, so that     *)
(*                  the tree repeatedly grows to height 3-4 and collapses   *)
(*                  back to a single leaf.                                  *)
(*  Mode = "reopen" prefix, then flush + close the file, open it again and  *)
(*                  load, then all window call sequences up to the depth.   *)
(*  Mode = "probes" emits, per (schema, nu, stride) of the Family, the      *)
(*                  concrete key universe and the probe battery (ranges,    *)
(*                  multi-lookups) that the harness runs after every call.  *)
(*                                                                         *)
(* Every scenario is printed as one REPLAY line (history of abstract        *)
(* calls, keys as ranks).  The module also checks the model itself: the     *)
(* key order is a strict total order on every universe, the multimap laws   *)
(* hold on every step, and WellFormed accepts a canonical two-level tree    *)
(* of every reachable multimap while rejecting the same tree with a         *)
(* shifted separator, a broken chain or a missing entry.                    *)
(***************************************************************************)
EXTENDS BTree, Json, TLC
CONSTANTS Mode, Family, DepthCap, SimLen, Phase
VARIABLES m, hist, cmb, d
vars == <<m, hist, cmb, d>>

Min(a, b) == IF a < b THEN a ELSE b
Max(a, b) == IF a > b THEN a ELSE b

\* ------------------------------------------------------------------ combinations
\* pk: "E" empty | "B" bulk load of pn keys | "D" bulk load of pn keys, every third with two row ids
\*     "A" / "Z" / "P" pn single inserts in ascending / descending / permuted order
\*     "H" / "G" ONE key with pn row ids (low-cardinality column), built by pn inserts / by bulk load
Combo(schema, nu, stride, pk, pn, lo, hi, dp) ==
   [schema |-> schema, nu |-> nu, stride |-> stride, pk |-> pk, pn |-> pn, lo |-> lo, hi |-> hi, dp |-> dp]
NuFor(schema, n) == IF schema = "iv" THEN 6 * (((2 * n + 3) + 4) \div 5) ELSE 2 * n + 3
\* the s-th storable rank and the number of storable ranks (closed forms of Storable)
StorRank(schema, s) == IF schema = "iv" THEN 6 * ((s - 1) \div 5) + ((s - 1) % 5) + 2 ELSE s
NStor(schema, nu)   == IF schema = "iv" THEN 5 * (nu \div 6) ELSE nu
\* the j-th prefix key: every second storable rank, so that a free rank lies below, between and above the prefix keys
Base(c, j) == StorRank(c.schema, 2 * j + 1)
\* windows are given by the index of a prefix key and a radius in storable ranks
W(schema, pk, n, stride, center, radius, dp) ==
   LET nu == NuFor(schema, Max(n, 5))
       ns == NStor(schema, nu)
       ci == Max(1, Min(ns, 2 * center + 1)) IN
   Combo(schema, nu, stride, pk, n, StorRank(schema, Max(1, ci - radius)), StorRank(schema, Min(ns, ci + radius)), dp)

\* degree 5 (bulk leaves hold 3 keys, bulk internal nodes 3 children): 9 keys = height 2 full, 10 = height 3 with a
\* single-child internal node, 13 = first internal node with two keys on the right, 27 = height 3 full, 28 = height 4
Quick ==
      { W("v", "E", 0, 3, 2, 3, 3) }
 \cup { W("v", "B", n, 4, c, 2, 2) : n \in {3, 4}, c \in {1, 3} }
 \cup { W("v", "B", 9, 4, 6, 2, 3), W("v", "B", 9, 4, 1, 2, 2), W("v", "B", 9, 4, 9, 2, 2) }
 \cup { W("v", "B", 10, 4, c, 2, 2) : c \in {3, 9, 10} }
 \cup { W("v", "B", 12, 4, c, 2, 2) : c \in {1, 11} }
 \cup { W("v", "B", 13, 4, c, 2, 2) : c \in {9, 11, 13} }
 \cup { W("v", "D", 12, 4, c, 2, 2) : c \in {3, 6} }
 \cup { W("v", "B", 19, 5, c, 2, 2) : c \in {10, 18} }
 \cup { W("v", "B", 28, 6, c, 2, 2) : c \in {1, 27} }
 \cup { W("v", "A", 8, 4, c, 2, 2) : c \in {1, 4, 8} }
 \cup { W("v", "A", 17, 5, 9, 2, 3) }
 \cup { W("v", "A", 17, 5, c, 2, 2) : c \in {1, 5, 13, 17} }
 \cup { W("v", "Z", 11, 4, c, 2, 2) : c \in {2, 9} }
 \cup { W("v", "P", 15, 5, c, 2, 2) : c \in {3, 7, 12} }
 \cup { W("iv", "E", 0, 3, 2, 3, 2), W("iv", "B", 10, 4, 9, 2, 2), W("iv", "A", 11, 4, 2, 2, 2), W("iv", "A", 11, 4, 8, 2, 2) }
 \cup { W("v6", "A", 13, 4, c, 2, 2) : c \in {2, 7, 12} }
 \cup { W("v6", "B", 17, 5, 13, 2, 2) }
 \cup { W("i", "B", 12, 4, 6, 2, 2) }
Thorough ==
      { W("v", "E", 0, 3, 3, 3, 4) }
 \cup { W("v", "B", n, 4, c, 2, 3) : n \in {3, 4}, c \in {1, 3} }
 \cup { W("v", "B", n, 4, c, 2, 3) : n \in {9, 10, 12, 13}, c \in {1, 9, 12} }
 \cup { W("v", "D", n, 4, c, 2, 3) : n \in {9, 12}, c \in {3, 8} }
 \cup { W("v", "B", n, 5, c, 2, 3) : n \in {19, 27, 28}, c \in {1, 10, 18, 27} }
 \cup { W("v", "A", n, 4, c, 2, 3) : n \in {5, 8, 11}, c \in {1, 4, 8} }
 \cup { W("v", "A", n, 5, c, 2, 3) : n \in {14, 17, 20}, c \in {1, 9, 16} }
 \cup { W("v", "A", 17, 5, 9, 2, 4) }
 \cup { W("v", "Z", n, 5, c, 2, 3) : n \in {8, 14, 20}, c \in {2, 7} }
 \cup { W("v", "P", n, 5, c, 2, 3) : n \in {10, 15, 20}, c \in {3, 8} }
 \cup { W("iv", "E", 0, 3, 3, 3, 3) }
 \cup { W("iv", pk, n, 4, c, 2, 3) : pk \in {"B", "A"}, n \in {10, 13}, c \in {2, 9} }
 \cup { W("v6", pk, n, 4, c, 2, 3) : pk \in {"B", "A", "Z"}, n \in {13, 17}, c \in {2, 12} }
 \cup { W("v9", pk, 25, 5, c, 2, 3) : pk \in {"B", "A"}, c \in {4, 20} }
 \cup { W("i", pk, 12, 4, 6, 2, 3) : pk \in {"B", "A"} }
\* wide nodes (INTEGER keys, degree 204): 203 ascending inserts fill the root leaf to the brim; the window then splits it
\* (102 | 102), merges it back and borrows at the real production fan-out
Wide == { W("i", "A", 203, 100, c, 1, 3) : c \in {1, 102, 203} }
SimCombos == { Combo("v", 48, 5, "E", 0, 1, 48, 0), Combo("v6", 72, 6, "E", 0, 1, 72, 0),
               Combo("v9", 120, 10, "E", 0, 1, 120, 0), Combo("iv", 60, 5, "E", 0, 1, 60, 0) }
\* after the re-open the window calls go on (a split right after it allocates pages: the page manager's state must
\* have been persisted as well)
ReopenCombos == { W("v", "E", 0, 3, 2, 1, 2), W("v", "B", 4, 4, 2, 1, 2), W("v", "A", 8, 4, 4, 1, 2), W("v", "B", 12, 4, 11, 1, 2),
                  W("iv", "A", 11, 4, 5, 1, 1) }
\* 300 row ids fit into the key's leaf page, 520 do not (8 bytes each in a 4 KiB page): the multimap has no such limit
HeavyCombos == { Combo(sc, 13, 6, pk, n, 2, 4, 1) : sc \in {"i", "v"}, pk \in {"H", "G"}, n \in {300, 520} }
Combos == CASE Family = "quick"    -> Quick
            [] Family = "heavy"    -> HeavyCombos
            [] Family = "thorough" -> Thorough
            [] Family = "wide"     -> Wide
            [] Family = "sim"      -> SimCombos
            [] Family = "reopen"   -> ReopenCombos

\* ------------------------------------------------------------------ calls
\* pr = run the probe battery (and dump the pages) after the call
New(c)       == [a |-> "new", schema |-> c.schema, nu |-> c.nu, stride |-> c.stride, pr |-> FALSE]
Bulk(c, es)  == [a |-> "bulk", schema |-> c.schema, nu |-> c.nu, stride |-> c.stride, pr |-> FALSE, ents |-> es]
InsRun(ops)  == [a |-> "seq", ops |-> ops, pr |-> FALSE]
Ins(k, r)    == [a |-> "ins", k |-> k, r |-> r, pr |-> FALSE]
Del(k)       == [a |-> "del", k |-> k, pr |-> FALSE]
Dels(k, r)   == [a |-> "dels", k |-> k, r |-> r, pr |-> FALSE]
Reload       == [a |-> "reload", pr |-> FALSE]
Reopen       == [a |-> "reopen", pr |-> TRUE]          \* always probed: a lost tree is reported at the re-open itself

Perm(n, j)   == ((j * 7) % n) + 1          \* a permutation of 1..n when 7 does not divide n
Prefix(c) ==
   CASE c.pk = "E" -> << New(c) >>
     [] c.pk = "B" -> << Bulk(c, [j \in 1..c.pn |-> <<Base(c, j), 10 * j>>]) >>
     [] c.pk = "D" -> << Bulk(c, [t \in 1..(c.pn + c.pn \div 3) |->
                               LET g == (t - 1) \div 4  q == (t - 1) % 4        \* groups of 3 keys / 4 entries
                                   j == 3 * g + (IF q = 3 THEN 3 ELSE q + 1)
                               IN <<Base(c, Min(j, c.pn)), 10 * j + (IF q = 3 THEN 1 ELSE 0)>>]) >>
     [] c.pk = "H" -> << New(c), InsRun([j \in 1..c.pn |-> <<Base(c, 1), 1000 + j>>]) >>
     [] c.pk = "G" -> << Bulk(c, [j \in 1..c.pn |-> <<Base(c, 1), 1000 + j>>]) >>
     [] c.pk = "A" -> << New(c), InsRun([j \in 1..c.pn |-> <<Base(c, j), 10 * j>>]) >>
     [] c.pk = "Z" -> << New(c), InsRun([j \in 1..c.pn |-> <<Base(c, c.pn + 1 - j), 10 * (c.pn + 1 - j)>>]) >>
     [] c.pk = "P" -> << New(c), InsRun([j \in 1..c.pn |-> <<Base(c, Perm(c.pn, j)), 10 * Perm(c.pn, j)>>]) >>
RECURSIVE Run(_, _)
Run(s, as) == IF as = <<>> THEN s ELSE Run(Apply(s, Head(as)).st, Tail(as))

WinKeys(c) == { k \in Storable(c.schema, c.nu) : k >= c.lo /\ k <= c.hi }
Alphabet(c, s) ==
        { Ins(k, 900 + d) : k \in WinKeys(c) }
   \cup { Del(k) : k \in WinKeys(c) }
   \cup UNION { { Dels(k, r) : r \in {999} \cup (IF s[k] = <<>> THEN {} ELSE {s[k][1], s[k][Len(s[k])]}) } : k \in WinKeys(c) }
   \cup { Reload }

\* random walks: phase = grow (inserts only), mixed, shrink (deletes of present keys only), mixed, ...
PhaseOf(t) == (t \div Phase) % 4
SimAlphabet(c, s, t) ==
   LET K == Storable(c.schema, c.nu)
       ins == { Ins(k, 1000 + t) : k \in K }
       delp == { Del(k) : k \in Present(s) } \cup UNION { { Dels(k, r) : r \in Range(s[k]) } : k \in Present(s) }
       dela == { Del(k) : k \in K } \cup { Dels(k, 999) : k \in { x \in K : x % 4 = 0 } } IN
   IF t = SimLen - 1 THEN { Reload }
   ELSE IF PhaseOf(t) = 0 THEN ins
   ELSE IF PhaseOf(t) = 2 THEN (IF Present(s) = {} THEN ins ELSE delp)
   ELSE ins \cup delp \cup dela \cup { Reload }

\* d = -1: the prefix has been executed but not yet emitted; the first step emits the prefix-only scenario
Init == /\ cmb \in Combos
        /\ d = IF Mode = "exh" THEN -1 ELSE 0
        /\ IF Mode = "probes" THEN hist = <<>> /\ m = <<>>
           ELSE hist = Prefix(cmb) /\ m = Run(<<>>, Prefix(cmb))
Limit == CASE Mode = "exh" -> Min(cmb.dp, DepthCap) [] Mode = "sim" -> SimLen [] Mode = "reopen" -> 1 + Min(cmb.dp, DepthCap) [] OTHER -> 1
Next ==
   d < Limit /\
   CASE Mode = "exh" ->
          IF d = -1 THEN d' = 0 /\ UNCHANGED <<m, hist, cmb>>
          ELSE \E a \in Alphabet(cmb, m) : m' = Apply(m, a).st /\ hist' = Append(hist, a) /\ d' = d + 1 /\ UNCHANGED cmb
     [] Mode = "sim" ->
          \E a \in SimAlphabet(cmb, m, d) : m' = Apply(m, a).st /\ hist' = Append(hist, a) /\ d' = d + 1 /\ UNCHANGED cmb
     [] Mode = "reopen" ->
          IF d = 0 THEN m' = m /\ hist' = Append(hist, Reopen) /\ d' = 1 /\ UNCHANGED cmb
          ELSE \E a \in Alphabet(cmb, m) : m' = Apply(m, a).st /\ hist' = Append(hist, a) /\ d' = d + 1 /\ UNCHANGED cmb
     [] Mode = "probes" ->
          /\ hist' = << [schema |-> cmb.schema, nu |-> cmb.nu, stride |-> cmb.stride,
                         U |-> Univ(cmb.schema, cmb.nu), R |-> Ranges(cmb.nu, cmb.stride), M |-> Multis(cmb.nu)] >>
          /\ d' = d + 1 /\ UNCHANGED <<m, cmb>>
View  == IF Mode = "probes" THEN <<cmb.schema, cmb.nu, cmb.stride, d>> ELSE <<m, cmb, d = -1, Mode = "reopen" /\ d = 0>>
\* exhaustive mode: every history is its own scenario, so the battery runs once, after its last call;
\* random walks: one long scenario, the battery runs after every call
ProbeLast(h) == [h EXCEPT ![Len(h)].pr = TRUE]
ProbeAll(h)  == [i \in 1..Len(h) |-> [h[i] EXCEPT !.pr = TRUE]]
Emit  == CASE Mode = "probes" -> PrintT(<<"REPLAY", ToJson(hist')>>)
           [] Mode = "sim"    -> (d' = SimLen => PrintT(<<"REPLAY", ToJson(ProbeAll(hist'))>>))
           [] OTHER           -> PrintT(<<"REPLAY", ToJson(ProbeLast(hist'))>>)

\* ------------------------------------------------------------------ the model checks itself
\* the key order is a strict total order on (a prefix of) every universe, and every universe is strictly increasing
OrderOK(U) == /\ StrictlySorted(U)
              /\ \A i, j \in 1..Len(U) : /\ (i < j <=> KeyLess(U[i], U[j]))
                                         /\ (i = j => ~KeyLess(U[i], U[j]))
ASSUME \A s \in Schemas : OrderOK(Univ(s, 40))
ASSUME \A c \in Combos : /\ StrictlySorted(Univ(c.schema, c.nu)) /\ c.lo >= 1 /\ c.hi <= c.nu
                          /\ { StorRank(c.schema, i) : i \in 1..NStor(c.schema, c.nu) } = Storable(c.schema, c.nu)
\* prefixes are legal inputs (bulk_load requires sorted entries) and only storable keys are stored
ASSUME Mode # "probes" => \A c \in Combos : /\ (c.pk \in {"B", "D", "G"} => SortedEnts(Prefix(c)[1].ents))
                                             /\ Present(Run(<<>>, Prefix(c))) \subseteq Storable(c.schema, c.nu)
                                             /\ Size(Run(<<>>, Prefix(c))) = (IF c.pk \in {"H", "G"} THEN 1 ELSE c.pn)

Full == Rg(0, 0, TRUE, TRUE)
TotalRids(s) == Len(FlatTo(s, Len(s)))
\* a canonical two-level tree of the multimap: leaves of three entries, one root with the first key of every
\* later leaf as separator (a single leaf when three entries suffice)
CanonDump(s) ==
   LET ks == RangeKeys(s, Full)
       nl == Max(1, (Len(ks) + 2) \div 3)
       leaf(i) == [id |-> i + 1, d |-> IF nl = 1 THEN 1 ELSE 2, t |-> "L",
                   ks |-> SubSeq(ks, 3 * i - 2, Min(3 * i, Len(ks))),
                   ch |-> <<>>, rs |-> [j \in 1..(Min(3 * i, Len(ks)) - (3 * i - 3)) |-> s[ks[3 * i - 3 + j]]],
                   nx |-> IF i = nl THEN 0 ELSE i + 2]
       root == [id |-> 1, d |-> 1, t |-> "I", ks |-> [i \in 1..(nl - 1) |-> ks[3 * i + 1]],
                ch |-> [i \in 1..nl |-> i + 1], rs |-> <<>>, nx |-> 0] IN
   IF nl = 1 THEN [h |-> 1, root |-> 2, ok |-> TRUE, nodes |-> << leaf(1) >>]
   ELSE [h |-> 2, root |-> 1, ok |-> TRUE, nodes |-> << root >> \o [i \in 1..nl |-> leaf(i)]]
\* the defect classes the dump must expose
ShiftSep(dd)  == [dd EXCEPT !.nodes[1].ks[1] = dd.nodes[3].ks[2]]          \* separator = second key of its subtree
BreakChain(dd) == [dd EXCEPT !.nodes[2].nx = 0]
DropEntry(dd) == LET i == IF Len(dd.nodes) = 1 THEN 1 ELSE 2 IN [dd EXCEPT !.nodes[i].ks = Tail(@), !.nodes[i].rs = Tail(@)]
WrongDepth(dd) == [dd EXCEPT !.h = @ + 1]
WfSelfCheck ==
   (Mode = "exh" /\ cmb.nu <= 130) =>
     \E dd \in { CanonDump(m) } :          \* (bound once: operator arguments are re-evaluated at every use)
     /\ WellFormed(dd, m, cmb.nu)
     /\ \E x \in { WrongDepth(dd) } : WfFails(x, m, cmb.nu) = <<"depth">>
     /\ (Size(m) >= 1 => \E x \in { DropEntry(dd) } : "content" \in Range(WfFails(x, m, cmb.nu)))
     /\ (Size(m) >= 5 => /\ \E x \in { ShiftSep(dd) } : WfFails(x, m, cmb.nu) = <<"sep">>
                         /\ \E x \in { BreakChain(dd) } : WfFails(x, m, cmb.nu) = <<"chain">>)
\* the validator's shortcuts equal the definitions on the whole probe battery
ShortcutsOK ==
   (Mode = "exh" /\ cmb.nu <= 130) =>
     \E fa \in { FlatTo(m, cmb.nu) } : \E cu \in { CumTo(m, cmb.nu) } : \E R \in { Ranges(cmb.nu, cmb.stride) } :
        /\ fa = Flat(RangeGroups(m, Full))
        /\ \A i \in { j \in 1..Len(R) : j % 13 = TotalRids(m) % 13 } : Seg(fa, cu, R[i]) = Flat(RangeGroups(m, R[i]))
Inv == /\ Mode # "probes" => (DOMAIN m = 1..cmb.nu /\ Present(m) \subseteq Storable(cmb.schema, cmb.nu))
       /\ WfSelfCheck
       /\ ShortcutsOK

\* multimap laws, step by step
Last == hist'[Len(hist')]
StepLaws == [][ (Mode \in {"exh", "sim", "reopen"} /\ hist' # hist /\ ~(Mode = "sim" /\ d % 16 # 0)) =>
   LET a == Last IN
   /\ a.a = "ins"  => /\ m'[a.k] = Append(m[a.k], a.r)
                      /\ \A j \in DOMAIN m \ {a.k} : m'[j] = m[j]
                      /\ TotalRids(m') = TotalRids(m) + 1
   /\ a.a = "del"  => /\ m'[a.k] = <<>> /\ \A j \in DOMAIN m \ {a.k} : m'[j] = m[j]
                      /\ Apply(m, a).ret = (a.k \in Present(m))
                      /\ TotalRids(m') = TotalRids(m) - Len(m[a.k])
   /\ a.a = "dels" => /\ \A j \in DOMAIN m \ {a.k} : m'[j] = m[j]
                      /\ Apply(m, a).ret = Has(m[a.k], a.r)
                      /\ IF Has(m[a.k], a.r) THEN BagEq(Append(m'[a.k], a.r), m[a.k]) ELSE m' = m
   /\ a.a \in {"reload", "reopen"} => m' = m
   \* every scan is the matching segment of the full scan; a split point partitions the full scan
   /\ \A b \in { 1 + ((Len(hist') * 7 + TotalRids(m')) % cmb.nu) } :
        /\ Flat(RangeGroups(m', Rg(0, b, TRUE, FALSE))) \o Flat(RangeGroups(m', Rg(b, 0, TRUE, TRUE))) = Flat(RangeGroups(m', Full))
        /\ Flat(RangeGroups(m', Rg(b, b, TRUE, TRUE))) = Lookup(m', b)
        /\ RangeGroups(m', Rg(b, b, TRUE, FALSE)) = <<>>
   /\ AcceptRange(m', Full, Flat(RangeGroups(m', Full)))

   ]_vars
=============================================================================
