------------------------------ MODULE SqlSem ------------------------------
(***************************************************************************)
(* Reference semantics of the SQL subset shared by every property that     *)
(* talks about query answers (DESIGN.md 3.1 / 3.2).  Pure operators only:  *)
(* no variables.  Engine.tla builds the database state machine on top of   *)
(* it; TraceEngine.tla uses it as the oracle for recorded answers.         *)
(*                                                                         *)
(* Values are uniformly typed records [t, n, s, d] so that TLC can compare *)
(* any two of them:                                                        *)
(*   t = "n" NULL | "i" integer/rational n/d | "s" string s | "b" boolean  *)
(*       "e" evaluation error | "x" opaque (value outside the model)       *)
(***************************************************************************)
EXTENDS Integers, Sequences, FiniteSets, TLC

\* ---------- values ----------
NULL  == [t |-> "n", n |-> 0, s |-> "", d |-> 1]
I(k)  == [t |-> "i", n |-> k, s |-> "", d |-> 1]
Q(k,m)== [t |-> "i", n |-> k, s |-> "", d |-> m]      \* rational k/m, m > 0
S(x)  == [t |-> "s", n |-> 0, s |-> x, d |-> 1]
TT    == [t |-> "b", n |-> 1, s |-> "", d |-> 1]
FF    == [t |-> "b", n |-> 0, s |-> "", d |-> 1]
ERR   == [t |-> "e", n |-> 0, s |-> "", d |-> 1]
IsNull(v) == v.t = "n"
IsErr(v)  == v.t = "e"
B3(b) == IF b THEN TT ELSE FF
Not3(a) == IF IsErr(a) THEN ERR ELSE IF IsNull(a) THEN NULL ELSE IF a = TT THEN FF ELSE TT
And3(a,b) == IF IsErr(a) \/ IsErr(b) THEN ERR ELSE IF a = FF \/ b = FF THEN FF
             ELSE IF IsNull(a) \/ IsNull(b) THEN NULL ELSE TT
Or3(a,b)  == IF IsErr(a) \/ IsErr(b) THEN ERR ELSE IF a = TT \/ b = TT THEN TT
             ELSE IF IsNull(a) \/ IsNull(b) THEN NULL ELSE FF
\* a row passes WHERE / HAVING / ON iff Truth: TRUE, or a non-zero number (vibesql, like MySQL/SQLite)
Truth(v) == v = TT \/ (v.t = "i" /\ v.n # 0)

\* The string universe of the model, in binary (byte) order, with its decomposition into
\* characters (TLC treats strings as atoms).  Generators and drivers only use these strings.
StrOrder == << "", "%", "A", "Ab", "B", "_", "a", "a%", "a_", "ab", "b", "ba", "c" >>
Chars(x) == CASE x = ""   -> <<>>          [] x = "%"  -> <<"%">>      [] x = "A"  -> <<"A">>
              [] x = "Ab" -> <<"A","b">>   [] x = "B"  -> <<"B">>      [] x = "_"  -> <<"_">>
              [] x = "a"  -> <<"a">>       [] x = "a%" -> <<"a","%">>  [] x = "a_" -> <<"a","_">>
              [] x = "ab" -> <<"a","b">>   [] x = "b"  -> <<"b">>      [] x = "ba" -> <<"b","a">>
              [] x = "c"  -> <<"c">>       [] x = "%a" -> <<"%","a">>  [] x = "%b" -> <<"%","b">>
              [] x = "_b" -> <<"_","b">>   [] x = "%%" -> <<"%","%">>  [] x = "__" -> <<"_","_">>
              [] x = "a%b" -> <<"a","%","b">>
StrIdx(x) == CHOOSE i \in 1..Len(StrOrder) : StrOrder[i] = x
\* the first n characters of a string of the universe (prefix-length indexes)
PrefixStr(x, n) == IF n <= 0 \/ Len(Chars(x)) <= n THEN x
                   ELSE CHOOSE y \in { StrOrder[i] : i \in 1..Len(StrOrder) } : Chars(y) = SubSeq(Chars(x), 1, n)
\* LIKE with % (any run) and _ (any single character); case-sensitive
RECURSIVE LikeM(_,_)
LikeM(s, p) == IF p = <<>> THEN s = <<>>
               ELSE IF Head(p) = "%" THEN LikeM(s, Tail(p)) \/ (s # <<>> /\ LikeM(Tail(s), p))
               ELSE s # <<>> /\ (Head(p) = "_" \/ Head(p) = Head(s)) /\ LikeM(Tail(s), Tail(p))

IsNum(v) == v.t = "i"
\* (same denominators are compared directly: the cross product of two values scaled by 10^6 would leave 32 bits)
LessV(a,b) == IF a.t = "s" /\ b.t = "s" THEN StrIdx(a.s) < StrIdx(b.s)
              ELSE IF a.t = "b" /\ b.t = "b" THEN a.n < b.n
              ELSE IF a.d = b.d THEN a.n < b.n
              ELSE a.n * b.d < b.n * a.d
EqV(a,b)   == IF a.t = "x" \/ b.t = "x" THEN a = b        \* opaque values are equal only to themselves
              ELSE IF a.t = "s" /\ b.t = "s" THEN a.s = b.s
              ELSE IF a.t = "b" /\ b.t = "b" THEN a.n = b.n
              ELSE a.t = b.t /\ (IF a.d = b.d THEN a.n = b.n ELSE a.n * b.d = b.n * a.d)
SameKind(a,b) == a.t = b.t
Cmp(op,a,b) == IF IsErr(a) \/ IsErr(b) THEN ERR ELSE IF IsNull(a) \/ IsNull(b) THEN NULL
   ELSE IF ~SameKind(a,b) THEN ERR
   ELSE CASE op = "="  -> B3(EqV(a,b))   [] op = "<>" -> B3(~EqV(a,b))
          [] op = "<"  -> B3(LessV(a,b)) [] op = "<=" -> B3(LessV(a,b) \/ EqV(a,b))
          [] op = ">"  -> B3(LessV(b,a)) [] op = ">=" -> B3(LessV(b,a) \/ EqV(a,b))
Arith(op,a,b) == IF IsErr(a) \/ IsErr(b) THEN ERR ELSE IF IsNull(a) \/ IsNull(b) THEN NULL
   ELSE IF ~IsNum(a) \/ ~IsNum(b) THEN ERR
   ELSE CASE op = "+" -> Q(a.n * b.d + b.n * a.d, a.d * b.d)
          [] op = "-" -> Q(a.n * b.d - b.n * a.d, a.d * b.d)
          [] op = "*" -> Q(a.n * b.n, a.d * b.d)
\* equality used by DISTINCT / GROUP BY / set operations: NULL matches NULL
GroupEq(a,b) == (IsNull(a) /\ IsNull(b)) \/ (~IsNull(a) /\ ~IsNull(b) /\ a.t = b.t /\ EqV(a,b))
RowEq(r,s) == Len(r) = Len(s) /\ \A i \in 1..Len(r) : GroupEq(r[i], s[i])
\* total pre-order used by ORDER BY: NULLs last for both directions (vibesql's documented rule)
KeyLess(a,b,dir) == IF IsNull(a) THEN FALSE ELSE IF IsNull(b) THEN TRUE
                    ELSE IF dir = "asc" THEN LessV(a,b) ELSE LessV(b,a)

\* ---------- helpers on sequences ----------
Range(s) == { s[i] : i \in 1..Len(s) }
RECURSIVE Flatten(_)
Flatten(ss) == IF ss = <<>> THEN <<>> ELSE Head(ss) \o Flatten(Tail(ss))
Map(s, Op(_)) == [i \in 1..Len(s) |-> Op(s[i])]
RECURSIVE DedupRows(_)      \* keep first occurrence under RowEq
DedupRows(rs) == IF rs = <<>> THEN <<>> ELSE
   LET rest == DedupRows(SubSeq(rs, 1, Len(rs)-1)) last == rs[Len(rs)] IN
   IF \E i \in 1..Len(rest) : RowEq(rest[i], last) THEN rest ELSE Append(rest, last)
CountRow(rs, r) == Cardinality({ i \in 1..Len(rs) : RowEq(rs[i], r) })
BagEq(a, b) == Len(a) = Len(b) /\ \A i \in 1..Len(a) : CountRow(a, a[i]) = CountRow(b, a[i])
RECURSIVE SumQ(_)           \* exact rational sum of a sequence of numeric values
SumQ(vs) == IF vs = <<>> THEN Q(0,1) ELSE Arith("+", Head(vs), SumQ(Tail(vs)))
RECURSIVE SetToSeq(_)      \* ascending sequence of a finite set of integers
SetToSeq(ss) == IF ss = {} THEN <<>> ELSE LET x == CHOOSE x \in ss : \A y \in ss : x <= y IN <<x>> \o SetToSeq(ss \ {x})

RECURSIVE SetToSeqAny(_)   \* some enumeration of a finite set
SetToSeqAny(ss) == IF ss = {} THEN <<>> ELSE LET x == CHOOSE x \in ss : TRUE IN <<x>> \o SetToSeqAny(ss \ {x})

\* ---------- expressions ----------
\* frame = [cols |-> Seq([q |-> alias, c |-> column]), row |-> Row]; env = Seq(frame), innermost first
Lookup(env, q, c) ==
  LET hit(f) == { i \in 1..Len(f.cols) : f.cols[i].c = c /\ (q = "" \/ f.cols[i].q = q) }
      fs == { j \in 1..Len(env) : hit(env[j]) # {} } IN
  IF fs = {} THEN ERR ELSE
  LET j == CHOOSE j \in fs : \A k \in fs : j <= k
      i == CHOOSE i \in hit(env[j]) : \A k \in hit(env[j]) : i <= k IN env[j].row[i]

NoExpr == [k |-> "none"]
\* constructors (generators use these so every record carries the fields Ev reads)
Lit(v)        == [k |-> "lit", v |-> v]
Col(c)        == [k |-> "col", q |-> "", c |-> c]
QCol(q, c)    == [k |-> "col", q |-> q, c |-> c]
CmpE(op,l,r)  == [k |-> "cmp", op |-> op, l |-> l, r |-> r]
ArE(op,l,r)   == [k |-> "arith", op |-> op, l |-> l, r |-> r]
AndE(l,r)     == [k |-> "and", l |-> l, r |-> r]
OrE(l,r)      == [k |-> "or", l |-> l, r |-> r]
NotE(l)       == [k |-> "not", l |-> l]
NegE(l)       == [k |-> "neg", l |-> l]
IsNullE(l,neg)== [k |-> "isnull", l |-> l, neg |-> neg]
BetweenE(l,lo,hi,neg) == [k |-> "between", l |-> l, lo |-> lo, hi |-> hi, neg |-> neg]
InListE(l,vs,neg) == [k |-> "inlist", l |-> l, vs |-> vs, neg |-> neg]
LikeE(l,p,neg) == [k |-> "like", l |-> l, p |-> p, neg |-> neg]
CoalesceE(vs) == [k |-> "coalesce", vs |-> vs]
CaseE(whens, els) == [k |-> "case", whens |-> whens, els |-> els]          \* whens: Seq([c, v])
SCaseE(op, whens, els) == [k |-> "scase", l |-> op, whens |-> whens, els |-> els]
AggE(f, arg, distinct) == [k |-> "agg", f |-> f, star |-> FALSE, arg |-> arg, distinct |-> distinct]
CountStar     == [k |-> "agg", f |-> "count", star |-> TRUE, arg |-> NoExpr, distinct |-> FALSE]
ScalarE(q)    == [k |-> "scalar", q |-> q]
ExistsE(q,neg)== [k |-> "exists", q |-> q, neg |-> neg]
InSubE(l,q,neg) == [k |-> "insub", l |-> l, q |-> q, neg |-> neg]

RECURSIVE HasAggE(_)
HasAggE(e) ==
  CASE e.k = "agg" -> TRUE
    [] e.k \in {"lit", "col", "none", "scalar", "exists"} -> FALSE
    [] e.k \in {"cmp", "arith", "and", "or"} -> HasAggE(e.l) \/ HasAggE(e.r)
    [] e.k \in {"not", "neg", "isnull", "like", "insub"} -> HasAggE(e.l)
    [] e.k = "between" -> HasAggE(e.l) \/ HasAggE(e.lo) \/ HasAggE(e.hi)
    [] e.k = "inlist" -> HasAggE(e.l) \/ \E i \in 1..Len(e.vs) : HasAggE(e.vs[i])
    [] e.k = "coalesce" -> \E i \in 1..Len(e.vs) : HasAggE(e.vs[i])
    [] e.k = "case" -> HasAggE(e.els) \/ \E i \in 1..Len(e.whens) : HasAggE(e.whens[i].c) \/ HasAggE(e.whens[i].v)
    [] e.k = "scase" -> HasAggE(e.l) \/ HasAggE(e.els) \/ \E i \in 1..Len(e.whens) : HasAggE(e.whens[i].c) \/ HasAggE(e.whens[i].v)

RECURSIVE Ev(_,_,_,_), EvalQ(_,_,_), EvalFrom(_,_,_), Agg(_,_,_,_)
AnyOf(cs, neg) == LET any == IF \E i \in 1..Len(cs) : IsErr(cs[i]) THEN ERR
                             ELSE IF \E i \in 1..Len(cs) : cs[i] = TT THEN TT
                             ELSE IF \E i \in 1..Len(cs) : IsNull(cs[i]) THEN NULL ELSE FF
                  IN IF neg THEN Not3(any) ELSE any
\* grp: <<>> outside aggregation, else the sequence of envs of the group's rows
Ev(e, env, grp, db) ==
  CASE e.k = "lit"  -> e.v
    [] e.k = "col"  -> Lookup(env, e.q, e.c)
    [] e.k = "cmp"  -> Cmp(e.op, Ev(e.l,env,grp,db), Ev(e.r,env,grp,db))
    [] e.k = "arith"-> Arith(e.op, Ev(e.l,env,grp,db), Ev(e.r,env,grp,db))
    [] e.k = "and"  -> And3(Ev(e.l,env,grp,db), Ev(e.r,env,grp,db))
    [] e.k = "or"   -> Or3(Ev(e.l,env,grp,db), Ev(e.r,env,grp,db))
    [] e.k = "not"  -> Not3(Ev(e.l,env,grp,db))
    [] e.k = "neg"  -> Arith("-", I(0), Ev(e.l,env,grp,db))
    [] e.k = "isnull" -> LET v == Ev(e.l,env,grp,db) IN IF IsErr(v) THEN ERR ELSE B3(IsNull(v) = ~e.neg)
    [] e.k = "between" -> LET v == Ev(e.l,env,grp,db)
                              r == And3(Cmp(">=", v, Ev(e.lo,env,grp,db)), Cmp("<=", v, Ev(e.hi,env,grp,db)))
                          IN IF e.neg THEN Not3(r) ELSE r
    [] e.k = "inlist" -> LET v == Ev(e.l,env,grp,db)
                         IN AnyOf([i \in 1..Len(e.vs) |-> Cmp("=", v, Ev(e.vs[i],env,grp,db))], e.neg)
    [] e.k = "like" -> LET v == Ev(e.l,env,grp,db) p == Ev(e.p,env,grp,db) IN
           IF IsErr(v) \/ IsErr(p) THEN ERR ELSE IF IsNull(v) \/ IsNull(p) THEN NULL
           ELSE IF v.t # "s" \/ p.t # "s" THEN ERR
           ELSE LET m == B3(LikeM(Chars(v.s), Chars(p.s))) IN IF e.neg THEN Not3(m) ELSE m
    [] e.k = "coalesce" -> LET vs == [i \in 1..Len(e.vs) |-> Ev(e.vs[i],env,grp,db)]
                               nn == { i \in 1..Len(vs) : ~IsNull(vs[i]) }
                           IN IF nn = {} THEN NULL ELSE vs[CHOOSE i \in nn : \A j \in nn : i <= j]
    [] e.k = "case" -> LET hits == { i \in 1..Len(e.whens) : Truth(Ev(e.whens[i].c,env,grp,db)) }
                       IN IF hits = {} THEN (IF e.els.k = "none" THEN NULL ELSE Ev(e.els,env,grp,db))
                          ELSE Ev(e.whens[CHOOSE i \in hits : \A j \in hits : i <= j].v, env, grp, db)
    [] e.k = "scase" -> LET o == Ev(e.l,env,grp,db)
                            hits == { i \in 1..Len(e.whens) : Cmp("=", o, Ev(e.whens[i].c,env,grp,db)) = TT }
                        IN IF hits = {} THEN (IF e.els.k = "none" THEN NULL ELSE Ev(e.els,env,grp,db))
                           ELSE Ev(e.whens[CHOOSE i \in hits : \A j \in hits : i <= j].v, env, grp, db)
    [] e.k = "agg"  -> Agg(e, env, grp, db)
    [] e.k = "scalar" -> LET r == EvalQ(e.q, db, env) IN
           IF r.err \/ Len(r.rows) > 1 THEN ERR ELSE IF r.rows = <<>> THEN NULL ELSE r.rows[1][1]
    [] e.k = "exists" -> LET r == EvalQ(e.q, db, env) IN
           IF r.err THEN ERR ELSE B3((r.rows # <<>>) = ~e.neg)
    [] e.k = "insub" -> LET v == Ev(e.l,env,grp,db) r == EvalQ(e.q, db, env) IN
           IF r.err \/ IsErr(v) THEN ERR ELSE
           AnyOf([i \in 1..Len(r.rows) |-> Cmp("=", v, r.rows[i][1])], e.neg)

Agg(e, env, grp, db) ==
  LET vals0 == IF e.star THEN [i \in 1..Len(grp) |-> TT]
               ELSE [i \in 1..Len(grp) |-> Ev(e.arg, grp[i], <<>>, db)]
      nn0   == SelectSeq(vals0, LAMBDA v : ~IsNull(v))
      nn    == IF e.distinct THEN Map(DedupRows(Map(nn0, LAMBDA v : <<v>>)), LAMBDA r : r[1]) ELSE nn0
  IN IF \E i \in 1..Len(vals0) : IsErr(vals0[i]) THEN ERR ELSE
     CASE e.f = "count" -> I(Len(nn))
       [] e.f = "sum"   -> IF nn = <<>> THEN NULL ELSE IF \E i \in 1..Len(nn) : ~IsNum(nn[i]) THEN ERR ELSE SumQ(nn)
       [] e.f = "avg"   -> IF nn = <<>> THEN NULL ELSE IF \E i \in 1..Len(nn) : ~IsNum(nn[i]) THEN ERR
                           ELSE LET s == SumQ(nn) IN Q(s.n, s.d * Len(nn))
       [] e.f = "min"   -> IF nn = <<>> THEN NULL ELSE CHOOSE v \in Range(nn) : \A w \in Range(nn) : ~LessV(w, v)
       [] e.f = "max"   -> IF nn = <<>> THEN NULL ELSE CHOOSE v \in Range(nn) : \A w \in Range(nn) : ~LessV(v, w)

\* ---------- FROM ----------
\* db = [tables |-> [name -> [cols |-> Seq(name), rows |-> Seq(row)]], views |-> [name -> [q, cols]]]
FromRes(cols, rows) == [cols |-> cols, rows |-> rows, err |-> FALSE]
FromErr == [cols |-> <<>>, rows |-> <<>>, err |-> TRUE]
TableRef(t)       == [k |-> "table", t |-> t, as |-> t]
TableAs(t, a)     == [k |-> "table", t |-> t, as |-> a]
Derived(q, a)     == [k |-> "derived", q |-> q, as |-> a]
JoinF(jt, l, r, on) == [k |-> "join", jt |-> jt, l |-> l, r |-> r, on |-> on]   \* jt in inner|left|cross|comma
NoFrom == [k |-> "none"]
KeyVecLess(a, b, order) == \E j \in 1..Len(order) : KeyLess(a[j], b[j], order[j].dir) /\
                              \A i \in 1..(j-1) : ~KeyLess(a[i], b[i], order[i].dir) /\ ~KeyLess(b[i], a[i], order[i].dir)
\* The rows a NESTED block (the definition of a view, a CTE or a derived table) hands to the enclosing query: its own
\* ORDER BY / LIMIT / OFFSET are applied first - the enclosing query filters, joins and aggregates the SLICE, never the
\* rows the slice cut off.  r = EvalQ(q, ..) carries the order key of every row.  The slice is a definite bag unless rows
\* that are NOT identical tie across a boundary of the window (LIMIT without a deciding ORDER BY): ok = FALSE then.
BlockRows(q, r) ==
  IF q.limit < 0 /\ q.offset < 0 THEN [ok |-> TRUE, rows |-> r.rows] ELSE
  LET n == Len(r.rows)
      off == IF q.offset < 0 THEN 0 ELSE q.offset
      hi  == IF q.limit < 0 THEN n ELSE off + q.limit          \* the window holds the sorted positions off+1 .. hi
      less(i, j) == KeyVecLess(r.keys[i], r.keys[j], q.order)
      class(i) == { j \in 1..n : ~less(i, j) /\ ~less(j, i) }
      before(i) == Cardinality({ j \in 1..n : less(j, i) })
      incl(i) == LET b == before(i) t == Cardinality(class(i))
                     lo2 == IF b > off THEN b ELSE off
                     hi2 == IF b + t < hi THEN b + t ELSE hi
                 IN IF hi2 > lo2 THEN hi2 - lo2 ELSE 0            \* how many rows of i's tie class fall inside the window
      rank(i) == Cardinality({ j \in class(i) : j < i })
      amb == \E i \in 1..n : incl(i) > 0 /\ incl(i) < Cardinality(class(i)) /\ \E j \in class(i) : ~RowEq(r.rows[i], r.rows[j])
      keep == { i \in 1..n : rank(i) < incl(i) }
  IN [ok |-> ~amb, rows |-> [k \in 1..Cardinality(keep) |-> r.rows[SetToSeq(keep)[k]]]]
ViewNames(v, r) == IF v.cols = <<>> THEN r.names ELSE v.cols
EvalFrom(f, db, outer) ==
  CASE f.k = "table" ->
         IF f.t \in DOMAIN db.views THEN       \* CTEs and views shadow base tables
            LET v == db.views[f.t]
                r == EvalQ(v.q, [db EXCEPT !.views = [n \in (DOMAIN db.views) \ {f.t} |-> db.views[n]]], <<>>) IN
            IF r.err \/ (v.cols # <<>> /\ Len(v.cols) # Len(r.names)) THEN FromErr
            ELSE LET b == BlockRows(v.q, r) IN
                 IF ~b.ok THEN FromErr ELSE FromRes([i \in 1..Len(r.names) |-> [q |-> f.as, c |-> ViewNames(v, r)[i]]], b.rows)
         ELSE IF f.t \in DOMAIN db.tables THEN
            FromRes([i \in 1..Len(db.tables[f.t].cols) |-> [q |-> f.as, c |-> db.tables[f.t].cols[i]]], db.tables[f.t].rows)
         ELSE FromErr
    [] f.k = "derived" ->
         LET r == EvalQ(f.q, db, outer) IN
         IF r.err THEN FromErr ELSE
         LET b == BlockRows(f.q, r) IN
         IF ~b.ok THEN FromErr ELSE FromRes([i \in 1..Len(r.names) |-> [q |-> f.as, c |-> r.names[i]]], b.rows)
    [] f.k = "join" ->
         LET L == EvalFrom(f.l, db, outer) R == EvalFrom(f.r, db, outer) IN
         IF L.err \/ R.err THEN FromErr ELSE
         LET cols == L.cols \o R.cols
             on(l, r) == IF f.on.k = "none" THEN TT ELSE Ev(f.on, <<[cols |-> cols, row |-> l \o r]>> \o outer, <<>>, db)
             nulls == [i \in 1..Len(R.cols) |-> NULL]
             perL(l) == LET m == SelectSeq(R.rows, LAMBDA r : Truth(on(l, r))) IN
                        IF m = <<>> /\ f.jt = "left" THEN << l \o nulls >> ELSE Map(m, LAMBDA r : l \o r)
             bad == \E i \in 1..Len(L.rows), j \in 1..Len(R.rows) : IsErr(on(L.rows[i], R.rows[j]))
         IN IF bad THEN FromErr ELSE FromRes(cols, Flatten(Map(L.rows, perL)))

\* ---------- SELECT ----------
QRes(names, rows, keys) == [names |-> names, rows |-> rows, keys |-> keys, err |-> FALSE]
QErr == [names |-> <<>>, rows |-> <<>>, keys |-> <<>>, err |-> TRUE]
\* order item: [pos |-> k > 0 (output position) or 0, e |-> expr (used when pos = 0), dir |-> "asc"|"desc"]
OrdPos(p, dir) == [pos |-> p, e |-> NoExpr, dir |-> dir]
OrdE(e, dir)   == [pos |-> 0, e |-> e, dir |-> dir]
SelItem(e, as) == [e |-> e, as |-> as]
\* full SELECT record; generators start from BaseSel and override fields with EXCEPT
BaseSel(from) == [k |-> "select", with |-> <<>>, from |-> from, where |-> NoExpr, group |-> <<>>, having |-> NoExpr,
                  star |-> TRUE, sel |-> <<>>, distinct |-> FALSE, order |-> <<>>, limit |-> -1, offset |-> -1]
SetOp(op, all, l, r) == [k |-> "setop", op |-> op, all |-> all, l |-> l, r |-> r, order |-> <<>>, limit |-> -1, offset |-> -1]
RECURSIVE OverlayViews(_,_)
OverlayViews(db, with) == IF with = <<>> THEN db ELSE
   LET w == Head(with)
       nv == [n \in (DOMAIN db.views) \cup {w.n} |-> IF n = w.n THEN [q |-> w.q, cols |-> w.cols] ELSE db.views[n]]
   IN OverlayViews([db EXCEPT !.views = nv], Tail(with))
QueryHasAgg(q) == (\E i \in 1..Len(q.sel) : HasAggE(q.sel[i].e)) \/ HasAggE(q.having)
                  \/ (\E i \in 1..Len(q.order) : HasAggE(q.order[i].e))
EvalQ(q0, db0, outer) ==
  IF q0.k = "setop" THEN
     LET L == EvalQ(q0.l, db0, outer) R == EvalQ(q0.r, db0, outer) IN
     IF L.err \/ R.err \/ Len(L.names) # Len(R.names) THEN QErr ELSE
     LET l == L.rows r == R.rows
         In(rs, x) == \E i \in 1..Len(rs) : RowEq(rs[i], x)
         Remove1(rs, x) == LET i == CHOOSE i \in 1..Len(rs) : RowEq(rs[i], x) /\ \A j \in 1..(i-1) : ~RowEq(rs[j], x)
                           IN SubSeq(rs, 1, i-1) \o SubSeq(rs, i+1, Len(rs))
         RECURSIVE Inter(_,_), Except(_,_)
         Inter(a, b) == IF a = <<>> THEN <<>> ELSE IF In(b, Head(a)) THEN <<Head(a)>> \o Inter(Tail(a), Remove1(b, Head(a))) ELSE Inter(Tail(a), b)
         Except(a, b) == IF a = <<>> THEN <<>> ELSE IF In(b, Head(a)) THEN Except(Tail(a), Remove1(b, Head(a))) ELSE <<Head(a)>> \o Except(Tail(a), b)
         rows == CASE q0.op = "union"     -> IF q0.all THEN l \o r ELSE DedupRows(l \o r)
                   [] q0.op = "intersect" -> IF q0.all THEN Inter(l, r) ELSE DedupRows(SelectSeq(l, LAMBDA x : In(r, x)))
                   [] q0.op = "except"    -> IF q0.all THEN Except(l, r) ELSE DedupRows(SelectSeq(l, LAMBDA x : ~In(r, x)))
         \* ORDER BY on a set operation refers to output columns by position
         keys == [i \in 1..Len(rows) |-> [j \in 1..Len(q0.order) |-> rows[i][q0.order[j].pos]]]
     IN QRes(L.names, rows, keys)
  ELSE
  LET q == q0
      db == OverlayViews(db0, q.with)
      F == IF q.from.k = "none" THEN FromRes(<<>>, << <<>> >>) ELSE EvalFrom(q.from, db, outer) IN
  IF F.err THEN QErr ELSE
  LET envOf(row) == <<[cols |-> F.cols, row |-> row]>> \o outer
      wv(row) == IF q.where.k = "none" THEN TT ELSE Ev(q.where, envOf(row), <<>>, db)
      kept == SelectSeq(F.rows, LAMBDA r : Truth(wv(r)))
      grouped == QueryHasAgg(q) \/ q.group # <<>>
      gkey(row) == [i \in 1..Len(q.group) |-> Ev(q.group[i], envOf(row), <<>>, db)]
      reps == DedupRows(Map(kept, gkey))                      \* distinct group keys, first-seen order
      groups == IF ~grouped THEN <<>>
                ELSE IF q.group = <<>> THEN << kept >>           \* one group, even when empty
                ELSE [g \in 1..Len(reps) |-> SelectSeq(kept, LAMBDA r : RowEq(gkey(r), reps[g]))]
      ctxs == IF grouped THEN [g \in 1..Len(groups) |->
                  [env |-> IF groups[g] = <<>> THEN <<[cols |-> F.cols, row |-> [i \in 1..Len(F.cols) |-> NULL]]>> \o outer ELSE envOf(groups[g][1]),
                   grp |-> Map(groups[g], envOf), agg |-> TRUE]]
              ELSE [i \in 1..Len(kept) |-> [env |-> envOf(kept[i]), grp |-> <<>>, agg |-> FALSE]]
      hv(c) == IF q.having.k = "none" THEN TT ELSE Ev(q.having, c.env, c.grp, db)
      pass == SelectSeq(ctxs, LAMBDA c : Truth(hv(c)))
      sel == IF q.star THEN [i \in 1..Len(F.cols) |-> [e |-> [k |-> "col", q |-> F.cols[i].q, c |-> F.cols[i].c], as |-> F.cols[i].c]] ELSE q.sel
      proj(c) == [i \in 1..Len(sel) |-> Ev(sel[i].e, c.env, c.grp, db)]
      \* an ORDER BY item is an output position, an output alias, or an expression over the input row
      aliasPos(e) == IF e.k = "col" /\ e.q = "" /\ (\E i \in 1..Len(sel) : sel[i].as = e.c)
                     THEN CHOOSE i \in 1..Len(sel) : sel[i].as = e.c /\ \A k \in 1..(i-1) : sel[k].as # e.c ELSE 0
      okey(c) == [j \in 1..Len(q.order) |->
                    IF q.order[j].pos > 0 THEN proj(c)[q.order[j].pos]
                    ELSE IF aliasPos(q.order[j].e) > 0 /\ Lookup(c.env, "", q.order[j].e.c) = ERR THEN proj(c)[aliasPos(q.order[j].e)]
                    ELSE Ev(q.order[j].e, c.env, c.grp, db)]
      rows0 == Map(pass, proj)
      keys0 == Map(pass, okey)
      anyErr == \/ \E i \in 1..Len(F.rows) : IsErr(wv(F.rows[i]))
                \/ \E i \in 1..Len(kept) : \E j \in 1..Len(q.group) : IsErr(gkey(kept[i])[j])
                \/ \E i \in 1..Len(ctxs) : IsErr(hv(ctxs[i]))
                \/ \E i \in 1..Len(rows0) : \E j \in 1..Len(rows0[i]) : IsErr(rows0[i][j])
                \/ \E i \in 1..Len(keys0) : \E j \in 1..Len(keys0[i]) : IsErr(keys0[i][j])
                \/ \E j \in 1..Len(q.order) : q.order[j].pos > Len(sel)
      \* DISTINCT keeps the first occurrence; its key vector travels with it
      firsts == { i \in 1..Len(rows0) : \A j \in 1..(i-1) : ~RowEq(rows0[j], rows0[i]) }
      idx == IF q.distinct THEN SelectSeq([i \in 1..Len(rows0) |-> i], LAMBDA i : i \in firsts) ELSE [i \in 1..Len(rows0) |-> i]
  IN IF anyErr THEN QErr
     ELSE QRes([i \in 1..Len(sel) |-> sel[i].as], [i \in 1..Len(idx) |-> rows0[idx[i]]], [i \in 1..Len(idx) |-> keys0[idx[i]]])

\* ---------- acceptance of an observed result ----------
\* Observed values: integers/rationals are compared by value with the 10^-6 tolerance of the
\* interchange format (non-integral numbers arrive as n/10^6); booleans may arrive as 0/1 integers.
AbsI(x) == IF x < 0 THEN -x ELSE x
ObsValEq(sv, ov) ==
   IF IsNull(sv) \/ IsNull(ov) THEN IsNull(sv) /\ IsNull(ov)
   ELSE IF sv.t = "x" \/ ov.t = "x" THEN sv = ov          \* opaque values (outside the modelled types) are compared as tokens
   ELSE IF sv.t = "s" \/ ov.t = "s" THEN sv.t = ov.t /\ sv.s = ov.s
   ELSE IF sv.t = "b" THEN ov.t \in {"b", "i"} /\ ov.d = 1 /\ ov.n = sv.n
   ELSE IF sv.t = "i" THEN ov.t \in {"i", "b"} /\ (IF ov.d = 1 THEN sv.n = ov.n * sv.d
                                                     \* |sv.n/sv.d - ov.n/10^6| <= 10^-6 without leaving 32-bit integers:
                                                     \* sv.n*10^6 - ov.n*sv.d = sv.d*(sv.n*q - ov.n) + sv.n*r with 10^6 = q*sv.d + r
                                                     ELSE AbsI(sv.d * (sv.n * (1000000 \div sv.d) - ov.n) + sv.n * (1000000 % sv.d)) <= sv.d)
   ELSE FALSE
ObsRowEq(sr, or) == Len(sr) = Len(or) /\ \A i \in 1..Len(sr) : ObsValEq(sr[i], or[i])
ObsCount(rs, or) == Cardinality({ i \in 1..Len(rs) : ObsRowEq(rs[i], or) })        \* rs spec rows, or observed row
ObsCountO(os, sr) == Cardinality({ i \in 1..Len(os) : ObsRowEq(sr, os[i]) })       \* os observed rows, sr spec row
ObsBagEq(srows, orows) == Len(srows) = Len(orows)
                          /\ \A i \in 1..Len(srows) : ObsCountO(orows, srows[i]) = CountRow(srows, srows[i])
\* obs can be read as a non-decreasing selection of distinct spec rows (greedy: smallest feasible key)
RECURSIVE SortedAssign(_,_,_,_,_,_)
SortedAssign(R, order, obs, i, rem, prev) ==
   IF i > Len(obs) THEN TRUE ELSE
   LET cands == { j \in rem : ObsRowEq(R.rows[j], obs[i]) /\ (prev = 0 \/ ~KeyVecLess(R.keys[j], R.keys[prev], order)) } IN
   IF cands = {} THEN FALSE ELSE
   LET j == CHOOSE j \in cands : \A k \in cands : ~KeyVecLess(R.keys[k], R.keys[j], order)
   IN SortedAssign(R, order, obs, i + 1, rem \ {j}, j)
AcceptRes(q, R, obs) ==
  LET n == Len(R.rows)
      off == IF q.offset < 0 THEN 0 ELSE q.offset
      lim == IF q.limit < 0 THEN n ELSE q.limit
      want == IF off >= n THEN 0 ELSE IF lim < n - off THEN lim ELSE n - off
      \* a row MUST be in the slice if every position it can occupy is inside [off, off+want),
      \* MAY be if some position is, MUST NOT otherwise (ties at the cut leave freedom)
      before(i) == Cardinality({ j \in 1..n : KeyVecLess(R.keys[j], R.keys[i], q.order) })
      ties(i)   == Cardinality({ j \in 1..n : ~KeyVecLess(R.keys[j], R.keys[i], q.order) /\ ~KeyVecLess(R.keys[i], R.keys[j], q.order) })
      must == { i \in 1..n : before(i) >= off /\ before(i) + ties(i) <= off + want }
      may  == { i \in 1..n : before(i) + ties(i) > off /\ before(i) < off + want }
      mustRows == [k \in 1..Cardinality(must) |-> R.rows[SetToSeq(must)[k]]]
      mayRows  == [k \in 1..Cardinality(may)  |-> R.rows[SetToSeq(may)[k]]]
  IN /\ Len(obs) = want
     /\ \A i \in 1..Len(obs) : Cardinality({ j \in 1..Len(obs) : obs[j] = obs[i] }) <= ObsCount(mayRows, obs[i])
     /\ \A i \in 1..Len(mustRows) : ObsCountO(obs, mustRows[i]) >= CountRow(mustRows, mustRows[i])
     /\ (q.order # <<>> => SortedAssign(R, q.order, obs, 1, may, 0))
Acceptable(q, db, obs) == LET R == EvalQ(q, db, <<>>) IN IF R.err THEN FALSE ELSE AcceptRes(q, R, obs)
=============================================================================
