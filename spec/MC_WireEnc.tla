----------------------------- MODULE MC_WireEnc -----------------------------
(***************************************************************************)
(* GEN for C28 (server messages are well-formed protocol frames).          *)
(* Pure input enumeration: every BackendMessage variant with field         *)
(* contents from small alphabets - strings: empty, ASCII, multi-byte, 300  *)
(* bytes (length bytes above 255); integers: 0, +-1, 256, 65536, MaxI32,   *)
(* MinI32; Int16: 0, +-1, 32767, -32768; row values: NULL, empty, NUL      *)
(* byte, text, binary, 300 bytes; field / value lists up to MaxList        *)
(* entries; error / notice maps up to three fields; and - Long = TRUE -     *)
(* rows of 32768, 65534 and 65535 columns (the Int16 counters).  Each      *)
(* scenario encodes a message into an empty write buffer and a second one  *)
(* behind it.  The ASSUMEs are the theorems of the reference model: the    *)
(* reference parser inverts the reference encoder, the length field counts *)
(* the bytes after the type byte, a frame is not a frame any more when a   *)
(* byte is added or removed, distinct messages have distinct encodings.    *)
(***************************************************************************)
EXTENDS Wire, TLC, Json, SequencesExt
CONSTANTS MaxList, Long
VARIABLE dummy

A300 == [i \in 1..300 |-> 97]
Strs  == { <<>>, <<97>>, <<195, 169, 97>> }
LStrs == Strs \cup { A300 }
Ints  == { 0, 1, -1, 256, 65536, MaxI32, MinI32 }
Lists(S, n) == UNION { [1..k -> S] : k \in 0..n }

FD(name, toid, attr, tyoid, tysz, tmod, fmt) == [name |-> name, toid |-> toid, attr |-> attr, tyoid |-> tyoid, tysz |-> tysz, tmod |-> tmod, fmt |-> fmt]
FieldSet == { FD(s, 0, 0, 23, 4, -1, 0) : s \in Strs } \cup { FD(s, MaxI32, 32767, MinI32, -1, MaxI32, 1) : s \in Strs }
              \cup { FD(<<97>>, -1, -32768, 25, -32768, 65536, 0), FD(A300, 16384, 1, 1043, -1, 259, 0) }
Val(b) == [null |-> 0, b |-> b]
Null == [null |-> 1, b |-> <<>>]
ValSet == { Null, Val(<<>>), Val(<<0>>), Val(<<97>>), Val(<<195, 169, 0, 255>>), Val(A300) }
KV(k, v) == [k |-> k, v |-> v]
KvLists == { <<>> } \cup { <<KV(83, s)>> : s \in LStrs } \cup { <<KV(77, s1), KV(67, s2)>> : s1, s2 \in Strs }
             \cup { <<KV(83, s1), KV(255, s2), KV(1, s3)>> : s1, s2, s3 \in Strs }

MsgSet ==
   { BM("AuthOk"), BM("AuthClear"), BM("Empty") }
   \cup { [BM("AuthMD5") EXCEPT !.b = s] : s \in { <<0, 0, 0, 0>>, <<1, 2, 3, 4>>, <<255, 0, 128, 10>> } }
   \cup { [BM("ParamStatus") EXCEPT !.s1 = a, !.s2 = b] : a, b \in LStrs }
   \cup { [BM("KeyData") EXCEPT !.n1 = a, !.n2 = b] : a, b \in Ints }
   \cup { [BM("Ready") EXCEPT !.n1 = c] : c \in {73, 84, 69} }
   \cup { [BM("Complete") EXCEPT !.s1 = s] : s \in LStrs }
   \cup { [BM(t) EXCEPT !.kv = kv] : t \in {"Error", "Notice"}, kv \in KvLists }
   \cup { [BM("RowDesc") EXCEPT !.fl = l] : l \in Lists(FieldSet, MaxList) }
   \cup { [BM("DataRow") EXCEPT !.vl = l] : l \in Lists(ValSet, MaxList) }
\* the Int16 counters: 2^15, 2^16 - 2 and 2^16 - 1 columns
LongSet == IF ~Long THEN {} ELSE
   { [BM("DataRow") EXCEPT !.vl = <<Null>>, !.rep = 32768], [BM("DataRow") EXCEPT !.vl = <<Null, Val(<<97>>)>>, !.rep = 32767],
     [BM("DataRow") EXCEPT !.vl = <<Val(<<>>)>>, !.rep = 65535],
     [BM("RowDesc") EXCEPT !.fl = <<FD(<<97>>, 0, 0, 23, 4, -1, 0)>>, !.rep = 32768],
     [BM("RowDesc") EXCEPT !.fl = <<FD(<<>>, 1, 2, 3, 4, 5, 1)>>, !.rep = 65535] }

EncA(m) == [a |-> "enc", m |-> m]
Msgs == SetToSeq(MsgSet)
N == Len(Msgs)
Scenarios == { <<EncA(Msgs[i]), EncA(Msgs[(i % N) + 1])>> : i \in 1..N } \cup { <<EncA(m)>> : m \in LongSet }
ASSUME \A s \in Scenarios : PrintT(<<"REPLAY", ToJson(s)>>)

\* ---------------------------------------------------------------- theorems of the reference model
ParseInverts == \A m \in MsgSet : Representable(m) /\ SameB(m, ParseBackend(Encode(m)))
LengthField  == \A m \in MsgSet \cup LongSet : LET e == Encode(m) IN Len(e) >= 5 /\ I32(Sub(e, 2, 5)) = Len(e) - 1
OneFrame     == \A m \in MsgSet : LET e == Encode(m) IN
                   /\ ParseBackend(e \o <<0>>).t = "bad" /\ ParseBackend(Sub(e, 1, Len(e) - 1)).t = "bad"
                   /\ \A n \in MsgSet : n.t \in {"AuthOk", "Empty", "Ready"} => ParseBackend(e \o Encode(n)).t = "bad"
Injective    == \A m1, m2 \in MsgSet : m1 # m2 => Encode(m1) # Encode(m2)
LongOk       == \A m \in LongSet : Representable(m)
ASSUME ParseInverts
ASSUME LengthField
ASSUME OneFrame
ASSUME Injective
ASSUME LongOk
ASSUME PrintT(<<"COUNT", N, Cardinality(Scenarios)>>)

Init == dummy = 0
Next == UNCHANGED dummy
=============================================================================
