------------------------------- MODULE MC_Trg -------------------------------
(***************************************************************************)
(* GEN for C34: DML histories on T1(ID PRIMARY KEY, V) with one of four     *)
(* trigger sets (constant TrgSet) whose bodies write (trigger tag, OLD.ID,  *)
(* OLD.V, NEW.ID, NEW.V) into the audit table AUD, or NEW.V / OLD.V into a  *)
(* table CHK whose CHECK (X < 2) makes the firing fail for V = 2:           *)
(*   row  - BEFORE / AFTER row triggers for INSERT, UPDATE, DELETE          *)
(*   stmt - statement-level triggers (fire once, also for zero rows)        *)
(*          next to a row trigger                                           *)
(*   when - WHEN (NEW.V > 0), WHEN (OLD.V <> NEW.V), UPDATE OF (V)           *)
(*   fail - failing bodies at each row position of multi-row statements,    *)
(*          next to an audit trigger whose rows must not survive a failure  *)
(* The statements are single- and multi-row, match zero rows, change the    *)
(* key without naming V.  Engine!WithTriggers is the definition: one body   *)
(* execution per trigger per affected row with that row's images, once per  *)
(* statement for statement triggers, WHEN gating, and Fail - nothing        *)
(* changes anywhere - when a firing fails.  The model checks ConstraintsHold *)
(* and the firing-count law below.                                          *)
(***************************************************************************)
EXTENDS Engine, Json
CONSTANTS MaxDepth, TrgSet
VARIABLES st, hist, base
vars == <<st, hist, base>>

C(n, ty, pk) == [n |-> n, ty |-> ty, nn |-> FALSE, pk |-> pk, uq |-> FALSE, def |-> NoDef]
Tables == << [a |-> "ct", t |-> "T1", cols |-> << C("ID", "INTEGER", TRUE), C("V", "INTEGER", FALSE) >>, pk |-> <<>>, uqs |-> <<>>, checks |-> <<>>, fks |-> <<>>],
             [a |-> "ct", t |-> "AUD", cols |-> << C("TG", "VARCHAR(10)", FALSE), C("OID", "INTEGER", FALSE), C("OV", "INTEGER", FALSE),
                                                    C("NID", "INTEGER", FALSE), C("NV", "INTEGER", FALSE) >>, pk |-> <<>>, uqs |-> <<>>, checks |-> <<>>, fks |-> <<>>],
             [a |-> "ct", t |-> "CHK", cols |-> << C("X", "INTEGER", FALSE) >>, pk |-> <<>>, uqs |-> <<>>,
              checks |-> << CmpE("<", Col("X"), Lit(I(2))) >>, fks |-> <<>>] >>
Audit(tag) == [k |-> "audit", into |-> "AUD", tag |-> tag, src |-> ""]
Chk(src) == [k |-> "chk", into |-> "CHK", tag |-> "", src |-> src]
Trg(n, timing, ev, gran, ofcols, when, body) ==
   [a |-> "ctrg", n |-> n, t |-> "T1", timing |-> timing, ev |-> ev, gran |-> gran, ofcols |-> ofcols, when |-> when, body |-> body, c |-> <<"ID", "V">>]
NewV == QCol("NEW", "V")   OldV == QCol("OLD", "V")
Sets == [ row  |-> << Trg("BRI", "before", "ins", "row", <<>>, NoExpr, Audit("BI")), Trg("ARI", "after", "ins", "row", <<>>, NoExpr, Audit("AI")),
                      Trg("ARU", "after", "upd", "row", <<>>, NoExpr, Audit("AU")), Trg("BRU", "before", "upd", "row", <<>>, NoExpr, Audit("BU")),
                      Trg("BRD", "before", "del", "row", <<>>, NoExpr, Audit("BD")), Trg("ARD", "after", "del", "row", <<>>, NoExpr, Audit("AD")) >>,
          stmt |-> << Trg("BSI", "before", "ins", "stmt", <<>>, NoExpr, Audit("SI")), Trg("ASU", "after", "upd", "stmt", <<>>, NoExpr, Audit("SU")),
                      Trg("ASD", "after", "del", "stmt", <<>>, NoExpr, Audit("SD")), Trg("ARU", "after", "upd", "row", <<>>, NoExpr, Audit("AU")) >>,
          when |-> << Trg("WI", "after", "ins", "row", <<>>, CmpE(">", NewV, Lit(I(0))), Audit("WI")),
                      Trg("WU", "after", "upd", "row", <<>>, CmpE("<>", OldV, NewV), Audit("WU")),
                      Trg("OV", "after", "upd", "row", <<"V">>, NoExpr, Audit("OV")),
                      Trg("WD", "before", "del", "row", <<>>, IsNullE(OldV, FALSE), Audit("WD")) >>,
          fail |-> << Trg("AI", "after", "ins", "row", <<>>, NoExpr, Audit("AI")), Trg("FI", "after", "ins", "row", <<>>, NoExpr, Chk("new")),
                      Trg("FU", "before", "upd", "row", <<>>, NoExpr, Chk("new")), Trg("AU", "after", "upd", "row", <<>>, NoExpr, Audit("AU")),
                      Trg("FD", "after", "del", "row", <<>>, NoExpr, Chk("old")), Trg("BD", "before", "del", "row", <<>>, NoExpr, Audit("BD")) >> ]
Setup == Tables \o Sets[TrgSet]
RECURSIVE Run(_,_)
Run(s, as) == IF as = <<>> THEN s ELSE Run(Apply(s, Head(as)).st, Tail(as))

L(k) == Lit(I(k))
Ins(rows) == InsertV("T1", rows)
Set1(c, e) == << [c |-> c, e |-> e] >>
IdEq(k) == CmpE("=", Col("ID"), L(k))
Alphabet ==
      { Ins(<< <<I(1), I(0)>> >>), Ins(<< <<I(2), I(1)>> >>), Ins(<< <<I(3), I(2)>> >>), Ins(<< <<I(4), NULL>> >>),
        Ins(<< <<I(5), I(0)>>, <<I(6), I(2)>> >>), Ins(<< <<I(6), I(2)>>, <<I(7), I(1)>> >>), Ins(<< <<I(5), I(1)>>, <<I(1), I(1)>> >>) }
 \cup { UpdateA("T1", Set1("V", ArE("+", Col("V"), L(1))), NoExpr), UpdateA("T1", Set1("V", L(2)), IdEq(1)), UpdateA("T1", Set1("V", L(1)), IdEq(2)),
        UpdateA("T1", Set1("ID", ArE("+", Col("ID"), L(10))), NoExpr), UpdateA("T1", Set1("V", L(0)), IdEq(9)) }
 \cup { DeleteA("T1", IdEq(1)), DeleteA("T1", NoExpr), DeleteA("T1", IdEq(9)), DeleteA("T1", CmpE(">=", Col("V"), L(1))) }

Prefixes == { <<>>, << Ins(<< <<I(1), I(0)>>, <<I(2), I(1)>> >>) >> }
Init == \E pre \in Prefixes : st = Run(InitSt, Setup \o pre) /\ hist = Setup \o pre /\ base = Len(Setup \o pre)
Next == \E a \in Alphabet : st' = Apply(st, a).st /\ hist' = Append(hist, a) /\ base' = base
\* the audit table only grows; keep it out of the state identity so that the graph stays small, but bound its size
View == <<st.tabs["T1"].rows, st.tabs["CHK"].rows, Len(st.tabs["AUD"].rows)>>
Bound == Len(hist) < MaxDepth + base
Emit == PrintT(<<"REPLAY", ToJson(hist')>>)
Inv == ConstraintsHold(st)
\* firing-count law: a successful statement adds exactly (#unconditional audit row triggers for its event) x (#affected rows)
\* audit rows from row triggers (sets without WHEN / OF); a failed statement adds none
RowAudits(ev) == Cardinality({ i \in 1..Len(st.trg) : st.trg[i].ev = ev /\ st.trg[i].gran = "row" /\ st.trg[i].body.k = "audit" /\ st.trg[i].when.k = "none" /\ st.trg[i].ofcols = <<>> })
StmtAudits(ev) == Cardinality({ i \in 1..Len(st.trg) : st.trg[i].ev = ev /\ st.trg[i].gran = "stmt" /\ st.trg[i].body.k = "audit" })
FiringCount == [][ hist' # hist =>
                     LET a == hist'[Len(hist')] r == Apply(st, a) d == Len(st'.tabs["AUD"].rows) - Len(st.tabs["AUD"].rows) IN
                     /\ (r.out # "ok" => d = 0 /\ st' = st)
                     /\ (r.out = "ok" /\ TrgSet \in {"row", "stmt", "fail"} => d = RowAudits(EvOf(a)) * r.cnt + StmtAudits(EvOf(a))) ]_vars
=============================================================================
