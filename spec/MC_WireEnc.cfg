CONSTANTS
  MaxList = 2
  Long = FALSE
INIT Init
NEXT Next
CHECK_DEADLOCK FALSE
