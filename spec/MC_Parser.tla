------------------------------ MODULE MC_Parser ------------------------------
(***************************************************************************)
(* GEN for C23: the input model of the parser.                              *)
(*   small - every token sequence up to MaxLen over the alphabet Tok        *)
(*           (keywords, identifiers, literals, punctuation, a non-ASCII     *)
(*           identifier, an unterminated string, an odd character)           *)
(*   mut   - every statement reachable from a seed statement by MaxMut       *)
(*           mutations: delete a token, duplicate a token, swap neighbours,  *)
(*           insert a token of Tok, truncate                                  *)
(*   nest  - twenty-one nesting / repetition shapes at depths 10 .. 100 000   *)
(* The specification contributes the input model and the outcome alphabet    *)
(* (TraceArith: ok or error, nothing else); it says nothing about WHICH      *)
(* inputs are statements.                                                     *)
(***************************************************************************)
EXTENDS Sequences, FiniteSets, Integers, Json, TLC
CONSTANTS Mode, MaxLen, MaxMut
Tok == { "SELECT", "FROM", "WHERE", "INSERT", "INTO", "VALUES", "UPDATE", "SET", "DELETE", "CREATE", "TABLE", "DROP", "INDEX", "ON", "AS",
         "JOIN", "LEFT", "GROUP", "BY", "ORDER", "HAVING", "LIMIT", "UNION", "NOT", "NULL", "AND", "OR", "IN", "IS", "BETWEEN", "LIKE", "CASE", "WHEN", "THEN", "END",
         "t", "a", "\"q\"", "1", "1.5e3", "'s'", "'open", "(", ")", ",", ";", "*", "=", "<>", "-", ".", "é", "@", "INTEGER", "PRIMARY", "KEY", "BEGIN", "WITH", "DISTINCT", "EXISTS" }
Seeds == { << "SELECT", "a", ",", "1", "FROM", "t", "WHERE", "a", "=", "1", "ORDER", "BY", "a", "LIMIT", "1" >>,
           << "SELECT", "DISTINCT", "a", "FROM", "t", "LEFT", "JOIN", "t", "AS", "u", "ON", "t", ".", "a", "=", "u", ".", "a" >>,
           << "SELECT", "a", ",", "COUNT", "(", "*", ")", "FROM", "t", "GROUP", "BY", "a", "HAVING", "COUNT", "(", "*", ")", ">", "1" >>,
           << "SELECT", "CASE", "WHEN", "a", "IS", "NULL", "THEN", "1", "ELSE", "a", "END", "FROM", "t" >>,
           << "SELECT", "*", "FROM", "t", "WHERE", "a", "IN", "(", "SELECT", "a", "FROM", "t", ")", "AND", "EXISTS", "(", "SELECT", "1", ")" >>,
           << "SELECT", "a", "FROM", "t", "UNION", "SELECT", "1" >>,
           << "WITH", "w", "AS", "(", "SELECT", "1", ")", "SELECT", "*", "FROM", "w" >>,
           << "INSERT", "INTO", "t", "(", "a", ")", "VALUES", "(", "1", ")", ",", "(", "NULL", ")" >>,
           << "UPDATE", "t", "SET", "a", "=", "a", "-", "1", "WHERE", "a", "BETWEEN", "1", "AND", "2" >>,
           << "DELETE", "FROM", "t", "WHERE", "a", "LIKE", "'s'", "OR", "NOT", "a", "=", "1" >>,
           << "CREATE", "TABLE", "t", "(", "a", "INTEGER", "PRIMARY", "KEY", ",", "b", "VARCHAR", "(", "10", ")", "NOT", "NULL", ")" >>,
           << "CREATE", "INDEX", "i", "ON", "t", "(", "a", ")" >>,
           << "CREATE", "TRIGGER", "g", "AFTER", "INSERT", "ON", "t", "FOR", "EACH", "ROW", "BEGIN", "DELETE", "FROM", "t", ";", "END" >>,
           << "ALTER", "TABLE", "t", "ADD", "COLUMN", "c", "INTEGER" >>, << "DROP", "TABLE", "t" >>, << "BEGIN" >>, << "ROLLBACK", "TO", "SAVEPOINT", "s" >>,
           << "GRANT", "SELECT", "ON", "t", "TO", "r" >>, << "SELECT", "DATE", "'2024-01-01'", ",", "INTERVAL", "'1'", "DAY" >> }
Remove(s, i) == SubSeq(s, 1, i - 1) \o SubSeq(s, i + 1, Len(s))
Muts(s) ==   { Remove(s, i) : i \in 1..Len(s) }
        \cup { SubSeq(s, 1, i) \o <<s[i]>> \o SubSeq(s, i + 1, Len(s)) : i \in 1..Len(s) }
        \cup { SubSeq(s, 1, i - 1) \o <<s[i + 1], s[i]>> \o SubSeq(s, i + 2, Len(s)) : i \in 1..(Len(s) - 1) }
        \cup { SubSeq(s, 1, i) \o <<t>> \o SubSeq(s, i + 1, Len(s)) : i \in 0..Len(s), t \in Tok }
        \cup { SubSeq(s, 1, i) : i \in 0..(Len(s) - 1) }
RECURSIVE MutN(_,_)
MutN(S, n) == IF n = 0 THEN S ELSE MutN(S \cup UNION { Muts(s) : s \in S }, n - 1)
RECURSIVE SeqsUpTo(_)
SeqsUpTo(n) == IF n = 0 THEN { <<>> } ELSE LET P == SeqsUpTo(n - 1) IN P \cup { Append(s, t) : s \in { p \in P : Len(p) = n - 1 }, t \in Tok }
Shapes == {"paren", "neg", "not", "case", "subq", "scalar", "func", "and", "plus", "inlist", "cols", "join", "union", "open", "quote", "ident", "digits",
           \* a prefix operator behind a binary one, a chain of INTERVAL keywords, and the two kinds of nesting ALTERNATING
           \* (subqueries wrapped in parentheses: a bound per kind multiplies, a shared bound adds)
           "notplus", "interval", "subqparen", "castnest"}
Depths == {10, 100, 1000, 10000, 100000}
Inputs == CASE Mode = "small" -> { [a |-> "parse", toks |-> s] : s \in SeqsUpTo(MaxLen) }
            [] Mode = "mut"   -> { [a |-> "parse", toks |-> s] : s \in MutN(Seeds, MaxMut) }
            [] Mode = "nest"  -> { [a |-> "nest", shape |-> sh, n |-> d] : sh \in Shapes, d \in Depths }
ASSUME \A x \in Inputs : PrintT(<<"REPLAY", ToJson(<<x>>)>>)
VARIABLE v
Init == v = 0
Next == v' = v
=============================================================================
