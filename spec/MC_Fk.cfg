CONSTANTS
  MaxDepth = 3
  Mode = "cascade"
  GMode = "cascade"
  WithD = TRUE
INIT Init
NEXT Next
VIEW View
CONSTRAINT Bound
ACTION_CONSTRAINT Emit
INVARIANT Inv
PROPERTY FailedIsStutter CascadeShape
CHECK_DEADLOCK FALSE
