-------------------------------- MODULE Auth --------------------------------
(***************************************************************************)
(* Password authentication of the server (C29) as pure operators.          *)
(*                                                                         *)
(* The store maps a user name to [k, mode, pw]: pw is the password the     *)
(* entry was created from, mode the way it was created (the API, a          *)
(* pre-hashed PHC string, a password file line ...), k the kind of secret  *)
(* that creation leaves in the store:                                      *)
(*    argon2  an Argon2 hash of pw            (cleartext exchange only)    *)
(*    md5     the {MD5} form, pw recoverable   (MD5 challenge only)         *)
(*    other   anything else                    (nothing verifies)           *)
(* Hashing is not modelled bit by bit.  The PostgreSQL MD5 response to the *)
(* salt s is "md5" ++ hex(md5(hex(md5(pw ++ user)) ++ s)); md5 and hex are  *)
(* taken to be injective, so the digest is represented by its input        *)
(* [in |-> pw \o user, salt |-> s].  Note that pw and user are             *)
(* concatenated before hashing: ("ab","c") and ("a","bc") give the same     *)
(* digest in PostgreSQL, in the model, and in any correct implementation.   *)
(* A response is [form, d]: form "md5hex" is the well-formed response, any *)
(* other form is a near miss built from the same digest (no prefix, upper  *)
(* case, truncated, ...), which must be rejected whatever the digest is.   *)
(***************************************************************************)
EXTENDS Integers, Sequences, FiniteSets

KindOf(mode) == IF mode \in {"api", "hashed", "file_clear", "file_hashed"} THEN "argon2"
                ELSE IF mode \in {"md5", "file_md5"} THEN "md5" ELSE "other"
Entry(mode, pw) == [k |-> KindOf(mode), mode |-> mode, pw |-> pw]
EmptyStore == [x \in {} |-> Entry("raw", "")]
Put(store, u, mode, pw) == [x \in DOMAIN store \cup {u} |-> IF x = u THEN Entry(mode, pw) ELSE store[x]]
\* a password file replaces the store; a user listed twice keeps the last line
RECURSIVE LoadR(_, _)
LoadR(store, ents) == IF ents = <<>> THEN store ELSE LoadR(Put(store, Head(ents).u, Head(ents).mode, Head(ents).pw), Tail(ents))
Load(ents) == LoadR(EmptyStore, ents)

VerifyClear(store, u, p) == u \in DOMAIN store /\ store[u].k = "argon2" /\ store[u].pw = p

Digest(pw, user, salt) == [in |-> pw \o user, salt |-> salt]
Resp(form, pw, user, salt) == [form |-> form, d |-> Digest(pw, user, salt)]
VerifyMd5(store, u, r, salt) == u \in DOMAIN store /\ store[u].k = "md5" /\ r.form = "md5hex" /\ r.d = Digest(store[u].pw, u, salt)

Verdict(b) == IF b THEN "accept" ELSE "reject"
=============================================================================
