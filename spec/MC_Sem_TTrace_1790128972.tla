---- MODULE MC_Sem_TTrace_1790128972 ----
EXTENDS Sequences, TLCExt, MC_Sem, Toolbox, Naturals, TLC

_expression ==
    LET MC_Sem_TEExpression == INSTANCE MC_Sem_TEExpression
    IN MC_Sem_TEExpression!expression
----

_trace ==
    LET MC_Sem_TETrace == INSTANCE MC_Sem_TETrace
    IN MC_Sem_TETrace!trace
----

_inv ==
    ~(
        TLCGet("level") = Len(_TETrace)
        /\
        st = ([tabs |-> [T2 |-> [rows |-> <<>>, cols |-> <<[n |-> "A", ty |-> "INTEGER", nn |-> FALSE, def |-> [s |-> "", t |-> "none", n |-> 0, d |-> 1]], [n |-> "C", ty |-> "VARCHAR(10)", nn |-> FALSE, def |-> [s |-> "", t |-> "none", n |-> 0, d |-> 1]]>>, pk |-> <<>>, uqs |-> <<>>, checks |-> <<>>, fks |-> <<>>], T1 |-> [rows |-> <<<<[s |-> "", t |-> "n", n |-> 0, d |-> 1], [s |-> "", t |-> "n", n |-> 0, d |-> 1]>>>>, cols |-> <<[n |-> "A", ty |-> "INTEGER", nn |-> FALSE, def |-> [s |-> "", t |-> "none", n |-> 0, d |-> 1]], [n |-> "B", ty |-> "INTEGER", nn |-> FALSE, def |-> [s |-> "", t |-> "none", n |-> 0, d |-> 1]]>>, pk |-> <<>>, uqs |-> <<>>, checks |-> <<>>, fks |-> <<>>]], views |-> [V1 |-> [q |-> [k |-> "select", where |-> [k |-> "cmp", r |-> [k |-> "lit", v |-> [s |-> "", t |-> "i", n |-> 0, d |-> 1]], op |-> ">=", l |-> [k |-> "col", c |-> "A", q |-> ""]], from |-> [as |-> "T1", k |-> "table", t |-> "T1"], star |-> FALSE, sel |-> <<[as |-> "A", e |-> [k |-> "col", c |-> "A", q |-> ""]], [as |-> "S", e |-> [k |-> "arith", r |-> [k |-> "col", c |-> "B", q |-> ""], op |-> "+", l |-> [k |-> "col", c |-> "A", q |-> ""]]]>>, distinct |-> FALSE, group |-> <<>>, having |-> [k |-> "none"], limit |-> -1, offset |-> -1, with |-> <<>>, order |-> <<>>], cols |-> <<>>], V2 |-> [q |-> [k |-> "select", where |-> [k |-> "none"], from |-> [as |-> "T1", k |-> "table", t |-> "T1"], star |-> FALSE, sel |-> <<[as |-> "A", e |-> [k |-> "col", c |-> "A", q |-> ""]], [as |-> "N", e |-> [k |-> "agg", star |-> TRUE, distinct |-> FALSE, f |-> "count", arg |-> [k |-> "none"]]]>>, distinct |-> FALSE, group |-> <<[k |-> "col", c |-> "A", q |-> ""]>>, having |-> [k |-> "none"], limit |-> -1, offset |-> -1, with |-> <<>>, order |-> <<>>], cols |-> <<"K", "CNT">>], V3 |-> [q |-> [k |-> "select", where |-> [k |-> "none"], from |-> [k |-> "join", r |-> [as |-> "T2", k |-> "table", t |-> "T2"], jt |-> "inner", l |-> [as |-> "T1", k |-> "table", t |-> "T1"], on |-> [k |-> "cmp", r |-> [k |-> "col", c |-> "A", q |-> "T2"], op |-> "=", l |-> [k |-> "col", c |-> "A", q |-> "T1"]]], star |-> FALSE, sel |-> <<[as |-> "B", e |-> [k |-> "col", c |-> "B", q |-> "T1"]], [as |-> "C", e |-> [k |-> "col", c |-> "C", q |-> "T2"]]>>, distinct |-> FALSE, group |-> <<>>, having |-> [k |-> "none"], limit |-> -1, offset |-> -1, with |-> <<>>, order |-> <<>>], cols |-> <<>>], V4 |-> [q |-> [k |-> "select", where |-> [k |-> "none"], from |-> [as |-> "T1", k |-> "table", t |-> "T1"], star |-> FALSE, sel |-> <<[as |-> "A", e |-> [k |-> "col", c |-> "A", q |-> ""]], [as |-> "B", e |-> [k |-> "col", c |-> "B", q |-> ""]]>>, distinct |-> FALSE, group |-> <<>>, having |-> [k |-> "none"], limit |-> 1, offset |-> -1, with |-> <<>>, order |-> <<[e |-> [k |-> "col", c |-> "A", q |-> ""], pos |-> 0, dir |-> "desc"], [e |-> [k |-> "col", c |-> "B", q |-> ""], pos |-> 0, dir |-> "desc"]>>], cols |-> <<>>], V5 |-> [q |-> [k |-> "select", where |-> [k |-> "none"], from |-> [as |-> "T1", k |-> "table", t |-> "T1"], star |-> FALSE, sel |-> <<[as |-> "A", e |-> [k |-> "col", c |-> "A", q |-> ""]], [as |-> "B", e |-> [k |-> "col", c |-> "B", q |-> ""]]>>, distinct |-> FALSE, group |-> <<>>, having |-> [k |-> "none"], limit |-> 1, offset |-> 1, with |-> <<>>, order |-> <<[e |-> [k |-> "col", c |-> "B", q |-> ""], pos |-> 0, dir |-> "asc"], [e |-> [k |-> "col", c |-> "A", q |-> ""], pos |-> 0, dir |-> "asc"]>>], cols |-> <<>>]], idx |-> <<>>, trg |-> <<>>, txn |-> [active |-> FALSE, snap |-> [tabs |-> <<>>, views |-> <<>>, idx |-> <<>>, trg |-> <<>>], sps |-> <<>>], sec |-> [on |-> FALSE, role |-> "", roles |-> {}, grants |-> {}]])
        /\
        hist = (<<[a |-> "ct", t |-> "T1", cols |-> <<[n |-> "A", ty |-> "INTEGER", pk |-> FALSE, nn |-> FALSE, uq |-> FALSE, def |-> [s |-> "", t |-> "none", n |-> 0, d |-> 1]], [n |-> "B", ty |-> "INTEGER", pk |-> FALSE, nn |-> FALSE, uq |-> FALSE, def |-> [s |-> "", t |-> "none", n |-> 0, d |-> 1]]>>, pk |-> <<>>, uqs |-> <<>>, checks |-> <<>>, fks |-> <<>>], [a |-> "ct", t |-> "T2", cols |-> <<[n |-> "A", ty |-> "INTEGER", pk |-> FALSE, nn |-> FALSE, uq |-> FALSE, def |-> [s |-> "", t |-> "none", n |-> 0, d |-> 1]], [n |-> "C", ty |-> "VARCHAR(10)", pk |-> FALSE, nn |-> FALSE, uq |-> FALSE, def |-> [s |-> "", t |-> "none", n |-> 0, d |-> 1]]>>, pk |-> <<>>, uqs |-> <<>>, checks |-> <<>>, fks |-> <<>>], [a |-> "cv", n |-> "V1", q |-> [k |-> "select", where |-> [k |-> "cmp", r |-> [k |-> "lit", v |-> [s |-> "", t |-> "i", n |-> 0, d |-> 1]], op |-> ">=", l |-> [k |-> "col", c |-> "A", q |-> ""]], from |-> [as |-> "T1", k |-> "table", t |-> "T1"], star |-> FALSE, sel |-> <<[as |-> "A", e |-> [k |-> "col", c |-> "A", q |-> ""]], [as |-> "S", e |-> [k |-> "arith", r |-> [k |-> "col", c |-> "B", q |-> ""], op |-> "+", l |-> [k |-> "col", c |-> "A", q |-> ""]]]>>, distinct |-> FALSE, group |-> <<>>, having |-> [k |-> "none"], limit |-> -1, offset |-> -1, with |-> <<>>, order |-> <<>>], cols |-> <<>>], [a |-> "cv", n |-> "V2", q |-> [k |-> "select", where |-> [k |-> "none"], from |-> [as |-> "T1", k |-> "table", t |-> "T1"], star |-> FALSE, sel |-> <<[as |-> "A", e |-> [k |-> "col", c |-> "A", q |-> ""]], [as |-> "N", e |-> [k |-> "agg", star |-> TRUE, distinct |-> FALSE, f |-> "count", arg |-> [k |-> "none"]]]>>, distinct |-> FALSE, group |-> <<[k |-> "col", c |-> "A", q |-> ""]>>, having |-> [k |-> "none"], limit |-> -1, offset |-> -1, with |-> <<>>, order |-> <<>>], cols |-> <<"K", "CNT">>], [a |-> "cv", n |-> "V3", q |-> [k |-> "select", where |-> [k |-> "none"], from |-> [k |-> "join", r |-> [as |-> "T2", k |-> "table", t |-> "T2"], jt |-> "inner", l |-> [as |-> "T1", k |-> "table", t |-> "T1"], on |-> [k |-> "cmp", r |-> [k |-> "col", c |-> "A", q |-> "T2"], op |-> "=", l |-> [k |-> "col", c |-> "A", q |-> "T1"]]], star |-> FALSE, sel |-> <<[as |-> "B", e |-> [k |-> "col", c |-> "B", q |-> "T1"]], [as |-> "C", e |-> [k |-> "col", c |-> "C", q |-> "T2"]]>>, distinct |-> FALSE, group |-> <<>>, having |-> [k |-> "none"], limit |-> -1, offset |-> -1, with |-> <<>>, order |-> <<>>], cols |-> <<>>], [a |-> "cv", n |-> "V4", q |-> [k |-> "select", where |-> [k |-> "none"], from |-> [as |-> "T1", k |-> "table", t |-> "T1"], star |-> FALSE, sel |-> <<[as |-> "A", e |-> [k |-> "col", c |-> "A", q |-> ""]], [as |-> "B", e |-> [k |-> "col", c |-> "B", q |-> ""]]>>, distinct |-> FALSE, group |-> <<>>, having |-> [k |-> "none"], limit |-> 1, offset |-> -1, with |-> <<>>, order |-> <<[e |-> [k |-> "col", c |-> "A", q |-> ""], pos |-> 0, dir |-> "desc"], [e |-> [k |-> "col", c |-> "B", q |-> ""], pos |-> 0, dir |-> "desc"]>>], cols |-> <<>>], [a |-> "cv", n |-> "V5", q |-> [k |-> "select", where |-> [k |-> "none"], from |-> [as |-> "T1", k |-> "table", t |-> "T1"], star |-> FALSE, sel |-> <<[as |-> "A", e |-> [k |-> "col", c |-> "A", q |-> ""]], [as |-> "B", e |-> [k |-> "col", c |-> "B", q |-> ""]]>>, distinct |-> FALSE, group |-> <<>>, having |-> [k |-> "none"], limit |-> 1, offset |-> 1, with |-> <<>>, order |-> <<[e |-> [k |-> "col", c |-> "B", q |-> ""], pos |-> 0, dir |-> "asc"], [e |-> [k |-> "col", c |-> "A", q |-> ""], pos |-> 0, dir |-> "asc"]>>], cols |-> <<>>], [a |-> "ins", t |-> "T1", rows |-> <<<<[k |-> "lit", v |-> [s |-> "", t |-> "n", n |-> 0, d |-> 1]], [k |-> "lit", v |-> [s |-> "", t |-> "n", n |-> 0, d |-> 1]]>>>>, cols |-> <<>>, mode |-> "plain"]>>)
    )
----

_init ==
    /\ st = _TETrace[1].st
    /\ hist = _TETrace[1].hist
----

_next ==
    /\ \E i,j \in DOMAIN _TETrace:
        /\ \/ /\ j = i + 1
              /\ i = TLCGet("level")
        /\ st  = _TETrace[i].st
        /\ st' = _TETrace[j].st
        /\ hist  = _TETrace[i].hist
        /\ hist' = _TETrace[j].hist

\* Uncomment the ASSUME below to write the states of the error trace
\* to the given file in Json format. Note that you can pass any tuple
\* to `JsonSerialize`. For example, a sub-sequence of _TETrace.
    \* ASSUME
    \*     LET J == INSTANCE Json
    \*         IN J!JsonSerialize("MC_Sem_TTrace_1790128972.json", _TETrace)

=============================================================================

 Note that you can extract this module `MC_Sem_TEExpression`
  to a dedicated file to reuse `expression` (the module in the 
  dedicated `MC_Sem_TEExpression.tla` file takes precedence 
  over the module `MC_Sem_TEExpression` below).

---- MODULE MC_Sem_TEExpression ----
EXTENDS Sequences, TLCExt, MC_Sem, Toolbox, Naturals, TLC

expression == 
    [
        \* To hide variables of the `MC_Sem` spec from the error trace,
        \* remove the variables below.  The trace will be written in the order
        \* of the fields of this record.
        st |-> st
        ,hist |-> hist
        
        \* Put additional constant-, state-, and action-level expressions here:
        \* ,_stateNumber |-> _TEPosition
        \* ,_stUnchanged |-> st = st'
        
        \* Format the `st` variable as Json value.
        \* ,_stJson |->
        \*     LET J == INSTANCE Json
        \*     IN J!ToJson(st)
        
        \* Lastly, you may build expressions over arbitrary sets of states by
        \* leveraging the _TETrace operator.  For example, this is how to
        \* count the number of times a spec variable changed up to the current
        \* state in the trace.
        \* ,_stModCount |->
        \*     LET F[s \in DOMAIN _TETrace] ==
        \*         IF s = 1 THEN 0
        \*         ELSE IF _TETrace[s].st # _TETrace[s-1].st
        \*             THEN 1 + F[s-1] ELSE F[s-1]
        \*     IN F[_TEPosition - 1]
    ]

=============================================================================



Parsing and semantic processing can take forever if the trace below is long.
 In this case, it is advised to uncomment the module below to deserialize the
 trace from a generated binary file.

\*
\*---- MODULE MC_Sem_TETrace ----
\*EXTENDS IOUtils, MC_Sem, TLC
\*
\*trace == IODeserialize("MC_Sem_TTrace_1790128972.bin", TRUE)
\*
\*=============================================================================
\*

---- MODULE MC_Sem_TETrace ----
EXTENDS MC_Sem, TLC

trace == 
    <<
    ([st |-> [tabs |-> [T2 |-> [rows |-> <<>>, cols |-> <<[n |-> "A", ty |-> "INTEGER", nn |-> FALSE, def |-> [s |-> "", t |-> "none", n |-> 0, d |-> 1]], [n |-> "C", ty |-> "VARCHAR(10)", nn |-> FALSE, def |-> [s |-> "", t |-> "none", n |-> 0, d |-> 1]]>>, pk |-> <<>>, uqs |-> <<>>, checks |-> <<>>, fks |-> <<>>], T1 |-> [rows |-> <<>>, cols |-> <<[n |-> "A", ty |-> "INTEGER", nn |-> FALSE, def |-> [s |-> "", t |-> "none", n |-> 0, d |-> 1]], [n |-> "B", ty |-> "INTEGER", nn |-> FALSE, def |-> [s |-> "", t |-> "none", n |-> 0, d |-> 1]]>>, pk |-> <<>>, uqs |-> <<>>, checks |-> <<>>, fks |-> <<>>]], views |-> [V1 |-> [q |-> [k |-> "select", where |-> [k |-> "cmp", r |-> [k |-> "lit", v |-> [s |-> "", t |-> "i", n |-> 0, d |-> 1]], op |-> ">=", l |-> [k |-> "col", c |-> "A", q |-> ""]], from |-> [as |-> "T1", k |-> "table", t |-> "T1"], star |-> FALSE, sel |-> <<[as |-> "A", e |-> [k |-> "col", c |-> "A", q |-> ""]], [as |-> "S", e |-> [k |-> "arith", r |-> [k |-> "col", c |-> "B", q |-> ""], op |-> "+", l |-> [k |-> "col", c |-> "A", q |-> ""]]]>>, distinct |-> FALSE, group |-> <<>>, having |-> [k |-> "none"], limit |-> -1, offset |-> -1, with |-> <<>>, order |-> <<>>], cols |-> <<>>], V2 |-> [q |-> [k |-> "select", where |-> [k |-> "none"], from |-> [as |-> "T1", k |-> "table", t |-> "T1"], star |-> FALSE, sel |-> <<[as |-> "A", e |-> [k |-> "col", c |-> "A", q |-> ""]], [as |-> "N", e |-> [k |-> "agg", star |-> TRUE, distinct |-> FALSE, f |-> "count", arg |-> [k |-> "none"]]]>>, distinct |-> FALSE, group |-> <<[k |-> "col", c |-> "A", q |-> ""]>>, having |-> [k |-> "none"], limit |-> -1, offset |-> -1, with |-> <<>>, order |-> <<>>], cols |-> <<"K", "CNT">>], V3 |-> [q |-> [k |-> "select", where |-> [k |-> "none"], from |-> [k |-> "join", r |-> [as |-> "T2", k |-> "table", t |-> "T2"], jt |-> "inner", l |-> [as |-> "T1", k |-> "table", t |-> "T1"], on |-> [k |-> "cmp", r |-> [k |-> "col", c |-> "A", q |-> "T2"], op |-> "=", l |-> [k |-> "col", c |-> "A", q |-> "T1"]]], star |-> FALSE, sel |-> <<[as |-> "B", e |-> [k |-> "col", c |-> "B", q |-> "T1"]], [as |-> "C", e |-> [k |-> "col", c |-> "C", q |-> "T2"]]>>, distinct |-> FALSE, group |-> <<>>, having |-> [k |-> "none"], limit |-> -1, offset |-> -1, with |-> <<>>, order |-> <<>>], cols |-> <<>>], V4 |-> [q |-> [k |-> "select", where |-> [k |-> "none"], from |-> [as |-> "T1", k |-> "table", t |-> "T1"], star |-> FALSE, sel |-> <<[as |-> "A", e |-> [k |-> "col", c |-> "A", q |-> ""]], [as |-> "B", e |-> [k |-> "col", c |-> "B", q |-> ""]]>>, distinct |-> FALSE, group |-> <<>>, having |-> [k |-> "none"], limit |-> 1, offset |-> -1, with |-> <<>>, order |-> <<[e |-> [k |-> "col", c |-> "A", q |-> ""], pos |-> 0, dir |-> "desc"], [e |-> [k |-> "col", c |-> "B", q |-> ""], pos |-> 0, dir |-> "desc"]>>], cols |-> <<>>], V5 |-> [q |-> [k |-> "select", where |-> [k |-> "none"], from |-> [as |-> "T1", k |-> "table", t |-> "T1"], star |-> FALSE, sel |-> <<[as |-> "A", e |-> [k |-> "col", c |-> "A", q |-> ""]], [as |-> "B", e |-> [k |-> "col", c |-> "B", q |-> ""]]>>, distinct |-> FALSE, group |-> <<>>, having |-> [k |-> "none"], limit |-> 1, offset |-> 1, with |-> <<>>, order |-> <<[e |-> [k |-> "col", c |-> "B", q |-> ""], pos |-> 0, dir |-> "asc"], [e |-> [k |-> "col", c |-> "A", q |-> ""], pos |-> 0, dir |-> "asc"]>>], cols |-> <<>>]], idx |-> <<>>, trg |-> <<>>, txn |-> [active |-> FALSE, snap |-> [tabs |-> <<>>, views |-> <<>>, idx |-> <<>>, trg |-> <<>>], sps |-> <<>>], sec |-> [on |-> FALSE, role |-> "", roles |-> {}, grants |-> {}]],hist |-> <<[a |-> "ct", t |-> "T1", cols |-> <<[n |-> "A", ty |-> "INTEGER", pk |-> FALSE, nn |-> FALSE, uq |-> FALSE, def |-> [s |-> "", t |-> "none", n |-> 0, d |-> 1]], [n |-> "B", ty |-> "INTEGER", pk |-> FALSE, nn |-> FALSE, uq |-> FALSE, def |-> [s |-> "", t |-> "none", n |-> 0, d |-> 1]]>>, pk |-> <<>>, uqs |-> <<>>, checks |-> <<>>, fks |-> <<>>], [a |-> "ct", t |-> "T2", cols |-> <<[n |-> "A", ty |-> "INTEGER", pk |-> FALSE, nn |-> FALSE, uq |-> FALSE, def |-> [s |-> "", t |-> "none", n |-> 0, d |-> 1]], [n |-> "C", ty |-> "VARCHAR(10)", pk |-> FALSE, nn |-> FALSE, uq |-> FALSE, def |-> [s |-> "", t |-> "none", n |-> 0, d |-> 1]]>>, pk |-> <<>>, uqs |-> <<>>, checks |-> <<>>, fks |-> <<>>], [a |-> "cv", n |-> "V1", q |-> [k |-> "select", where |-> [k |-> "cmp", r |-> [k |-> "lit", v |-> [s |-> "", t |-> "i", n |-> 0, d |-> 1]], op |-> ">=", l |-> [k |-> "col", c |-> "A", q |-> ""]], from |-> [as |-> "T1", k |-> "table", t |-> "T1"], star |-> FALSE, sel |-> <<[as |-> "A", e |-> [k |-> "col", c |-> "A", q |-> ""]], [as |-> "S", e |-> [k |-> "arith", r |-> [k |-> "col", c |-> "B", q |-> ""], op |-> "+", l |-> [k |-> "col", c |-> "A", q |-> ""]]]>>, distinct |-> FALSE, group |-> <<>>, having |-> [k |-> "none"], limit |-> -1, offset |-> -1, with |-> <<>>, order |-> <<>>], cols |-> <<>>], [a |-> "cv", n |-> "V2", q |-> [k |-> "select", where |-> [k |-> "none"], from |-> [as |-> "T1", k |-> "table", t |-> "T1"], star |-> FALSE, sel |-> <<[as |-> "A", e |-> [k |-> "col", c |-> "A", q |-> ""]], [as |-> "N", e |-> [k |-> "agg", star |-> TRUE, distinct |-> FALSE, f |-> "count", arg |-> [k |-> "none"]]]>>, distinct |-> FALSE, group |-> <<[k |-> "col", c |-> "A", q |-> ""]>>, having |-> [k |-> "none"], limit |-> -1, offset |-> -1, with |-> <<>>, order |-> <<>>], cols |-> <<"K", "CNT">>], [a |-> "cv", n |-> "V3", q |-> [k |-> "select", where |-> [k |-> "none"], from |-> [k |-> "join", r |-> [as |-> "T2", k |-> "table", t |-> "T2"], jt |-> "inner", l |-> [as |-> "T1", k |-> "table", t |-> "T1"], on |-> [k |-> "cmp", r |-> [k |-> "col", c |-> "A", q |-> "T2"], op |-> "=", l |-> [k |-> "col", c |-> "A", q |-> "T1"]]], star |-> FALSE, sel |-> <<[as |-> "B", e |-> [k |-> "col", c |-> "B", q |-> "T1"]], [as |-> "C", e |-> [k |-> "col", c |-> "C", q |-> "T2"]]>>, distinct |-> FALSE, group |-> <<>>, having |-> [k |-> "none"], limit |-> -1, offset |-> -1, with |-> <<>>, order |-> <<>>], cols |-> <<>>], [a |-> "cv", n |-> "V4", q |-> [k |-> "select", where |-> [k |-> "none"], from |-> [as |-> "T1", k |-> "table", t |-> "T1"], star |-> FALSE, sel |-> <<[as |-> "A", e |-> [k |-> "col", c |-> "A", q |-> ""]], [as |-> "B", e |-> [k |-> "col", c |-> "B", q |-> ""]]>>, distinct |-> FALSE, group |-> <<>>, having |-> [k |-> "none"], limit |-> 1, offset |-> -1, with |-> <<>>, order |-> <<[e |-> [k |-> "col", c |-> "A", q |-> ""], pos |-> 0, dir |-> "desc"], [e |-> [k |-> "col", c |-> "B", q |-> ""], pos |-> 0, dir |-> "desc"]>>], cols |-> <<>>], [a |-> "cv", n |-> "V5", q |-> [k |-> "select", where |-> [k |-> "none"], from |-> [as |-> "T1", k |-> "table", t |-> "T1"], star |-> FALSE, sel |-> <<[as |-> "A", e |-> [k |-> "col", c |-> "A", q |-> ""]], [as |-> "B", e |-> [k |-> "col", c |-> "B", q |-> ""]]>>, distinct |-> FALSE, group |-> <<>>, having |-> [k |-> "none"], limit |-> 1, offset |-> 1, with |-> <<>>, order |-> <<[e |-> [k |-> "col", c |-> "B", q |-> ""], pos |-> 0, dir |-> "asc"], [e |-> [k |-> "col", c |-> "A", q |-> ""], pos |-> 0, dir |-> "asc"]>>], cols |-> <<>>]>>]),
    ([st |-> [tabs |-> [T2 |-> [rows |-> <<>>, cols |-> <<[n |-> "A", ty |-> "INTEGER", nn |-> FALSE, def |-> [s |-> "", t |-> "none", n |-> 0, d |-> 1]], [n |-> "C", ty |-> "VARCHAR(10)", nn |-> FALSE, def |-> [s |-> "", t |-> "none", n |-> 0, d |-> 1]]>>, pk |-> <<>>, uqs |-> <<>>, checks |-> <<>>, fks |-> <<>>], T1 |-> [rows |-> <<<<[s |-> "", t |-> "n", n |-> 0, d |-> 1], [s |-> "", t |-> "n", n |-> 0, d |-> 1]>>>>, cols |-> <<[n |-> "A", ty |-> "INTEGER", nn |-> FALSE, def |-> [s |-> "", t |-> "none", n |-> 0, d |-> 1]], [n |-> "B", ty |-> "INTEGER", nn |-> FALSE, def |-> [s |-> "", t |-> "none", n |-> 0, d |-> 1]]>>, pk |-> <<>>, uqs |-> <<>>, checks |-> <<>>, fks |-> <<>>]], views |-> [V1 |-> [q |-> [k |-> "select", where |-> [k |-> "cmp", r |-> [k |-> "lit", v |-> [s |-> "", t |-> "i", n |-> 0, d |-> 1]], op |-> ">=", l |-> [k |-> "col", c |-> "A", q |-> ""]], from |-> [as |-> "T1", k |-> "table", t |-> "T1"], star |-> FALSE, sel |-> <<[as |-> "A", e |-> [k |-> "col", c |-> "A", q |-> ""]], [as |-> "S", e |-> [k |-> "arith", r |-> [k |-> "col", c |-> "B", q |-> ""], op |-> "+", l |-> [k |-> "col", c |-> "A", q |-> ""]]]>>, distinct |-> FALSE, group |-> <<>>, having |-> [k |-> "none"], limit |-> -1, offset |-> -1, with |-> <<>>, order |-> <<>>], cols |-> <<>>], V2 |-> [q |-> [k |-> "select", where |-> [k |-> "none"], from |-> [as |-> "T1", k |-> "table", t |-> "T1"], star |-> FALSE, sel |-> <<[as |-> "A", e |-> [k |-> "col", c |-> "A", q |-> ""]], [as |-> "N", e |-> [k |-> "agg", star |-> TRUE, distinct |-> FALSE, f |-> "count", arg |-> [k |-> "none"]]]>>, distinct |-> FALSE, group |-> <<[k |-> "col", c |-> "A", q |-> ""]>>, having |-> [k |-> "none"], limit |-> -1, offset |-> -1, with |-> <<>>, order |-> <<>>], cols |-> <<"K", "CNT">>], V3 |-> [q |-> [k |-> "select", where |-> [k |-> "none"], from |-> [k |-> "join", r |-> [as |-> "T2", k |-> "table", t |-> "T2"], jt |-> "inner", l |-> [as |-> "T1", k |-> "table", t |-> "T1"], on |-> [k |-> "cmp", r |-> [k |-> "col", c |-> "A", q |-> "T2"], op |-> "=", l |-> [k |-> "col", c |-> "A", q |-> "T1"]]], star |-> FALSE, sel |-> <<[as |-> "B", e |-> [k |-> "col", c |-> "B", q |-> "T1"]], [as |-> "C", e |-> [k |-> "col", c |-> "C", q |-> "T2"]]>>, distinct |-> FALSE, group |-> <<>>, having |-> [k |-> "none"], limit |-> -1, offset |-> -1, with |-> <<>>, order |-> <<>>], cols |-> <<>>], V4 |-> [q |-> [k |-> "select", where |-> [k |-> "none"], from |-> [as |-> "T1", k |-> "table", t |-> "T1"], star |-> FALSE, sel |-> <<[as |-> "A", e |-> [k |-> "col", c |-> "A", q |-> ""]], [as |-> "B", e |-> [k |-> "col", c |-> "B", q |-> ""]]>>, distinct |-> FALSE, group |-> <<>>, having |-> [k |-> "none"], limit |-> 1, offset |-> -1, with |-> <<>>, order |-> <<[e |-> [k |-> "col", c |-> "A", q |-> ""], pos |-> 0, dir |-> "desc"], [e |-> [k |-> "col", c |-> "B", q |-> ""], pos |-> 0, dir |-> "desc"]>>], cols |-> <<>>], V5 |-> [q |-> [k |-> "select", where |-> [k |-> "none"], from |-> [as |-> "T1", k |-> "table", t |-> "T1"], star |-> FALSE, sel |-> <<[as |-> "A", e |-> [k |-> "col", c |-> "A", q |-> ""]], [as |-> "B", e |-> [k |-> "col", c |-> "B", q |-> ""]]>>, distinct |-> FALSE, group |-> <<>>, having |-> [k |-> "none"], limit |-> 1, offset |-> 1, with |-> <<>>, order |-> <<[e |-> [k |-> "col", c |-> "B", q |-> ""], pos |-> 0, dir |-> "asc"], [e |-> [k |-> "col", c |-> "A", q |-> ""], pos |-> 0, dir |-> "asc"]>>], cols |-> <<>>]], idx |-> <<>>, trg |-> <<>>, txn |-> [active |-> FALSE, snap |-> [tabs |-> <<>>, views |-> <<>>, idx |-> <<>>, trg |-> <<>>], sps |-> <<>>], sec |-> [on |-> FALSE, role |-> "", roles |-> {}, grants |-> {}]],hist |-> <<[a |-> "ct", t |-> "T1", cols |-> <<[n |-> "A", ty |-> "INTEGER", pk |-> FALSE, nn |-> FALSE, uq |-> FALSE, def |-> [s |-> "", t |-> "none", n |-> 0, d |-> 1]], [n |-> "B", ty |-> "INTEGER", pk |-> FALSE, nn |-> FALSE, uq |-> FALSE, def |-> [s |-> "", t |-> "none", n |-> 0, d |-> 1]]>>, pk |-> <<>>, uqs |-> <<>>, checks |-> <<>>, fks |-> <<>>], [a |-> "ct", t |-> "T2", cols |-> <<[n |-> "A", ty |-> "INTEGER", pk |-> FALSE, nn |-> FALSE, uq |-> FALSE, def |-> [s |-> "", t |-> "none", n |-> 0, d |-> 1]], [n |-> "C", ty |-> "VARCHAR(10)", pk |-> FALSE, nn |-> FALSE, uq |-> FALSE, def |-> [s |-> "", t |-> "none", n |-> 0, d |-> 1]]>>, pk |-> <<>>, uqs |-> <<>>, checks |-> <<>>, fks |-> <<>>], [a |-> "cv", n |-> "V1", q |-> [k |-> "select", where |-> [k |-> "cmp", r |-> [k |-> "lit", v |-> [s |-> "", t |-> "i", n |-> 0, d |-> 1]], op |-> ">=", l |-> [k |-> "col", c |-> "A", q |-> ""]], from |-> [as |-> "T1", k |-> "table", t |-> "T1"], star |-> FALSE, sel |-> <<[as |-> "A", e |-> [k |-> "col", c |-> "A", q |-> ""]], [as |-> "S", e |-> [k |-> "arith", r |-> [k |-> "col", c |-> "B", q |-> ""], op |-> "+", l |-> [k |-> "col", c |-> "A", q |-> ""]]]>>, distinct |-> FALSE, group |-> <<>>, having |-> [k |-> "none"], limit |-> -1, offset |-> -1, with |-> <<>>, order |-> <<>>], cols |-> <<>>], [a |-> "cv", n |-> "V2", q |-> [k |-> "select", where |-> [k |-> "none"], from |-> [as |-> "T1", k |-> "table", t |-> "T1"], star |-> FALSE, sel |-> <<[as |-> "A", e |-> [k |-> "col", c |-> "A", q |-> ""]], [as |-> "N", e |-> [k |-> "agg", star |-> TRUE, distinct |-> FALSE, f |-> "count", arg |-> [k |-> "none"]]]>>, distinct |-> FALSE, group |-> <<[k |-> "col", c |-> "A", q |-> ""]>>, having |-> [k |-> "none"], limit |-> -1, offset |-> -1, with |-> <<>>, order |-> <<>>], cols |-> <<"K", "CNT">>], [a |-> "cv", n |-> "V3", q |-> [k |-> "select", where |-> [k |-> "none"], from |-> [k |-> "join", r |-> [as |-> "T2", k |-> "table", t |-> "T2"], jt |-> "inner", l |-> [as |-> "T1", k |-> "table", t |-> "T1"], on |-> [k |-> "cmp", r |-> [k |-> "col", c |-> "A", q |-> "T2"], op |-> "=", l |-> [k |-> "col", c |-> "A", q |-> "T1"]]], star |-> FALSE, sel |-> <<[as |-> "B", e |-> [k |-> "col", c |-> "B", q |-> "T1"]], [as |-> "C", e |-> [k |-> "col", c |-> "C", q |-> "T2"]]>>, distinct |-> FALSE, group |-> <<>>, having |-> [k |-> "none"], limit |-> -1, offset |-> -1, with |-> <<>>, order |-> <<>>], cols |-> <<>>], [a |-> "cv", n |-> "V4", q |-> [k |-> "select", where |-> [k |-> "none"], from |-> [as |-> "T1", k |-> "table", t |-> "T1"], star |-> FALSE, sel |-> <<[as |-> "A", e |-> [k |-> "col", c |-> "A", q |-> ""]], [as |-> "B", e |-> [k |-> "col", c |-> "B", q |-> ""]]>>, distinct |-> FALSE, group |-> <<>>, having |-> [k |-> "none"], limit |-> 1, offset |-> -1, with |-> <<>>, order |-> <<[e |-> [k |-> "col", c |-> "A", q |-> ""], pos |-> 0, dir |-> "desc"], [e |-> [k |-> "col", c |-> "B", q |-> ""], pos |-> 0, dir |-> "desc"]>>], cols |-> <<>>], [a |-> "cv", n |-> "V5", q |-> [k |-> "select", where |-> [k |-> "none"], from |-> [as |-> "T1", k |-> "table", t |-> "T1"], star |-> FALSE, sel |-> <<[as |-> "A", e |-> [k |-> "col", c |-> "A", q |-> ""]], [as |-> "B", e |-> [k |-> "col", c |-> "B", q |-> ""]]>>, distinct |-> FALSE, group |-> <<>>, having |-> [k |-> "none"], limit |-> 1, offset |-> 1, with |-> <<>>, order |-> <<[e |-> [k |-> "col", c |-> "B", q |-> ""], pos |-> 0, dir |-> "asc"], [e |-> [k |-> "col", c |-> "A", q |-> ""], pos |-> 0, dir |-> "asc"]>>], cols |-> <<>>], [a |-> "ins", t |-> "T1", rows |-> <<<<[k |-> "lit", v |-> [s |-> "", t |-> "n", n |-> 0, d |-> 1]], [k |-> "lit", v |-> [s |-> "", t |-> "n", n |-> 0, d |-> 1]]>>>>, cols |-> <<>>, mode |-> "plain"]>>])
    >>
----


=============================================================================

---- CONFIG MC_Sem_TTrace_1790128972 ----
CONSTANTS
    Family = "F9"
    Max1 = 2
    Max2 = 1
    IntVals = { 0 , 1 }
    StrVals = { "a" , "A" }

INVARIANT
    _inv

CHECK_DEADLOCK
    \* CHECK_DEADLOCK off because of PROPERTY or INVARIANT above.
    FALSE

INIT
    _init

NEXT
    _next

CONSTANT
    _TETrace <- _trace

ALIAS
    _expression
=============================================================================
\* Generated on Wed Sep 23 02:02:56 UTC 2026