------------------------------- MODULE MC_Idx -------------------------------
(***************************************************************************)
(* GEN for C02 / C15 / C16 (and the index half of C08): histories of DML,   *)
(* CREATE/DROP INDEX, ANALYZE on one table; after each emitted history the  *)
(* harness answers the probe queries below, so every state of the bounded   *)
(* graph is observed through every index-relevant query shape.  Indexes are *)
(* invisible in Engine!Apply's answers: conformance of every configuration  *)
(* (with indexes, without, memory / spilled / disk-backed back-ends) to the *)
(* same specification is exactly "results do not depend on indexes".        *)
(***************************************************************************)
EXTENDS Engine, Json
CONSTANTS MaxDepth, MaxRows, MaxIdx
VARIABLES st, hist, base
vars == <<st, hist, base>>

Setup == << CreateTable("T1", << ColDef("A", "INTEGER"), ColDef("B", "VARCHAR(10)") >>) >>
RECURSIVE Run(_,_)
Run(s, as) == IF as = <<>> THEN s ELSE Run(Apply(s, Head(as)).st, Tail(as))

IV == {NULL, I(0), I(1), I(2)}
SV == {NULL, S("a"), S("ab")}
A1 == Col("A")  B1 == Col("B")
L(k) == Lit(I(k))
IdxCol(c, dir, plen) == [c |-> c, dir |-> dir, plen |-> plen]
CreateIdx(n, cols, uq) == [a |-> "ci", n |-> n, t |-> "T1", cols |-> cols, uq |-> uq]
IndexDefs == { CreateIdx("I1", <<IdxCol("A", "asc", 0)>>, FALSE),
               CreateIdx("I2", <<IdxCol("A", "desc", 0)>>, FALSE),
               CreateIdx("I3", <<IdxCol("A", "asc", 0), IdxCol("B", "asc", 0)>>, FALSE),
               CreateIdx("I4", <<IdxCol("A", "asc", 0)>>, TRUE),
               CreateIdx("I5", <<IdxCol("B", "asc", 1)>>, FALSE),
               CreateIdx("I6", <<IdxCol("B", "desc", 0), IdxCol("A", "desc", 0)>>, FALSE) }
Dml ==   { InsertV("T1", << <<a, b>> >>) : a \in IV, b \in SV }
    \cup { InsertV("T1", << <<I(1), S("a")>>, <<I(1), S("ab")>>, <<NULL, S("a")>> >>) }
    \cup { UpdateA("T1", << [c |-> "A", e |-> Lit(v)] >>, CmpE("=", A1, L(w))) : v \in {I(0), I(2), NULL}, w \in {0, 1} }
    \cup { UpdateA("T1", << [c |-> "A", e |-> ArE("+", A1, L(1))] >>, NoExpr),
           UpdateA("T1", << [c |-> "B", e |-> Lit(S("ab"))] >>, CmpE("=", A1, L(1))),
           UpdateA("T1", << [c |-> "A", e |-> L(1)] >>, IsNullE(A1, FALSE)),
           \* moves ONE of several rows that share an index key (the others must stay reachable through the index)
           UpdateA("T1", << [c |-> "A", e |-> L(2)] >>, CmpE("=", B1, Lit(S("ab")))) }
    \cup { DeleteA("T1", w) : w \in { CmpE("=", A1, L(0)), CmpE("=", A1, L(1)), IsNullE(A1, FALSE), CmpE("=", B1, Lit(S("a"))), CmpE(">", A1, L(0)), NoExpr } }
    \cup { [a |-> "trunc", t |-> "T1"] }
Ddl == IndexDefs \cup { [a |-> "di", n |-> d.n] : d \in IndexDefs } \cup { [a |-> "analyze", t |-> "T1"] }
Txn == { [a |-> x] : x \in {"begin", "rollback", "commit"} }
Alphabet == Dml \cup Ddl \cup Txn

Enabled(s, a) ==
   /\ (a.a = "ins" => Len(s.tabs["T1"].rows) + Len(a.rows) <= MaxRows)
   /\ (a.a = "ci"  => Cardinality(DOMAIN s.idx) < MaxIdx)
   /\ (a.a = "di"  => a.n \in DOMAIN s.idx)                       \* dropping a missing index is just an error: not interesting
   /\ (a.a \in {"rollback", "commit"} => s.txn.active)
   /\ (a.a = "begin" => ~s.txn.active)

\* populated starting points (the depth bound counts the actions after them): three rows of which the LATER ones share a key,
\* under a single-column index - index maintenance that depends on the order of row positions inside one key needs exactly
\* this shape plus one or two updates - and two rows with a NULL key under a two-column index
R1(a, b) == InsertV("T1", << <<a, b>> >>)
Prefixes == { <<>>,
              << R1(I(0), S("a")), R1(I(1), S("ab")), R1(I(1), S("a")), CreateIdx("I1", <<IdxCol("A", "asc", 0)>>, FALSE) >>,
              << R1(I(2), S("ab")), R1(NULL, S("a")), CreateIdx("I3", <<IdxCol("A", "asc", 0), IdxCol("B", "asc", 0)>>, FALSE) >>,
              \* two rows under a UNIQUE index: one UPDATE away from a duplicate key
              << R1(I(0), S("a")), R1(I(1), S("ab")), CreateIdx("I4", <<IdxCol("A", "asc", 0)>>, TRUE) >> }
Init == \E pre \in Prefixes : st = Run(InitSt, Setup \o pre) /\ hist = Setup \o pre /\ base = Len(Setup \o pre)
Next == \E a \in Alphabet : Enabled(st, a) /\ st' = Apply(st, a).st /\ hist' = Append(hist, a) /\ base' = base
View == st
Bound == Len(hist) <= MaxDepth + base
\* emit the histories that end in a state change or an index operation (the probes observe the resulting state)
Emit == PrintT(<<"REPLAY", ToJson(hist')>>)
Inv == ConstraintsHold(st)

\* ---------- probes: every index-relevant query shape ----------
Ops == {"=", "<", "<=", ">", ">="}
P(w) == [BaseSel(TableRef("T1")) EXCEPT !.where = w]
PO(w, o, l) == [BaseSel(TableRef("T1")) EXCEPT !.where = w, !.order = o, !.limit = l]
Probes == SetToSeqAny(
         { P(CmpE(op, A1, L(k))) : op \in Ops, k \in {0, 1} }
    \cup { P(CmpE("<=", A1, Lit(Q(3, 2)))), P(CmpE("=", A1, Lit(Q(2, 2)))), P(CmpE(">", A1, Lit(Q(1, 2)))) }
    \cup { P(BetweenE(A1, L(0), L(1), FALSE)), P(BetweenE(A1, L(1), L(0), FALSE)), P(InListE(A1, <<L(0), L(2)>>, FALSE)),
           P(InListE(A1, <<L(1), Lit(NULL)>>, FALSE)), P(IsNullE(A1, FALSE)), P(IsNullE(A1, TRUE)), P(CmpE("=", A1, Lit(NULL))) }
    \cup { P(AndE(CmpE("=", A1, L(1)), CmpE("=", B1, Lit(S("a"))))), P(AndE(CmpE(">=", A1, L(0)), CmpE("<", A1, L(2)))),
           P(AndE(CmpE("=", A1, L(1)), CmpE(">", B1, Lit(S("a"))))), P(OrE(CmpE("=", A1, L(0)), CmpE("=", A1, L(2)))) }
    \cup { P(CmpE("=", B1, Lit(S("a")))), P(CmpE("=", B1, Lit(S("ab")))), P(CmpE(">=", B1, Lit(S("ab")))), P(LikeE(B1, Lit(S("a%")), FALSE)) }
    \cup { PO(NoExpr, <<OrdE(A1, d)>>, l) : d \in {"asc", "desc"}, l \in {-1, 1, 2} }
    \cup { PO(CmpE(">=", A1, L(1)), <<OrdE(A1, "asc"), OrdE(B1, "desc")>>, -1), PO(NoExpr, <<OrdE(B1, "desc"), OrdE(A1, "desc")>>, 2),
           PO(NoExpr, <<OrdE(A1, "asc"), OrdE(B1, "asc")>>, -1), PO(CmpE("=", A1, L(1)), <<OrdE(B1, "asc")>>, 1),
           \* an IN list that is not in ascending order, combined with an ORDER BY the same index can serve
           PO(InListE(A1, <<L(2), L(0), L(1)>>, FALSE), <<OrdE(A1, "asc")>>, -1), PO(InListE(A1, <<L(1), L(0)>>, FALSE), <<OrdE(A1, "desc")>>, 2) }
    \cup { [BaseSel(TableRef("T1")) EXCEPT !.star = FALSE, !.sel = <<SelItem(CountStar, "N"), SelItem(AggE("min", A1, FALSE), "MI"), SelItem(AggE("max", A1, FALSE), "MA")>>, !.where = w]
              : w \in {NoExpr, CmpE(">=", A1, L(1))} } )
ASSUME PrintT(<<"PROBES", ToJson([i \in 1..Len(Probes) |-> QueryA(Probes[i])])>>)
=============================================================================
