------------------------------- MODULE Arith --------------------------------
(***************************************************************************)
(* Exact integer arithmetic near the 64-bit boundaries without 64-bit       *)
(* integers (C24).  A value is a pair Big(a, n) = a * 2^63 + n with |n|     *)
(* small: TLC computes with the pairs, the harness renders them as decimal  *)
(* literals and maps results back.  InRange says whether the exact result    *)
(* fits a signed 64-bit integer; Allowed is the set of observations the     *)
(* property permits: the mathematically exact value (as an integer or as a   *)
(* float - floats are accepted when they are the exact value or round to the *)
(* same multiple of 2^63), SQL NULL, or an error.  Anything else - in        *)
(* particular a wrapped value, which differs in the multiple `a` - is a      *)
(* violation; so is a panic.                                                 *)
(***************************************************************************)
EXTENDS Integers, Sequences, FiniteSets

Big(a, n) == [a |-> a, n |-> n]
\* small offsets only: the sum / difference / product of the offsets must stay far below 2^63
Add(x, y) == Big(x.a + y.a, x.n + y.n)
Sub(x, y) == Big(x.a - y.a, x.n - y.n)
Neg(x)    == Big(-x.a, -x.n)
\* (a1 2^63 + n1)(a2 2^63 + n2): representable as a pair only when one factor is small
MulDefined(x, y) == x.a = 0 \/ y.a = 0
Mul(x, y) == IF x.a = 0 /\ y.a = 0 THEN Big(0, x.n * y.n)
             ELSE IF x.a = 0 THEN Big(y.a * x.n, x.n * y.n) ELSE Big(x.a * y.n, x.n * y.n)
\* value in [-2^63, 2^63 - 1]
InRange(v) == \/ v.a = 0
              \/ (v.a = 1 /\ v.n <= -1)
              \/ (v.a = -1 /\ v.n >= 0)
Ops == {"+", "-", "*", "neg", "sum2", "/0", "%0"}
\* exact result of op on (x, y); defined = FALSE where the pair arithmetic cannot express it (the check then only
\* demands "no panic")
Exact(op, x, y) ==
   CASE op \in {"+", "sum2"} -> [defined |-> TRUE, v |-> Add(x, y)]
     [] op = "-"   -> [defined |-> TRUE, v |-> Sub(x, y)]
     [] op = "neg" -> [defined |-> TRUE, v |-> Neg(x)]
     [] op = "*"   -> [defined |-> MulDefined(x, y), v |-> IF MulDefined(x, y) THEN Mul(x, y) ELSE Big(0, 0)]
     [] OTHER      -> [defined |-> FALSE, v |-> Big(0, 0)]
\* observation classes delivered by the harness:
\*   [k |-> "int", a, n]     an integer result equal to a * 2^63 + n exactly
\*   [k |-> "float", a, n]   a floating-point result equal to a * 2^63 + n (n rounded to an integer, |n| <= 100000)
\*   [k |-> "approx", a]     a floating-point result whose nearest multiple of 2^63 is a, further away than that
\*   [k |-> "null"] [k |-> "err"] [k |-> "panic"] [k |-> "other"]
\* A literal outside the signed 64-bit range is a floating-point literal: arithmetic on it is floating-point
\* arithmetic and may round (one unit in the last place of a double near 2^63 is 2048).
AbsA(z) == IF z < 0 THEN -z ELSE z
FloatTol == 4096
\* -2^63 has no integer literal (9223372036854775808 alone is out of range): written in the statement text it is
\* floating point; stored in a BIGINT column it is an integer
IntLit(x, ctx) == InRange(x) /\ (ctx = "column" \/ x # Big(-1, 0))
IntOperands(op, x, y, ctx) == IntLit(x, ctx) /\ (op = "neg" \/ IntLit(y, ctx))
Allowed(op, x, y, ctx, o) ==
   LET e == Exact(op, x, y)
       exactInt   == o.k = "int" /\ o.a = e.v.a /\ o.n = e.v.n /\ InRange(e.v)
       exactFloat == o.k = "float" /\ o.a = e.v.a /\ o.n = e.v.n
       nearFloat  == (o.k = "float" /\ o.a = e.v.a /\ AbsA(o.n - e.v.n) <= FloatTol) \/ (o.k = "approx" /\ o.a = e.v.a /\ e.v.a # 0)
   IN
   /\ o.k # "panic"
   /\ \/ o.k \in {"err", "null"}
      \* (division and modulo by zero have no value: only err / NULL above)
      \/ (~e.defined /\ op \notin {"/0", "%0"} /\ o.k \in {"int", "float", "approx", "other"})
      \* integer operands, result representable: the exact value, nothing else
      \/ (e.defined /\ IntOperands(op, x, y, ctx) /\ InRange(e.v) /\ (exactInt \/ exactFloat))
      \* integer operands, result out of range: an error / NULL (above) or the value carried on in floating point - never an integer
      \/ (e.defined /\ IntOperands(op, x, y, ctx) /\ ~InRange(e.v) /\ nearFloat)
      \* floating-point operands: the exact value or its floating-point rounding
      \/ (e.defined /\ ~IntOperands(op, x, y, ctx) /\ (exactInt \/ nearFloat))
=============================================================================
