//! vq-sql: run SQL statements (one per line, from stdin) on a fresh database and print outcomes. Triage tool.
use std::io::BufRead;
fn main() {
    vq::quiet_panics();
    let mut db = vibesql_storage::Database::new();
    for line in std::io::stdin().lock().lines() {
        let line = line.unwrap();
        let sql = line.trim();
        if sql.is_empty() || sql.starts_with("--") { continue; }
        let o = vq::exec::exec_sql(&mut db, sql);
        match &o.rows {
            Some(rows) => {
                let rs: Vec<String> = rows.iter().map(|r| format!("({})", r.values.iter().map(|v| format!("{}", v)).collect::<Vec<_>>().join(","))).collect();
                println!("{:<6} {} => {}", o.out, sql, rs.join(" "));
            }
            None => println!("{:<6} {} [{}] {}", o.out, sql, o.cnt, o.msg),
        }
    }
}
