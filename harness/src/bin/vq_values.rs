//! vq_values (C21): concretise abstract SQL values (type tag x value class), evaluate the REAL `==`, `cmp`,
//! `partial_cmp` and `Hash` of vibesql_types::SqlValue on all pairs, drive std containers and the SQL
//! operators (DISTINCT, GROUP BY, UNION, INTERSECT, EXCEPT, JOIN, IN) with the same values, and log what
//! the code answered.  No expectation lives here: spec/ValueLaws.tla (through TraceValues) is the oracle.
//!
//! usage: vq_values --in scenarios.ndjson --out events.ndjson [--cfg name]
//! action: {"a":"laws","sql":"" | <column type tag>,"vals":[{"t":tag,"c":class},..],"side":[0|1,..]}
//! event : {"sc","i","a","cfg","out":"ok|panic","n","eq":[[0|1]],"cmp":[[-1|0|1]],"pc":[[-1|0|1|2]],"h":[str],
//!          "hm":[idx],"bm":[idx],"srt":[idx],"ident":[str],"q":{name:{"out","rows"}} ,"sql":text}
use serde_json::{json, Value};
use std::cmp::Ordering;
use std::collections::{BTreeMap, HashMap};
use std::hash::{Hash, Hasher};
use std::io::BufWriter;
use std::panic::{catch_unwind, AssertUnwindSafe};
use vibesql_types::{Date, Interval, SqlValue as V, Time, Timestamp};

// ---------------------------------------------------------------- class -> concrete value (the only table the harness owns)
fn int_class(c: &str) -> Option<i128> {
    Some(match c {
        "min" => i128::MIN,
        "max" => i128::MAX, // clamped to the type's range below
        "m2" => -2,
        "m1" => -1,
        "0" => 0,
        "1" => 1,
        "2" => 2,
        "3" => 3,
        "i16max" => i16::MAX as i128,
        "i16min" => i16::MIN as i128,
        "i32max" => i32::MAX as i128,
        "i32min" => i32::MIN as i128,
        "i64max" => i64::MAX as i128,
        _ => return None,
    })
}
fn f64_class(c: &str) -> Option<f64> {
    Some(match c {
        "nan" => f64::NAN,
        "nnan" => f64::from_bits(f64::NAN.to_bits() | (1u64 << 63)),
        "nanp" => f64::from_bits(0x7ff8_0000_0000_0001),
        "ninf" => f64::NEG_INFINITY,
        "nmax" => -f64::MAX,
        "m1_5" => -1.5,
        "m1" => -1.0,
        "ntiny" => -f64::from_bits(1),
        "nzero" => -0.0,
        "pzero" => 0.0,
        "tiny" => f64::from_bits(1),
        "minpos" => f64::MIN_POSITIVE,
        "third" => 1.0 / 3.0,
        "p1" => 1.0,
        "eps1" => 1.0 + f64::EPSILON,
        "p1_5" => 1.5,
        "p2" => 2.0,
        "two53" => 9007199254740992.0,
        "pmax" => f64::MAX,
        "pinf" => f64::INFINITY,
        _ => return None,
    })
}
fn f32_class(c: &str) -> Option<f32> {
    Some(match c {
        "nan" => f32::NAN,
        "nnan" => f32::from_bits(f32::NAN.to_bits() | (1u32 << 31)),
        "nanp" => f32::from_bits(0x7fc0_0001),
        "ninf" => f32::NEG_INFINITY,
        "nmax" => -f32::MAX,
        "m1_5" => -1.5,
        "m1" => -1.0,
        "ntiny" => -f32::from_bits(1),
        "nzero" => -0.0,
        "pzero" => 0.0,
        "tiny" => f32::from_bits(1),
        "minpos" => f32::MIN_POSITIVE,
        "third" => 1.0 / 3.0,
        "p1" => 1.0,
        "eps1" => 1.0 + f32::EPSILON,
        "p1_5" => 1.5,
        "p2" => 2.0,
        "two53" => 16777216.0,
        "pmax" => f32::MAX,
        "pinf" => f32::INFINITY,
        _ => return None,
    })
}
fn str_class(c: &str) -> Option<String> {
    Some(
        match c {
            "empty" => "",
            "sp" => " ",
            "a" => "a",
            "A" => "A",
            "a_sp" => "a ",
            "a_tab" => "a\t",
            "aa" => "aa",
            "ab" => "ab",
            "b" => "b",
            "B" => "B",
            "z" => "z",
            "Z" => "Z",
            "e_nfc" => "\u{e9}",
            "e_nfd" => "e\u{301}",
            "nul" => "a\0",
            "emoji" => "\u{1f600}",
            _ => return None,
        }
        .to_string(),
    )
}
fn nums(s: &str) -> Vec<u32> {
    s.split(|ch: char| !ch.is_ascii_digit()).filter(|p| !p.is_empty()).map(|p| p.parse().unwrap_or(0)).collect()
}
fn date_of(s: &str) -> Option<Date> {
    let p = nums(s);
    if p.len() != 3 {
        return None;
    }
    Some(Date { year: p[0] as i32, month: p[1] as u8, day: p[2] as u8 })
}
fn time_of(s: &str) -> Option<Time> {
    let (hms, frac) = match s.split_once('.') {
        Some((a, b)) => (a, b),
        None => (s, ""),
    };
    let p = nums(hms);
    if p.len() != 3 {
        return None;
    }
    let ns: u32 = format!("{:0<9}", frac).parse().ok()?;
    Some(Time { hour: p[0] as u8, minute: p[1] as u8, second: p[2] as u8, nanosecond: ns })
}

/// None = class unknown to the harness (reported, never guessed)
fn concretise(t: &str, c: &str) -> Option<V> {
    if c == "null" {
        return Some(V::Null);
    }
    Some(match t {
        "int" => V::Integer(int_class(c)?.clamp(i64::MIN as i128, i64::MAX as i128) as i64),
        "big" => V::Bigint(int_class(c)?.clamp(i64::MIN as i128, i64::MAX as i128) as i64),
        "small" => V::Smallint(int_class(c)?.clamp(i16::MIN as i128, i16::MAX as i128) as i16),
        "uns" => V::Unsigned(int_class(c)?.clamp(0, u64::MAX as i128) as u64),
        "num" => V::Numeric(f64_class(c)?),
        "double" => V::Double(f64_class(c)?),
        "float" => V::Float(f32_class(c)?),
        "real" => V::Real(f32_class(c)?),
        "char" => V::Character(str_class(c)?),
        "varchar" => V::Varchar(str_class(c)?),
        "bool" => V::Boolean(c == "t"),
        "date" => V::Date(date_of(c)?),
        "time" => V::Time(time_of(c)?),
        "ts" => {
            let (d, tm) = c.split_once(' ')?;
            V::Timestamp(Timestamp { date: date_of(d)?, time: time_of(tm)? })
        }
        "interval" => V::Interval(Interval::new(c.to_string())),
        _ => return None,
    })
}
fn sql_type(t: &str) -> &'static str {
    match t {
        "int" => "INTEGER",
        "big" => "BIGINT",
        "small" => "SMALLINT",
        "uns" => "UNSIGNED",
        "num" => "NUMERIC",
        "double" => "DOUBLE PRECISION",
        "float" => "FLOAT",
        "real" => "REAL",
        "char" => "CHAR(4)",
        "varchar" => "VARCHAR(20)",
        "bool" => "BOOLEAN",
        "date" => "DATE",
        "time" => "TIME",
        "ts" => "TIMESTAMP",
        "interval" => "INTERVAL DAY",
        _ => "VARCHAR(20)",
    }
}

// ---------------------------------------------------------------- observations
fn ord_i(o: Ordering) -> i64 {
    match o {
        Ordering::Less => -1,
        Ordering::Equal => 0,
        Ordering::Greater => 1,
    }
}
fn hash_of(v: &V) -> String {
    let mut h = std::collections::hash_map::DefaultHasher::new();
    v.hash(&mut h);
    format!("{:016x}", h.finish())
}
/// identity of a concrete value (distinguishes -0.0 from 0.0, NaN payloads, interval spellings)
fn ident(v: &V) -> String {
    match v {
        V::Float(f) | V::Real(f) => format!("{}:{:?}#{:08x}", v.type_name(), f, f.to_bits()),
        V::Double(f) | V::Numeric(f) => format!("{}:{:?}#{:016x}", v.type_name(), f, f.to_bits()),
        V::Interval(i) => format!("INTERVAL:{:?}", i),
        other => format!("{}:{:?}", other.type_name(), other),
    }
}
fn as_i64(v: &V) -> i64 {
    match v {
        V::Integer(n) | V::Bigint(n) => *n,
        V::Smallint(n) => *n as i64,
        V::Unsigned(n) => *n as i64,
        V::Numeric(f) | V::Double(f) => *f as i64,
        V::Float(f) | V::Real(f) => *f as i64,
        _ => -1,
    }
}

fn relations(vals: &[V]) -> Value {
    let n = vals.len();
    let mut eq = Vec::with_capacity(n);
    let mut cmp = Vec::with_capacity(n);
    let mut pc = Vec::with_capacity(n);
    for a in vals {
        let mut re = Vec::with_capacity(n);
        let mut rc = Vec::with_capacity(n);
        let mut rp = Vec::with_capacity(n);
        for b in vals {
            re.push(if a == b { 1 } else { 0 });
            rc.push(ord_i(a.cmp(b)));
            rp.push(a.partial_cmp(b).map(ord_i).unwrap_or(2));
        }
        eq.push(re);
        cmp.push(rc);
        pc.push(rp);
    }
    let h: Vec<String> = vals.iter().map(hash_of).collect();
    // containers keyed by the values, first insertion wins; then every value is looked up again
    let mut hm: HashMap<V, usize> = HashMap::new();
    let mut bm: BTreeMap<V, usize> = BTreeMap::new();
    for (i, v) in vals.iter().enumerate() {
        hm.entry(v.clone()).or_insert(i + 1);
        bm.entry(v.clone()).or_insert(i + 1);
    }
    let hml: Vec<usize> = vals.iter().map(|v| hm.get(v).copied().unwrap_or(0)).collect();
    let bml: Vec<usize> = vals.iter().map(|v| bm.get(v).copied().unwrap_or(0)).collect();
    // the sort may detect an inconsistent order and panic: that is an observation of its own
    let srt: Vec<usize> = catch_unwind(AssertUnwindSafe(|| {
        let mut ix: Vec<usize> = (0..n).collect();
        ix.sort_by(|&a, &b| vals[a].cmp(&vals[b]));
        ix.into_iter().map(|k| k + 1).collect()
    }))
    .unwrap_or_default();
    json!({"n": n, "eq": eq, "cmp": cmp, "pc": pc, "h": h, "hm": hml, "bm": bml, "srt": srt,
           "ident": vals.iter().map(ident).collect::<Vec<_>>()})
}

fn members(vals: &[V], v: &V) -> Vec<usize> {
    vals.iter().enumerate().filter(|(_, x)| *x == v).map(|(i, _)| i + 1).collect()
}

const QUERIES: [(&str, &str); 8] = [
    ("grp", "SELECT V, COUNT(*), MIN(ID), MAX(ID), SUM(ID) FROM TV GROUP BY V"),
    ("dst", "SELECT DISTINCT V FROM TV"),
    ("uni", "SELECT V FROM TV WHERE S = 0 UNION SELECT V FROM TV WHERE S = 1"),
    ("int", "SELECT V FROM TV WHERE S = 0 INTERSECT SELECT V FROM TV WHERE S = 1"),
    ("exc", "SELECT V FROM TV WHERE S = 0 EXCEPT SELECT V FROM TV WHERE S = 1"),
    ("join", "SELECT A.ID, B.ID FROM TV A JOIN TV B ON A.V = B.V"),
    ("isub", "SELECT ID FROM TV WHERE V IN (SELECT V FROM TV WHERE S = 1)"),
    ("cd", "SELECT COUNT(DISTINCT V) FROM TV"),
];

fn empty_q() -> Value {
    let mut m = serde_json::Map::new();
    for (name, _) in QUERIES.iter() {
        m.insert(name.to_string(), json!({"out": "none", "rows": []}));
    }
    Value::Object(m)
}

/// Store the values in a typed column, read them back (the stored values are the universe of this event) and
/// run the duplicate-sensitive operators.
fn sql_part(t: &str, vals: &[V], side: &[i64]) -> Result<(Vec<V>, Value), String> {
    let mut db = vibesql_storage::Database::new();
    let ddl = format!("CREATE TABLE TV (ID INTEGER, S INTEGER, V {})", sql_type(t));
    let o = vq::exec::exec_sql(&mut db, &ddl);
    if o.out != "ok" {
        return Err(format!("{}: {} {}", ddl, o.out, o.msg));
    }
    for (i, v) in vals.iter().enumerate() {
        let row = vibesql_storage::Row::new(vec![V::Integer(i as i64 + 1), V::Integer(side[i]), v.clone()]);
        let r = match db.insert_row("TV", row.clone()) {
            Ok(()) => Ok(()),
            Err(_) => db.insert_row("public.TV", row),
        };
        if let Err(e) = r {
            return Err(format!("insert {}: {}", ident(v), e));
        }
    }
    let o = vq::exec::exec_sql(&mut db, "SELECT ID, V FROM TV");
    let mut rows = match (o.out, o.rows) {
        ("ok", Some(r)) => r,
        _ => return Err(format!("scan: {} {}", o.out, o.msg)),
    };
    if rows.len() != vals.len() {
        return Err(format!("scan returned {} rows for {} inserted", rows.len(), vals.len()));
    }
    rows.sort_by_key(|r| as_i64(&r.values[0]));
    let stored: Vec<V> = rows.iter().map(|r| r.values[1].clone()).collect();
    let mut q = serde_json::Map::new();
    for (name, sql) in QUERIES.iter() {
        let o = vq::exec::exec_sql(&mut db, sql);
        let out = match o.out {
            "ok" => "ok",
            "panic" => "panic",
            _ => "err",
        };
        let rows: Vec<Value> = match (&o.rows, *name) {
            (None, _) => vec![],
            (Some(rs), "grp") => rs
                .iter()
                .map(|r| json!({"m": members(&stored, &r.values[0]), "cnt": as_i64(&r.values[1]), "mn": as_i64(&r.values[2]),
                               "mx": as_i64(&r.values[3]), "sm": as_i64(&r.values[4])}))
                .collect(),
            (Some(rs), "join") => rs.iter().map(|r| json!([as_i64(&r.values[0]), as_i64(&r.values[1])])).collect(),
            (Some(rs), "isub") | (Some(rs), "cd") => rs.iter().map(|r| json!(as_i64(&r.values[0]))).collect(),
            (Some(rs), _) => rs.iter().map(|r| json!(members(&stored, &r.values[0]))).collect(),
        };
        q.insert(name.to_string(), json!({"out": out, "rows": rows, "msg": o.msg}));
    }
    Ok((stored, Value::Object(q)))
}

fn run_laws(a: &Value) -> Value {
    let t = a["sql"].as_str().unwrap_or("");
    let descr: Vec<String> = a["vals"].as_array().map(|v| v.iter().map(|x| format!("{}:{}", x["t"].as_str().unwrap_or(""), x["c"].as_str().unwrap_or(""))).collect()).unwrap_or_default();
    let side: Vec<i64> = a["side"].as_array().map(|v| v.iter().map(|x| x.as_i64().unwrap_or(0)).collect()).unwrap_or_default();
    let text = format!("laws sql={} vals=[{}] side={:?}", t, descr.join(", "), side);
    let fail = |out: &str, msg: String| {
        let mut e = relations(&[]);
        e["out"] = json!(out);
        e["q"] = empty_q();
        e["msg"] = json!(msg);
        e["sqlout"] = json!("none");
        e
    };
    // concretise (Interval::new may panic: data)
    let built = catch_unwind(AssertUnwindSafe(|| {
        a["vals"].as_array().map(|v| v.iter().map(|x| concretise(x["t"].as_str().unwrap_or(""), x["c"].as_str().unwrap_or(""))).collect::<Vec<_>>()).unwrap_or_default()
    }));
    let vals: Vec<V> = match built {
        Err(_) => {
            let mut e = fail("panic", "panic while constructing a value".into());
            e["sql"] = json!(text);
            return e;
        }
        Ok(v) => {
            if v.iter().any(|x| x.is_none()) {
                eprintln!("vq_values: unknown value class in {}", text);
                std::process::exit(3); // harness/spec vocabulary mismatch: a tool error, never a verdict
            }
            v.into_iter().map(|x| x.unwrap()).collect()
        }
    };
    let mut sqlout = "none".to_string();
    let mut sqlmsg = String::new();
    let (universe, q) = if t.is_empty() {
        (vals, empty_q())
    } else {
        match catch_unwind(AssertUnwindSafe(|| sql_part(t, &vals, &side))) {
            Ok(Ok((stored, q))) => {
                sqlout = "ok".into();
                (stored, q)
            }
            Ok(Err(m)) => {
                sqlout = "err".into();
                sqlmsg = m;
                (vals, empty_q())
            }
            Err(_) => {
                sqlout = "panic".into();
                (vals, empty_q())
            }
        }
    };
    let mut e = match catch_unwind(AssertUnwindSafe(|| relations(&universe))) {
        Ok(e) => e,
        Err(_) => fail("panic", "panic in ==/cmp/partial_cmp/hash or a std container keyed by the values".into()),
    };
    if e.get("out").is_none() {
        e["out"] = json!("ok");
        e["q"] = q;
        e["msg"] = json!(sqlmsg);
        e["sqlout"] = json!(sqlout);
    }
    e["sql"] = json!(text);
    e
}

fn main() {
    vq::quiet_panics();
    let args: Vec<String> = std::env::args().collect();
    let (mut inp, mut out, mut cfg) = (String::new(), String::new(), "default".to_string());
    let mut i = 1;
    while i < args.len() {
        match args[i].as_str() {
            "--in" => { inp = args[i + 1].clone(); i += 1; }
            "--out" => { out = args[i + 1].clone(); i += 1; }
            "--cfg" => { cfg = args[i + 1].clone(); i += 1; }
            x => { eprintln!("unknown arg {}", x); std::process::exit(2); }
        }
        i += 1;
    }
    let scen = vq::read_ndjson(&inp);
    let mut w = BufWriter::new(std::fs::File::create(&out).expect("create out"));
    for sc in &scen {
        let id = sc["id"].clone();
        vq::write_line(&mut w, &json!({"a": {"a": "reset"}, "sc": id, "i": 0, "cfg": cfg, "out": "ok", "sql": "-- reset"}));
        if let Some(steps) = sc["steps"].as_array() {
            for (k, a) in steps.iter().enumerate() {
                let mut ev = run_laws(a);
                ev["a"] = a.clone();
                ev["sc"] = id.clone();
                ev["i"] = json!(k + 1);
                ev["cfg"] = json!(cfg);
                vq::write_line(&mut w, &ev);
            }
        }
    }
    eprintln!("vq_values: {} scenarios", scen.len());
}
