//! vq_temporal (C22): drive the REAL Display / FromStr / constructors of vibesql_types::{Date, Time, Timestamp, Interval}
//! with the values and texts TLC generated from spec/Temporal.tla and log what the code answered.  No expectation
//! lives here: TraceTemporal (Temporal.tla) is the oracle.  A panic of the code under test is an outcome ("panic").
//!
//! usage: vq_temporal --in scenarios.ndjson --out events.ndjson [--cfg name]
//! actions
//!   {"a":"rt","k":"date|time|ts","c":{y,m,d,h,mi,s,ns}}             build the value, format it, parse the text
//!   {"a":"pf","k":..,"c":..,"txt":text}                              parse a text form of the value
//!   {"a":"iv","v":{mo,d,s,us},"f":form,"txt":text,"ref":text}        parse an interval text (and its reference spelling)
//!   {"a":"mut","k":"date|time|ts|interval","toks":[token,..]}        parse a mutated text ("@.." tokens are classes)
//! event: the action plus {"out":"ok|err|panic","mk","txt","back":{..},"same","out2","same2","iv":{mo,d,s,us,dbg},
//!         "eqref","cmpref","rtsame","sql": human-readable description}
use serde_json::{json, Value};
use std::io::BufWriter;
use std::panic::{catch_unwind, AssertUnwindSafe};
use std::str::FromStr;
use vibesql_types::{Date, Interval, Time, Timestamp};

/// message and location of the last panic of the code under test (the panic hook stores it; panics are data)
static LAST_PANIC: std::sync::Mutex<String> = std::sync::Mutex::new(String::new());
fn take_panic() -> String {
    std::mem::take(&mut *LAST_PANIC.lock().unwrap_or_else(|e| e.into_inner()))
}

fn gi(v: &Value, k: &str) -> i64 {
    v[k].as_i64().unwrap_or(0)
}
fn zero_back() -> Value {
    json!({"y":0,"m":0,"d":0,"h":0,"mi":0,"s":0,"ns":0})
}
fn clamp31(n: i64) -> i64 {
    n.clamp(-2_000_000_000, 2_000_000_000)
}
fn back_date(d: &Date) -> Value {
    json!({"y": d.year, "m": d.month, "d": d.day, "h":0,"mi":0,"s":0,"ns":0})
}
fn back_time(t: &Time) -> Value {
    json!({"y":0,"m":0,"d":0,"h": t.hour, "mi": t.minute, "s": t.second, "ns": clamp31(t.nanosecond as i64)})
}
fn back_ts(t: &Timestamp) -> Value {
    json!({"y": t.date.year, "m": t.date.month, "d": t.date.day, "h": t.time.hour, "mi": t.time.minute, "s": t.time.second,
           "ns": clamp31(t.time.nanosecond as i64)})
}

/// A parsed temporal value of one of the three component kinds.
#[derive(Clone, PartialEq)]
enum Tv {
    D(Date),
    T(Time),
    S(Timestamp),
}
impl Tv {
    fn back(&self) -> Value {
        match self {
            Tv::D(d) => back_date(d),
            Tv::T(t) => back_time(t),
            Tv::S(s) => back_ts(s),
        }
    }
    fn text(&self) -> String {
        match self {
            Tv::D(d) => d.to_string(),
            Tv::T(t) => t.to_string(),
            Tv::S(s) => s.to_string(),
        }
    }
}
/// ("ok", value) | ("err", none) | ("panic", none)
fn parse_kind(kind: &str, txt: &str) -> (&'static str, Option<Tv>) {
    let r = catch_unwind(AssertUnwindSafe(|| match kind {
        "date" => Date::from_str(txt).map(Tv::D),
        "time" => Time::from_str(txt).map(Tv::T),
        _ => Timestamp::from_str(txt).map(Tv::S),
    }));
    match r {
        Ok(Ok(v)) => ("ok", Some(v)),
        Ok(Err(_)) => ("err", None),
        Err(_) => ("panic", None),
    }
}
/// The value with exactly these components (public fields), and what the validating constructors say about them.
fn build(kind: &str, c: &Value) -> (Tv, &'static str) {
    let date = Date { year: gi(c, "y") as i32, month: gi(c, "m") as u8, day: gi(c, "d") as u8 };
    let time = Time { hour: gi(c, "h") as u8, minute: gi(c, "mi") as u8, second: gi(c, "s") as u8, nanosecond: gi(c, "ns") as u32 };
    let mk = catch_unwind(AssertUnwindSafe(|| {
        let dk = Date::new(date.year, date.month, date.day).is_ok();
        let tk = Time::new(time.hour, time.minute, time.second, time.nanosecond).is_ok();
        match kind {
            "date" => dk,
            "time" => tk,
            _ => dk && tk,
        }
    }));
    let mk = match mk {
        Ok(true) => "ok",
        Ok(false) => "err",
        Err(_) => "panic",
    };
    let v = match kind {
        "date" => Tv::D(date),
        "time" => Tv::T(time),
        _ => Tv::S(Timestamp::new(date, time)),
    };
    (v, mk)
}

/// months / days / microseconds of an Interval: the fields are private, the derived Debug text shows them.
fn iv_fields(iv: &Interval) -> Value {
    let dbg = format!("{:?}", iv);
    let grab = |key: &str| -> Option<i64> {
        let p = dbg.rfind(key)?;
        let rest = &dbg[p + key.len()..];
        let end = rest.find(|ch: char| !(ch.is_ascii_digit() || ch == '-')).unwrap_or(rest.len());
        rest[..end].parse().ok()
    };
    match (grab(", months: "), grab(", days: "), grab(", microseconds: ")) {
        (Some(mo), Some(d), Some(us)) => json!({"mo": clamp31(mo), "d": clamp31(d), "s": clamp31(us / 1_000_000), "us": us % 1_000_000, "dbg": 1}),
        _ => json!({"mo":0,"d":0,"s":0,"us":0,"dbg":0}),
    }
}
fn iv_none() -> Value {
    json!({"mo":0,"d":0,"s":0,"us":0,"dbg":0})
}
fn parse_iv(txt: &str) -> Option<Interval> {
    catch_unwind(AssertUnwindSafe(|| Interval::new(txt.to_string()))).ok()
}

fn token(t: &str) -> String {
    match t {
        "@u2digit" => "\u{663}".to_string(),  // ARABIC-INDIC DIGIT THREE, 2 bytes
        "@u3digit" => "\u{ff11}".to_string(), // FULLWIDTH DIGIT ONE, 3 bytes
        "@u2" => "\u{e9}".to_string(),        // 2 bytes
        "@u4" => "\u{1f600}".to_string(),     // 4 bytes
        "@i32x12" => "200000000".to_string(), // fits i32, times 12 does not
        "@i32max" => "2147483647".to_string(),
        "@i64max" => "9223372036854775807".to_string(),
        "@long" => "9".repeat(40),
        "@nl" => "\n".to_string(),
        other => other.to_string(),
    }
}

fn base_event() -> Value {
    json!({"out":"ok","mk":"ok","txt":"","back":zero_back(),"same":false,"out2":"none","same2":false,"iv":iv_none(),
           "eqref":false,"cmpref":0,"rtsame":false,"sql":""})
}

fn step(a: &Value) -> Value {
    let mut e = base_event();
    let kind = a["k"].as_str().unwrap_or("");
    match a["a"].as_str().unwrap_or("") {
        "rt" => {
            let (v, mk) = build(kind, &a["c"]);
            e["mk"] = json!(mk);
            match catch_unwind(AssertUnwindSafe(|| v.text())) {
                Err(_) => {
                    e["out"] = json!("panic");
                    e["sql"] = json!(format!("format {} {}", kind, a["c"]));
                }
                Ok(txt) => {
                    let (out, p) = parse_kind(kind, &txt);
                    e["out"] = json!(out);
                    if let Some(p) = p {
                        e["back"] = p.back();
                        e["same"] = json!(p == v);
                    }
                    e["sql"] = json!(format!("{} {} -> '{}' -> parse: {}", kind, a["c"], txt, out));
                    e["txt"] = json!(txt);
                }
            }
        }
        "pf" => {
            let txt = a["txt"].as_str().unwrap_or("");
            let (out, p) = parse_kind(kind, txt);
            e["out"] = json!(out);
            if let Some(p) = p {
                e["back"] = p.back();
            }
            e["sql"] = json!(format!("parse {} '{}': {}", kind, txt, out));
        }
        "iv" => {
            let txt = a["txt"].as_str().unwrap_or("");
            let rf = a["ref"].as_str().unwrap_or("");
            match parse_iv(txt) {
                None => e["out"] = json!("panic"),
                Some(iv) => {
                    e["iv"] = iv_fields(&iv);
                    // strict round trip: the value's own text denotes the value
                    let r = catch_unwind(AssertUnwindSafe(|| Interval::new(iv.to_string()) == iv));
                    match r {
                        Ok(b) => e["rtsame"] = json!(b),
                        Err(_) => e["out"] = json!("panic"),
                    }
                    if !rf.is_empty() {
                        match parse_iv(rf) {
                            None => e["out"] = json!("panic"),
                            Some(r) => {
                                e["eqref"] = json!(iv == r);
                                e["cmpref"] = json!(match iv.cmp(&r) { std::cmp::Ordering::Less => -1, std::cmp::Ordering::Equal => 0, _ => 1 });
                            }
                        }
                    }
                }
            }
            e["sql"] = json!(format!("INTERVAL '{}' [{}] (reference spelling '{}'): {} {}", txt, a["f"].as_str().unwrap_or(""), rf, e["out"], e["iv"]));
        }
        "mut" => {
            let txt: String = a["toks"].as_array().map(|v| v.iter().map(|t| token(t.as_str().unwrap_or(""))).collect()).unwrap_or_default();
            if kind == "interval" {
                match parse_iv(&txt) {
                    None => e["out"] = json!("panic"),
                    Some(iv) => {
                        e["iv"] = iv_fields(&iv);
                        match catch_unwind(AssertUnwindSafe(|| Interval::new(iv.to_string()) == iv)) {
                            Ok(b) => {
                                e["out2"] = json!("ok");
                                e["same2"] = json!(b);
                            }
                            Err(_) => e["out2"] = json!("panic"),
                        }
                    }
                }
            } else {
                let (out, p) = parse_kind(kind, &txt);
                e["out"] = json!(out);
                if let Some(p) = p {
                    e["back"] = p.back();
                    // whatever was accepted must survive its own text form
                    match catch_unwind(AssertUnwindSafe(|| p.text())) {
                        Err(_) => e["out2"] = json!("panic"),
                        Ok(t2) => {
                            let (o2, p2) = parse_kind(kind, &t2);
                            e["out2"] = json!(o2);
                            e["same2"] = json!(p2.map(|x| x == p).unwrap_or(false));
                            e["txt"] = json!(t2);
                        }
                    }
                }
            }
            e["sql"] = json!(format!("parse {} {:?}: {}", kind, txt, e["out"]));
        }
        other => {
            eprintln!("vq_temporal: unknown action {}", other);
            std::process::exit(3);
        }
    }
    e
}

fn main() {
    std::panic::set_hook(Box::new(|info| {
        *LAST_PANIC.lock().unwrap_or_else(|e| e.into_inner()) = info.to_string();
    }));
    let args: Vec<String> = std::env::args().collect();
    let (mut inp, mut out, mut cfg) = (String::new(), String::new(), "default".to_string());
    let mut i = 1;
    while i < args.len() {
        match args[i].as_str() {
            "--in" => { inp = args[i + 1].clone(); i += 1; }
            "--out" => { out = args[i + 1].clone(); i += 1; }
            "--cfg" => { cfg = args[i + 1].clone(); i += 1; }
            x => { eprintln!("unknown arg {}", x); std::process::exit(2); }
        }
        i += 1;
    }
    let scen = vq::read_ndjson(&inp);
    let mut w = BufWriter::new(std::fs::File::create(&out).expect("create out"));
    let mut n = 0usize;
    for sc in &scen {
        let id = sc["id"].clone();
        vq::write_line(&mut w, &json!({"a": {"a": "reset"}, "sc": id, "i": 0, "cfg": cfg, "out": "ok", "sql": "-- reset"}));
        if let Some(steps) = sc["steps"].as_array() {
            for (k, a) in steps.iter().enumerate() {
                take_panic();
                let mut ev = step(a);
                ev["msg"] = json!(take_panic());
                ev["a"] = a.clone();
                ev["sc"] = id.clone();
                ev["i"] = json!(k + 1);
                ev["cfg"] = json!(cfg);
                vq::write_line(&mut w, &ev);
                n += 1;
            }
        }
    }
    eprintln!("vq_temporal: {} scenarios, {} events", scen.len(), n);
}
