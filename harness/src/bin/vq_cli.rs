//! vq_cli: RUN for C31 (CLI import / export).  Replays TLC-generated scenarios (spec/MC_Csv.tla) into the CLI's real
//! `\copy` implementation and records one ndjson event per step.  The CLI is a binary crate: its modules are compiled
//! in from /repo's working tree (`commands`, `data_io`, `formatter` by #[path]; `executor` by include!, which resolves
//! its sub-modules next to the included file and lets this file add ONE accessor for the private `db` field - the
//! harness needs the database for the projection and for filling tables through the storage API).
//!
//!   {"a":"create","t":"T","cols":[{"n":[code points],"ty":"i|s|f"}]}   CREATE TABLE through SqlExecutor::execute
//!   {"a":"fill","t":"T","rows":[[value,..],..]}                        rows through Database::insert_row
//!   {"a":"export","t":"T","fmt":"csv|json"}                            `\copy T TO '<tmp>/f<k>.<fmt>'`
//!   {"a":"import","t":"T","fmt":"csv|json","src":"last|text","text":[code points]}
//!                                                                      `\copy T FROM '<file>'` (the last exported file, or
//!                                                                      a file with exactly the given text)
//! `\copy` lines go through MetaCommand::parse and SqlExecutor::handle_copy exactly as Repl::handle_meta_command does.
//! Every event carries the text of the file involved (code points) and the projection of the whole database:
//! all tables sorted by name, their column names / type classes, and their rows as {"t":"n|i|s|f|x","n":int,"s":[cp]}.
//! No expected values live here; CsvJson.tla decides.  A panic of the code under test is data (out = "panic").
use std::io::BufWriter;
use std::panic::{catch_unwind, AssertUnwindSafe};

use serde_json::{json, Value};
use vibesql_types::{DataType, SqlValue};

#[allow(dead_code)]
#[path = "/repo/crates/vibesql-cli/src/commands.rs"]
mod commands;
#[allow(dead_code)]
#[path = "/repo/crates/vibesql-cli/src/data_io.rs"]
mod data_io;
#[allow(dead_code)]
#[path = "/repo/crates/vibesql-cli/src/formatter.rs"]
mod formatter;
#[allow(dead_code)]
mod executor {
    include!("/repo/crates/vibesql-cli/src/executor/mod.rs");
    impl SqlExecutor {
        pub fn vq_db(&mut self) -> &mut Database {
            &mut self.db
        }
    }
}

use commands::MetaCommand;
use executor::SqlExecutor;

fn cps(s: &str) -> Value {
    Value::Array(s.chars().map(|c| json!(c as u32)).collect())
}

fn text_of(v: &Value) -> String {
    v.as_array().map(|a| a.iter().map(|x| char::from_u32(x.as_u64().unwrap_or(63) as u32).unwrap_or('?')).collect()).unwrap_or_default()
}

/// one-line rendering of a text for the `sql` description of an event
fn show(s: &str) -> String {
    s.chars()
        .map(|c| match c {
            '\n' => "\\n".to_string(),
            '\r' => "\\r".to_string(),
            '\\' => "\\\\".to_string(),
            c if (c as u32) < 32 => format!("\\x{:02x}", c as u32),
            c => c.to_string(),
        })
        .collect()
}

fn panic_text(p: Box<dyn std::any::Any + Send>) -> String {
    if let Some(s) = p.downcast_ref::<&str>() {
        s.to_string()
    } else if let Some(s) = p.downcast_ref::<String>() {
        s.clone()
    } else {
        "panic".to_string()
    }
}

const SMALL: i64 = 1 << 30;

fn jval(t: &str, n: i64, s: &str) -> Value {
    json!({"t": t, "n": n, "s": cps(s)})
}

fn jint(n: i64) -> Value {
    if n > -SMALL && n < SMALL {
        jval("i", n, "")
    } else {
        jval("x", 0, &format!("int:{}", n))
    }
}

fn jfloat(f: f64) -> Value {
    if f.is_finite() {
        // Rust prints the shortest decimal text that reads back as the same f64, never with an exponent
        jval("f", 0, &format!("{}", f))
    } else {
        jval("x", 0, &format!("float:{}", f))
    }
}

/// projection of a stored value into the vocabulary of CsvJson.tla
fn project_value(v: &SqlValue) -> Value {
    match v {
        SqlValue::Null => jval("n", 0, ""),
        SqlValue::Integer(n) | SqlValue::Bigint(n) => jint(*n),
        SqlValue::Smallint(n) => jint(*n as i64),
        SqlValue::Unsigned(n) => {
            if *n < SMALL as u64 {
                jint(*n as i64)
            } else {
                jval("x", 0, &format!("int:{}", n))
            }
        }
        SqlValue::Double(f) | SqlValue::Numeric(f) => jfloat(*f),
        SqlValue::Float(f) | SqlValue::Real(f) => jfloat(*f as f64),
        SqlValue::Varchar(s) | SqlValue::Character(s) => jval("s", 0, s),
        other => jval("x", 0, &format!("{:?}", other)),
    }
}

/// concretisation of an abstract value
fn concrete_value(v: &Value) -> SqlValue {
    match v["t"].as_str().unwrap_or("n") {
        "i" => SqlValue::Integer(v["n"].as_i64().unwrap_or(0)),
        "s" => SqlValue::Varchar(text_of(&v["s"])),
        "f" => SqlValue::Double(text_of(&v["s"]).parse::<f64>().expect("float text")),
        _ => SqlValue::Null,
    }
}

fn type_class(t: &DataType) -> &'static str {
    match t {
        DataType::Integer | DataType::Bigint | DataType::Smallint => "i",
        DataType::Varchar { .. } | DataType::Character { .. } => "s",
        DataType::DoublePrecision | DataType::Real | DataType::Float { .. } => "f",
        _ => "x",
    }
}

fn short(k: &str) -> String {
    k.rsplit('.').next().unwrap_or(k).to_string()
}

/// all tables (sorted by name) with their columns and rows
fn project_db(ex: &mut SqlExecutor) -> Value {
    let db = ex.vq_db();
    let mut keys: Vec<&String> = db.tables.keys().collect();
    keys.sort();
    let mut out = Vec::new();
    for k in keys {
        let t = &db.tables[k];
        let cols: Vec<Value> = t.schema.columns.iter().map(|c| json!({"n": cps(&c.name), "ty": type_class(&c.data_type)})).collect();
        let rows: Vec<Value> = t.scan().iter().map(|r| Value::Array(r.values.iter().map(project_value).collect())).collect();
        out.push(json!({"name": short(k), "cols": cols, "rows": rows}));
    }
    Value::Array(out)
}

struct St {
    ex: SqlExecutor,
    dir: String,
    nfile: usize,
    last: String,
}

fn read_file(path: &str) -> (i64, Value, String) {
    match std::fs::read(path) {
        Ok(b) => match String::from_utf8(b) {
            Ok(s) => (1, cps(&s), s),
            Err(_) => (0, json!([]), "<not UTF-8>".to_string()),
        },
        Err(_) => (0, json!([]), "<no file>".to_string()),
    }
}

/// `\copy` exactly as the REPL runs it: MetaCommand::parse, then handle_copy
fn run_copy(ex: &mut SqlExecutor, line: &str) -> (&'static str, String) {
    let r = catch_unwind(AssertUnwindSafe(|| match MetaCommand::parse(line) {
        Some(MetaCommand::Copy { table, file_path, direction, format }) => ex.handle_copy(&table, &file_path, direction, format).map_err(|e| e.to_string()),
        _ => Err("not parsed as a \\copy command".to_string()),
    }));
    match r {
        Ok(Ok(())) => ("ok", String::new()),
        Ok(Err(e)) => ("err", e),
        Err(p) => ("panic", panic_text(p)),
    }
}

fn step(st: &mut St, a: &Value, cfg: &str) -> Value {
    let kind = a["a"].as_str().unwrap_or("");
    let (mut out, mut msg) = ("ok", String::new());
    let sql: String;
    let (mut fok, mut file) = (0i64, json!([]));
    match kind {
        "reset" => {
            st.ex = SqlExecutor::new(None).expect("new executor");
            st.last = String::new();
            sql = "new session".to_string();
        }
        "create" => {
            let cols: Vec<String> = a["cols"]
                .as_array()
                .unwrap()
                .iter()
                .map(|c| {
                    let ty = match c["ty"].as_str().unwrap_or("s") {
                        "i" => "INTEGER",
                        "f" => "DOUBLE PRECISION",
                        _ => "VARCHAR(100)",
                    };
                    format!("{} {}", text_of(&c["n"]), ty)
                })
                .collect();
            sql = format!("CREATE TABLE {} ({})", a["t"].as_str().unwrap_or(""), cols.join(", "));
            let ex = &mut st.ex;
            match catch_unwind(AssertUnwindSafe(|| ex.execute(&sql))) {
                Ok(Ok(_)) => {}
                Ok(Err(e)) => {
                    out = "err";
                    msg = e.to_string();
                }
                Err(p) => {
                    out = "panic";
                    msg = panic_text(p);
                }
            }
        }
        "fill" => {
            let t = a["t"].as_str().unwrap_or("").to_string();
            let rows: Vec<Vec<SqlValue>> = a["rows"].as_array().map(|r| r.iter().map(|row| row.as_array().unwrap().iter().map(concrete_value).collect()).collect()).unwrap_or_default();
            sql = format!("-- storage API: {} rows into {}: {}", rows.len(), t, show(&format!("{:?}", rows)));
            let db = st.ex.vq_db();
            for vals in rows {
                match catch_unwind(AssertUnwindSafe(|| db.insert_row(&t, vibesql_storage::Row::new(vals)))) {
                    Ok(Ok(_)) => {}
                    Ok(Err(e)) => {
                        out = "err";
                        msg = e.to_string();
                    }
                    Err(p) => {
                        out = "panic";
                        msg = panic_text(p);
                    }
                }
            }
        }
        "export" => {
            st.nfile += 1;
            let path = format!("{}/f{}.{}", st.dir, st.nfile, a["fmt"].as_str().unwrap_or("csv"));
            let _ = std::fs::remove_file(&path);
            let line = format!("\\copy {} TO '{}'", a["t"].as_str().unwrap_or(""), path);
            let (o, m) = run_copy(&mut st.ex, &line);
            out = o;
            msg = m;
            let (k, f, s) = read_file(&path);
            fok = k;
            file = f;
            sql = format!("\\copy {} TO f.{} -- wrote: {}", a["t"].as_str().unwrap_or(""), a["fmt"].as_str().unwrap_or(""), show(&s));
            st.last = path;
        }
        "import" => {
            let path = if a["src"].as_str() == Some("text") {
                st.nfile += 1;
                let p = format!("{}/f{}.{}", st.dir, st.nfile, a["fmt"].as_str().unwrap_or("csv"));
                std::fs::write(&p, text_of(&a["text"]).as_bytes()).expect("write import file");
                p
            } else {
                st.last.clone()
            };
            let (k, f, s) = read_file(&path);
            fok = k;
            file = f;
            let line = format!("\\copy {} FROM '{}'", a["t"].as_str().unwrap_or(""), path);
            let (o, m) = run_copy(&mut st.ex, &line);
            out = o;
            msg = m;
            sql = format!("\\copy {} FROM f.{} -- file: {}", a["t"].as_str().unwrap_or(""), a["fmt"].as_str().unwrap_or(""), show(&s));
            if a["src"].as_str() == Some("text") {
                let _ = std::fs::remove_file(&path);
            }
        }
        x => panic!("unknown action {}", x),
    }
    let ex = &mut st.ex;
    let db = catch_unwind(AssertUnwindSafe(|| project_db(ex))).unwrap_or_else(|_| json!([]));
    json!({"a": a, "out": out, "cfg": cfg, "fok": fok, "file": file, "db": db, "msg": msg, "sql": sql})
}

fn main() {
    vq::quiet_panics();
    let args: Vec<String> = std::env::args().collect();
    let (mut inp, mut out, mut cfg, mut tmp) = (String::new(), String::new(), "default".to_string(), "/verif/run/tmp_cli".to_string());
    let mut i = 1;
    while i < args.len() {
        match args[i].as_str() {
            "--in" => { inp = args[i + 1].clone(); i += 1; }
            "--out" => { out = args[i + 1].clone(); i += 1; }
            "--cfg" => { cfg = args[i + 1].clone(); i += 1; }
            "--tmp" => { tmp = args[i + 1].clone(); i += 1; }
            x => { eprintln!("unknown arg {}", x); std::process::exit(2); }
        }
        i += 1;
    }
    let dir = format!("{}/p{}", tmp, std::process::id());
    std::fs::create_dir_all(&dir).expect("create temp dir");
    let scen = vq::read_ndjson(&inp);
    let mut w = BufWriter::new(std::fs::File::create(&out).expect("create out"));
    let mut st = St { ex: SqlExecutor::new(None).expect("new executor"), dir: dir.clone(), nfile: 0, last: String::new() };
    let mut n = 0usize;
    for sc in &scen {
        let id = sc["id"].clone();
        let mut ev = step(&mut st, &json!({"a": "reset"}), &cfg);
        ev["sc"] = id.clone();
        ev["i"] = json!(0);
        vq::write_line(&mut w, &ev);
        if let Some(steps) = sc["steps"].as_array() {
            for (k, a) in steps.iter().enumerate() {
                let mut ev = step(&mut st, a, &cfg);
                ev["sc"] = id.clone();
                ev["i"] = json!(k + 1);
                vq::write_line(&mut w, &ev);
                n += 1;
            }
        }
    }
    let _ = std::fs::remove_dir_all(&dir);
    eprintln!("vq-cli: {} scenarios, {} events", scen.len(), n);
}
