//! vq-load <fmt> <path>: load one database file; exit 0 = loaded, 1 = error returned, 3 = panic.
//! Run as a child process by vq-run's corruptload action so that aborts, huge allocations and hangs are observable.
fn main() {
    let args: Vec<String> = std::env::args().collect();
    if args.len() < 3 {
        std::process::exit(2);
    }
    let (fmt, path) = (args[1].clone(), args[2].clone());
    let r = std::panic::catch_unwind(move || -> Result<(), String> {
        use vibesql_storage::Database;
        match fmt.as_str() {
            "binary" => Database::load_binary(&path).map(|_| ()).map_err(|e| e.to_string()),
            "compressed" => Database::load_compressed(&path).map(|_| ()).map_err(|e| e.to_string()),
            "json" => Database::load_json(&path).map(|_| ()).map_err(|e| e.to_string()),
            "sql" => vibesql_executor::load_sql_dump(&path).map(|_| ()).map_err(|e| e.to_string()),
            "auto" => Database::load(&path).map(|_| ()).map_err(|e| e.to_string()),
            _ => Err("unknown format".into()),
        }
    });
    match r {
        Ok(Ok(())) => std::process::exit(0),
        Ok(Err(m)) => {
            eprintln!("{}", m.chars().take(200).collect::<String>());
            std::process::exit(1)
        }
        Err(_) => std::process::exit(3),
    }
}
