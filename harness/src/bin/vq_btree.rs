//! vq_btree: replay B+ tree scenarios (C17) on vibesql_storage::btree::BTreeIndex over a PageManager on a
//! temporary directory and record one ndjson event per call.
//!
//! usage: vq_btree --in scenarios.ndjson --out events.ndjson [--cfg name] [--storage nosync|native]
//!
//! scenario line: {"id": "...", "steps": [hdr, call, ...]}
//!   hdr  = {"a":"new"|"bulk","schema":S,"nu":N,"stride":D,"pr":true,"ents":[[rank,rowid],..],
//!           "U":[key,..] (concrete keys, key = [{"t":"n|i|s","n":int,"c":[code points]},..]),
//!           "R":[[lo rank|0, hi rank|0, lo inclusive 0|1, hi inclusive 0|1],..], "M":[[rank,..],..]}
//!   call = {"a":"ins","k":rank,"r":rowid,"pr":bool} | {"a":"del","k":rank} | {"a":"dels","k":rank,"r":rowid}
//!        | {"a":"seq","ops":[[rank,rowid],..]} (a run of inserts) | {"a":"reload"} | {"a":"reopen"}
//! Keys are referred to by their rank (1-based position in U).  The harness holds no expectations: it turns ranks into
//! SqlValue keys, calls the public API and projects the answers back (row ids; decoded pages with keys as ranks).
//!
//! event: {"sc","i","a":<the step>,"cfg","sql","out":"ok|err|panic|abort|hang","ret":bool,"h":height,"deg":degree,
//!         "L":[[rowid..] per rank of U] (lookup), "Rg":[[rowid..] per range of R] (range_scan),
//!         "Mu":[[rowid..] per key list of M] (multi_lookup), "pe":[[kind,index,outcome],..] (failed probe calls),
//!         "dump":{"h","root","ok","nodes":[{"id","d","t":"I|L","ks":[rank..],"ch":[page..],"rs":[[rowid..]..],"nx"}]}}
//!
//! Panics of the code under test are data (catch_unwind -> "panic").  The replay itself runs in a child process with
//! an address-space limit and a progress watchdog, so that a runaway loop / allocation / stack overflow inside the
//! B+ tree ends as outcome "hang" / "abort" of that call and the run continues with the next scenario.
use serde_json::{json, Value};
use std::io::{BufRead, BufWriter, Cursor, Read, Write};
use std::panic::{catch_unwind, AssertUnwindSafe};
use std::path::{Path, PathBuf};
use std::sync::Arc;
use std::time::{Duration, Instant};
use vibesql_storage::btree::BTreeIndex;
use vibesql_storage::page::{PageManager, PAGE_SIZE};
use vibesql_storage::persistence::binary::value::read_sql_value;
use vibesql_storage::{NativeStorage, StorageBackend, StorageError, StorageFile};
use vibesql_types::{DataType, SqlValue};

type Key = Vec<SqlValue>;
const DB_FILE: &str = "t.db";
const HANG_SECS: u64 = 60;
const MEM_LIMIT_KB: u64 = 4_000_000;

// ------------------------------------------------------------------ concretisation
fn schema_of(name: &str) -> Vec<DataType> {
    match name {
        "v" => vec![DataType::Varchar { max_length: None }],
        "v6" => vec![DataType::Varchar { max_length: Some(150) }],
        "v9" => vec![DataType::Varchar { max_length: Some(100) }],
        "i" => vec![DataType::Integer],
        "iv" => vec![DataType::Integer, DataType::Varchar { max_length: None }],
        x => panic!("unknown schema {}", x),
    }
}

fn value_of(v: &Value) -> SqlValue {
    match v["t"].as_str().unwrap_or("") {
        "n" => SqlValue::Null,
        "i" => SqlValue::Integer(v["n"].as_i64().expect("int value")),
        "s" => SqlValue::Varchar(
            v["c"].as_array().expect("codes").iter().map(|c| char::from_u32(c.as_u64().unwrap() as u32).expect("code point")).collect(),
        ),
        x => panic!("unknown value kind {}", x),
    }
}

fn key_of(v: &Value) -> Key {
    v.as_array().expect("key").iter().map(value_of).collect()
}

fn show_key(k: &Key) -> String {
    let parts: Vec<String> = k
        .iter()
        .map(|v| match v {
            SqlValue::Null => "NULL".to_string(),
            SqlValue::Integer(i) => i.to_string(),
            SqlValue::Varchar(s) => format!("{:?}", s),
            o => format!("{:?}", o),
        })
        .collect();
    format!("({})", parts.join(","))
}

// ------------------------------------------------------------------ the object under test
struct Sut {
    dir: PathBuf,
    pm: Arc<PageManager>,
    idx: BTreeIndex,
}

/// NativeStorage with the fsync calls turned into no-ops (PageManager::write_page syncs after every page, ~1 ms each on
/// this disk): everything else - open/truncate, read_at, write_at - is the real backend.  `--storage native` uses
/// NativeStorage itself.
struct NoSyncFile(Box<dyn StorageFile>);
impl StorageFile for NoSyncFile {
    fn read_at(&mut self, offset: u64, buf: &mut [u8]) -> Result<usize, StorageError> { self.0.read_at(offset, buf) }
    fn write_at(&mut self, offset: u64, buf: &[u8]) -> Result<usize, StorageError> { self.0.write_at(offset, buf) }
    fn sync_all(&mut self) -> Result<(), StorageError> { Ok(()) }
    fn sync_data(&mut self) -> Result<(), StorageError> { Ok(()) }
    fn size(&self) -> Result<u64, StorageError> { self.0.size() }
}
struct NoSyncStorage(NativeStorage);
impl StorageBackend for NoSyncStorage {
    fn create_file(&self, path: &str) -> Result<Box<dyn StorageFile>, StorageError> { Ok(Box::new(NoSyncFile(self.0.create_file(path)?))) }
    fn open_file(&self, path: &str) -> Result<Box<dyn StorageFile>, StorageError> { Ok(Box::new(NoSyncFile(self.0.open_file(path)?))) }
    fn delete_file(&self, path: &str) -> Result<(), StorageError> { self.0.delete_file(path) }
    fn file_exists(&self, path: &str) -> bool { self.0.file_exists(path) }
    fn file_size(&self, path: &str) -> Result<u64, StorageError> { self.0.file_size(path) }
}

static NATIVE: std::sync::atomic::AtomicBool = std::sync::atomic::AtomicBool::new(false);

fn open_pm(dir: &Path) -> Result<Arc<PageManager>, String> {
    let native = NativeStorage::new(dir).map_err(es)?;
    let storage: Arc<dyn StorageBackend> =
        if NATIVE.load(std::sync::atomic::Ordering::Relaxed) { Arc::new(native) } else { Arc::new(NoSyncStorage(native)) };
    Ok(Arc::new(PageManager::new(DB_FILE, storage).map_err(es)?))
}

/// outcome class + message of a fallible call executed under catch_unwind
fn guarded<T>(f: impl FnOnce() -> Result<T, String>) -> (String, Option<T>, String) {
    match catch_unwind(AssertUnwindSafe(f)) {
        Ok(Ok(v)) => ("ok".into(), Some(v), String::new()),
        Ok(Err(m)) => ("err".into(), None, m),
        Err(p) => {
            let m = p.downcast_ref::<String>().cloned().or_else(|| p.downcast_ref::<&str>().map(|s| s.to_string())).unwrap_or_default();
            ("panic".into(), None, m)
        }
    }
}

fn es<E: std::fmt::Debug>(e: E) -> String {
    format!("{:?}", e)
}

// ------------------------------------------------------------------ projection: page structure -> ranks
fn rank_of(ukeys: &[Key], k: &Key) -> u64 {
    ukeys.iter().position(|u| u == k).map(|p| p as u64 + 1).unwrap_or(0)
}

fn read_u16(c: &mut Cursor<&[u8]>) -> Result<u16, String> {
    let mut b = [0u8; 2];
    c.read_exact(&mut b).map_err(es)?;
    Ok(u16::from_le_bytes(b))
}

fn read_u64(c: &mut Cursor<&[u8]>) -> Result<u64, String> {
    let mut b = [0u8; 8];
    c.read_exact(&mut b).map_err(es)?;
    Ok(u64::from_le_bytes(b))
}

fn read_varint(c: &mut Cursor<&[u8]>) -> Result<u64, String> {
    let (mut v, mut shift) = (0u64, 0u32);
    loop {
        let mut b = [0u8; 1];
        c.read_exact(&mut b).map_err(es)?;
        v |= ((b[0] & 0x7f) as u64) << shift;
        if b[0] & 0x80 == 0 {
            return Ok(v);
        }
        shift += 7;
        if shift > 56 {
            return Err("varint".into());
        }
    }
}

fn read_key(c: &mut Cursor<&[u8]>) -> Result<Key, String> {
    let n = read_u16(c)? as usize;
    if n > 16 {
        return Err("key arity".into());
    }
    let mut k = Vec::with_capacity(n);
    for _ in 0..n {
        k.push(read_sql_value(c).map_err(es)?);
    }
    Ok(k)
}

/// Decode one page (layout of btree/serialize.rs: type u8, count u16, keys, children | entries, next_leaf).
fn decode_page(pm: &PageManager, id: u64, depth: u64, ukeys: &[Key]) -> Result<Value, String> {
    let page = pm.read_page(id).map_err(es)?;
    if page.data.len() != PAGE_SIZE {
        return Err("page size".into());
    }
    let mut c = Cursor::new(&page.data[..]);
    let mut t = [0u8; 1];
    c.read_exact(&mut t).map_err(es)?;
    let n = read_u16(&mut c)? as usize;
    if n > 2000 {
        return Err("count".into());
    }
    match t[0] {
        1 => {
            let mut ks = Vec::new();
            for _ in 0..n {
                ks.push(rank_of(ukeys, &read_key(&mut c)?));
            }
            let mut ch = Vec::new();
            for _ in 0..=n {
                ch.push(read_u64(&mut c)?);
            }
            Ok(json!({"id": id, "d": depth, "t": "I", "ks": ks, "ch": ch, "rs": [], "nx": 0}))
        }
        2 => {
            let (mut ks, mut rs) = (Vec::new(), Vec::new());
            for _ in 0..n {
                ks.push(rank_of(ukeys, &read_key(&mut c)?));
                let m = read_varint(&mut c)? as usize;
                if m > 4096 {
                    return Err("row id count".into());
                }
                let mut r = Vec::new();
                for _ in 0..m {
                    r.push(read_u64(&mut c)?);
                }
                rs.push(r);
            }
            let nx = read_u64(&mut c)?;
            Ok(json!({"id": id, "d": depth, "t": "L", "ks": ks, "ch": [], "rs": rs, "nx": nx}))
        }
        x => Err(format!("page type {}", x)),
    }
}

fn dump(sut: &Sut, ukeys: &[Key]) -> Value {
    let h = sut.idx.height() as u64;
    let root = sut.idx.root_page_id();
    let mut nodes: Vec<Value> = Vec::new();
    let mut ok = true;
    // depth-first, left to right, by the page-type byte; bounded by the recorded height (+1) and a node budget
    let mut stack: Vec<(u64, u64)> = vec![(root, 1)];
    while let Some((id, depth)) = stack.pop() {
        if nodes.len() > 4000 || depth > h + 1 {
            ok = false;
            break;
        }
        let r = catch_unwind(AssertUnwindSafe(|| decode_page(&sut.pm, id, depth, ukeys)));
        match r {
            Ok(Ok(n)) => {
                if n["t"] == "I" {
                    for c in n["ch"].as_array().unwrap().iter().rev() {
                        stack.push((c.as_u64().unwrap(), depth + 1));
                    }
                }
                nodes.push(n);
            }
            _ => {
                ok = false;
                nodes.push(json!({"id": id, "d": depth, "t": "?", "ks": [], "ch": [], "rs": [], "nx": 0}));
            }
        }
    }
    json!({"h": h, "root": root, "ok": ok, "nodes": nodes})
}

// ------------------------------------------------------------------ probes
fn probes(sut: &Sut, ukeys: &[Key], hdr: &Value, ev: &mut Value) {
    let mut pe: Vec<Value> = Vec::new();
    let mut l = Vec::new();
    for (i, k) in ukeys.iter().enumerate() {
        let (out, v, _) = guarded(|| sut.idx.lookup(k).map_err(es));
        if out != "ok" {
            pe.push(json!(["look", i + 1, out]));
        }
        l.push(v.unwrap_or_default());
    }
    let key_at = |r: &Value| -> Option<&Key> {
        let x = r.as_u64().unwrap_or(0) as usize;
        if x == 0 { None } else { Some(&ukeys[x - 1]) }
    };
    let mut rg = Vec::new();
    for (i, r) in hdr["R"].as_array().map(|a| a.as_slice()).unwrap_or(&[]).iter().enumerate() {
        let (lo, hi) = (key_at(&r[0]), key_at(&r[1]));
        let (li, ri) = (r[2].as_u64().unwrap() == 1, r[3].as_u64().unwrap() == 1);
        let (out, v, _) = guarded(|| sut.idx.range_scan(lo, hi, li, ri).map_err(es));
        if out != "ok" {
            pe.push(json!(["range", i + 1, out]));
        }
        rg.push(v.unwrap_or_default());
    }
    let mut mu = Vec::new();
    for (i, ks) in hdr["M"].as_array().map(|a| a.as_slice()).unwrap_or(&[]).iter().enumerate() {
        let keys: Vec<Key> = ks.as_array().unwrap().iter().map(|x| ukeys[x.as_u64().unwrap() as usize - 1].clone()).collect();
        let (out, v, _) = guarded(|| sut.idx.multi_lookup(&keys).map_err(es));
        if out != "ok" {
            pe.push(json!(["multi", i + 1, out]));
        }
        mu.push(v.unwrap_or_default());
    }
    ev["L"] = json!(l);
    ev["Rg"] = json!(rg);
    ev["Mu"] = json!(mu);
    ev["pe"] = json!(pe);
    ev["h"] = json!(sut.idx.height());
    ev["deg"] = json!(sut.idx.degree());
    ev["dump"] = dump(sut, ukeys);
}

/// the step as echoed in the event: the universe and the battery of the header are not repeated (the validator
/// recomputes them from schema / nu / stride)
fn echo(a: &Value) -> Value {
    let mut a = a.clone();
    if let Some(o) = a.as_object_mut() {
        o.remove("U");
        o.remove("R");
        o.remove("M");
    }
    a
}

fn ranks_of(list: &Value) -> String {
    let r: Vec<u64> = list.as_array().map(|x| x.iter().map(|e| e[0].as_u64().unwrap_or(0)).collect()).unwrap_or_default();
    if r.len() > 40 { format!("{:?} .. {:?} ({} entries)", &r[..6], &r[r.len() - 3..], r.len()) } else { format!("{:?}", r) }
}

fn render(a: &Value, ukeys: &[Key]) -> String {
    let k = |f: &str| -> String {
        let r = a[f].as_u64().unwrap_or(0) as usize;
        if r >= 1 && r <= ukeys.len() { format!("#{} {}", r, show_key(&ukeys[r - 1])) } else { format!("#{}", r) }
    };
    match a["a"].as_str().unwrap_or("") {
        "new" => format!("new(schema {}, universe of {} keys)", a["schema"].as_str().unwrap_or(""), a["nu"]),
        "bulk" => format!(
            "bulk_load(schema {}, universe {}, {} entries: ranks {})",
            a["schema"].as_str().unwrap_or(""),
            a["nu"],
            a["ents"].as_array().map(|x| x.len()).unwrap_or(0),
            ranks_of(&a["ents"])
        ),
        "ins" => format!("insert({}, rid {})", k("k"), a["r"]),
        "seq" => format!("insert x{}: ranks {}", a["ops"].as_array().map(|x| x.len()).unwrap_or(0), ranks_of(&a["ops"])),
        "del" => format!("delete({})", k("k")),
        "dels" => format!("delete_specific({}, rid {})", k("k"), a["r"]),
        "reload" => "BTreeIndex::load(same PageManager)".to_string(),
        "reopen" => "PageManager::flush; drop index + PageManager; PageManager::new(same file); BTreeIndex::load".to_string(),
        x => x.to_string(),
    }
}

// ------------------------------------------------------------------ scenario input, read lazily (inputs can be large:
// the worker must produce its first event quickly, the supervisor's watchdog measures progress of the output)
fn scenario_lines(path: &str) -> impl Iterator<Item = String> {
    let f = std::fs::File::open(path).unwrap_or_else(|e| panic!("open {}: {}", path, e));
    std::io::BufReader::new(f).lines().map_while(Result::ok).filter(|l| !l.trim().is_empty())
}

fn parse_scenario(line: &str) -> Value {
    serde_json::from_str(line).unwrap_or_else(|e| panic!("bad scenario line: {}", e))
}

// ------------------------------------------------------------------ worker: replays scenarios start.. in this process
fn worker(inp: &str, out: &str, cfg: &str, start: usize) {
    vq::quiet_panics();
    let tmp_root = PathBuf::from(format!("{}.tmpd", out));
    std::fs::create_dir_all(&tmp_root).expect("tmp root");
    let mut w = BufWriter::new(std::fs::File::create(out).expect("create out"));
    let mut emit = |ev: &Value| {
        vq::write_line(&mut w, ev);
        w.flush().unwrap();
    };
    for line in scenario_lines(inp).skip(start) {
        let sc = parse_scenario(&line);
        let id = sc["id"].clone();
        emit(&json!({"a": {"a": "reset"}, "sc": id, "i": 0, "out": "ok", "cfg": cfg, "sql": "reset"}));
        let steps = sc["steps"].as_array().cloned().unwrap_or_default();
        let hdr = steps.first().cloned().unwrap_or(json!({}));
        let ukeys: Vec<Key> = hdr["U"].as_array().map(|u| u.iter().map(key_of).collect()).unwrap_or_default();
        let tdir = tempfile::Builder::new().prefix("bt").tempdir_in(&tmp_root).expect("tempdir");
        let mut sut: Option<Sut> = None;
        for (n, a) in steps.iter().enumerate() {
            let kind = a["a"].as_str().unwrap_or("").to_string();
            let mut ev = json!({"sc": id, "i": n + 1, "a": echo(a), "cfg": cfg, "sql": render(a, &ukeys), "ret": false});
            if n == 0 {
                ev["un"] = json!(ukeys.len());
                ev["rn"] = json!(hdr["R"].as_array().map(|x| x.len()).unwrap_or(0));
                ev["mn"] = json!(hdr["M"].as_array().map(|x| x.len()).unwrap_or(0));
            }
            let key = |f: &str| -> Key { ukeys[a[f].as_u64().expect("rank") as usize - 1].clone() };
            let rid = || a["r"].as_u64().expect("row id") as usize;
            let (out, msg): (String, String) = match kind.as_str() {
                "new" | "bulk" => {
                    let schema = schema_of(a["schema"].as_str().unwrap_or(""));
                    let dir = tdir.path().to_path_buf();
                    let ents: Vec<(Key, usize)> = a["ents"]
                        .as_array()
                        .map(|es| es.iter().map(|e| (ukeys[e[0].as_u64().unwrap() as usize - 1].clone(), e[1].as_u64().unwrap() as usize)).collect())
                        .unwrap_or_default();
                    let (o, v, m) = guarded(|| {
                        let pm = open_pm(&dir)?;
                        let idx = if kind == "new" { BTreeIndex::new(pm.clone(), schema).map_err(es)? } else { BTreeIndex::bulk_load(ents, schema, pm.clone()).map_err(es)? };
                        Ok(Sut { dir: dir.clone(), pm, idx })
                    });
                    sut = v;
                    (o, m)
                }
                "ins" => {
                    let s = sut.as_mut().expect("no index");
                    let (o, _, m) = guarded(|| s.idx.insert(key("k"), rid()).map_err(es));
                    (o, m)
                }
                "seq" => {
                    let s = sut.as_mut().expect("no index");
                    let ops: Vec<(Key, usize)> = a["ops"].as_array().expect("ops").iter()
                        .map(|e| (ukeys[e[0].as_u64().unwrap() as usize - 1].clone(), e[1].as_u64().unwrap() as usize)).collect();
                    let (o, _, m) = guarded(|| {
                        for (k, r) in ops {
                            s.idx.insert(k, r).map_err(es)?;
                        }
                        Ok(())
                    });
                    (o, m)
                }
                "del" => {
                    let s = sut.as_mut().expect("no index");
                    let (o, v, m) = guarded(|| s.idx.delete(&key("k")).map_err(es));
                    ev["ret"] = json!(v.unwrap_or(false));
                    (o, m)
                }
                "dels" => {
                    let s = sut.as_mut().expect("no index");
                    let (o, v, m) = guarded(|| s.idx.delete_specific(&key("k"), rid()).map_err(es));
                    ev["ret"] = json!(v.unwrap_or(false));
                    (o, m)
                }
                "reload" => {
                    let s = sut.take().expect("no index");
                    let (dir, pm) = (s.dir.clone(), s.pm.clone());
                    drop(s.idx);
                    let (o, v, m) = guarded(|| BTreeIndex::load(pm.clone()).map_err(es));
                    sut = v.map(|idx| Sut { dir, pm, idx });
                    (o, m)
                }
                "reopen" => {
                    // clean close: flush the page manager (its only persistence call), drop index and manager, then
                    // open the same file again and load the index from its metadata page
                    let s = sut.take().expect("no index");
                    let dir = s.dir.clone();
                    let (fo, _, fm) = guarded(|| s.pm.flush().map_err(es));
                    if fo != "ok" {
                        ev["flush"] = json!(format!("{} {}", fo, fm));
                    }
                    drop(s);
                    let (o, v, m) = guarded(|| {
                        let pm = open_pm(&dir)?;
                        let idx = BTreeIndex::load(pm.clone()).map_err(es)?;
                        Ok(Sut { dir: dir.clone(), pm, idx })
                    });
                    sut = v;
                    (o, m)
                }
                x => panic!("unknown action {}", x),
            };
            ev["out"] = json!(out);
            if !msg.is_empty() {
                ev["msg"] = json!(msg.chars().take(200).collect::<String>());
            }
            if out == "ok" && a["pr"].as_bool().unwrap_or(false) {
                probes(sut.as_ref().unwrap(), &ukeys, &hdr, &mut ev);
            } else if out == "ok" {
                // shape of the tree after a call without probes (evidence of the structural transitions only; not validated)
                let d = dump(sut.as_ref().unwrap(), &ukeys);
                let nodes = d["nodes"].as_array().cloned().unwrap_or_default();
                let lv: Vec<Value> = nodes.iter().filter(|n| n["t"] == "L").map(|n| json!([n["id"], n["ks"]])).collect();
                let inn: Vec<Value> = nodes.iter().filter(|n| n["t"] == "I").map(|n| json!([n["id"], n["ch"]])).collect();
                ev["sh"] = json!({"h": d["h"], "in": inn, "lv": lv});
            }
            emit(&ev);
            if out != "ok" {
                break; // the object is in an unknown state: the rest of the scenario is not executed
            }
        }
        drop(sut);
        drop(tdir);
    }
}

// ------------------------------------------------------------------ supervisor
fn complete_lines(path: &str) -> Vec<String> {
    let mut res = Vec::new();
    if let Ok(f) = std::fs::File::open(path) {
        for l in std::io::BufReader::new(f).lines().map_while(Result::ok) {
            if serde_json::from_str::<Value>(&l).is_ok() {
                res.push(l);
            } else {
                break;
            }
        }
    }
    res
}

fn main() {
    let args: Vec<String> = std::env::args().collect();
    let (mut inp, mut out, mut cfg, mut is_worker, mut start) = (String::new(), String::new(), "default".to_string(), false, 0usize);
    let mut storage = "nosync".to_string();
    let mut i = 1;
    while i < args.len() {
        match args[i].as_str() {
            "--in" => { inp = args[i + 1].clone(); i += 1; }
            "--out" => { out = args[i + 1].clone(); i += 1; }
            "--cfg" => { cfg = args[i + 1].clone(); i += 1; }
            "--start" => { start = args[i + 1].parse().unwrap(); i += 1; }
            "--worker" => is_worker = true,
            "--storage" => { NATIVE.store(args[i + 1] == "native", std::sync::atomic::Ordering::Relaxed); storage = args[i + 1].clone(); i += 1; }
            x => { eprintln!("unknown arg {}", x); std::process::exit(2); }
        }
        i += 1;
    }
    if is_worker {
        worker(&inp, &out, &cfg, start);
        return;
    }
    let nscen = scenario_lines(&inp).count();
    let exe = std::env::current_exe().expect("exe");
    let part = format!("{}.part", out);
    let mut w = BufWriter::new(std::fs::File::create(&out).expect("create out"));
    let (mut next, mut nev, mut incidents) = (0usize, 0usize, 0usize);
    while next < nscen {
        let _ = std::fs::remove_file(&part);
        let script = format!("ulimit -v {} 2>/dev/null; exec \"$0\" \"$@\"", MEM_LIMIT_KB);
        let mut child = std::process::Command::new("sh")
            .arg("-c").arg(&script).arg(&exe)
            .args(["--worker", "--in", &inp, "--out", &part, "--cfg", &cfg, "--storage", &storage, "--start", &next.to_string()])
            .spawn()
            .expect("spawn worker");
        let (mut last_len, mut last_change, mut hung) = (0u64, Instant::now(), false);
        let status = loop {
            if let Some(st) = child.try_wait().expect("wait") {
                break Some(st);
            }
            let len = std::fs::metadata(&part).map(|m| m.len()).unwrap_or(0);
            if len != last_len {
                last_len = len;
                last_change = Instant::now();
            } else if last_change.elapsed() > Duration::from_secs(HANG_SECS) {
                let _ = child.kill();
                let _ = child.wait();
                hung = true;
                break None;
            }
            std::thread::sleep(Duration::from_millis(15));
        };
        let lines = complete_lines(&part);
        for l in &lines {
            w.write_all(l.as_bytes()).unwrap();
            w.write_all(b"\n").unwrap();
        }
        nev += lines.len();
        if !hung && status.map(|s| s.success()).unwrap_or(false) {
            break;
        }
        // the worker died or stalled: attribute it to the call that was in progress, go on with the next scenario
        incidents += 1;
        let resets = lines.iter().filter(|l| l.contains("\"a\":{\"a\":\"reset\"}")).count();
        let cur = if resets == 0 { next } else { next + resets - 1 };
        let last_i = lines.last().and_then(|l| serde_json::from_str::<Value>(l).ok()).map(|e| if resets == 0 { 0 } else { e["i"].as_u64().unwrap_or(0) as usize }).unwrap_or(0);
        if cur < nscen {
            let sc = parse_scenario(&scenario_lines(&inp).nth(cur).expect("scenario line"));
            if resets == 0 {
                vq::write_line(&mut w, &json!({"a": {"a": "reset"}, "sc": sc["id"], "i": 0, "out": "ok", "cfg": cfg, "sql": "reset"}));
            }
            let steps = sc["steps"].as_array().cloned().unwrap_or_default();
            if last_i < steps.len() {
                let a = &steps[last_i];
                let ukeys: Vec<Key> = steps[0]["U"].as_array().map(|u| u.iter().map(key_of).collect()).unwrap_or_default();
                vq::write_line(&mut w, &json!({"sc": sc["id"], "i": last_i + 1, "a": echo(a), "cfg": cfg, "un": 0, "rn": 0, "mn": 0, "sql": render(a, &ukeys), "ret": false,
                    "out": if hung { "hang" } else { "abort" }, "msg": format!("worker status {:?}", status)}));
                nev += 1;
            }
        }
        next = cur + 1;
    }
    w.flush().unwrap();
    let _ = std::fs::remove_file(&part);
    let _ = std::fs::remove_dir_all(format!("{}.tmpd", part));
    eprintln!("vq_btree: {} scenarios, {} events, {} worker incidents", nscen, nev, incidents);
}
