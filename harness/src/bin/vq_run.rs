//! vq-run: replay scenarios on the real engine, one event per action.
//! usage: vq-run --in scenarios.ndjson --out events.ndjson [--cfg name] [--elide-index] [--index-budget N] [--idx]
//! scenario line: {"id": "...", "steps": [action, ...]}   (a "reset" event is emitted first)
use serde_json::json;
use std::io::BufWriter;
use vq::exec::{Config, Engine};

fn main() {
    vq::quiet_panics();
    let args: Vec<String> = std::env::args().collect();
    let mut inp = String::new();
    let mut out = String::new();
    let mut cfg = Config::default();
    let mut i = 1;
    while i < args.len() {
        match args[i].as_str() {
            "--in" => { inp = args[i + 1].clone(); i += 1; }
            "--out" => { out = args[i + 1].clone(); i += 1; }
            "--cfg" => { cfg.name = args[i + 1].clone(); i += 1; }
            "--elide-index" => cfg.elide_index = true,
            "--index-budget" => { cfg.index_budget = args[i + 1].parse().unwrap(); i += 1; }
            "--idx" => cfg.index_contents = true,
            "--twice" => cfg.twice = true,
            "--no-state" => cfg.no_state = true,
            "--own-dir" => cfg.own_dir = true,
            "--exact-floats" => vq::val::EXACT_FLOATS.store(true, std::sync::atomic::Ordering::Relaxed),
            "--digest-above" => { cfg.digest_above = Some(args[i + 1].parse().unwrap()); i += 1; }
            x => { eprintln!("unknown arg {}", x); std::process::exit(2); }
        }
        i += 1;
    }
    let scen = vq::read_ndjson(&inp);
    let mut w = BufWriter::new(std::fs::File::create(&out).expect("create out"));
    let mut eng = Engine::new(cfg);
    let mut n = 0usize;
    for sc in &scen {
        let id = sc["id"].clone();
        let mut ev = eng.step(&json!({"a": "reset"}));
        ev["sc"] = id.clone();
        ev["i"] = json!(0);
        vq::write_line(&mut w, &ev);
        if let Some(steps) = sc["steps"].as_array() {
            for (k, a) in steps.iter().enumerate() {
                let mut ev = eng.step(a);
                if ev["out"] == "skip" {
                    continue; // action elided under this configuration: no event
                }
                ev["sc"] = id.clone();
                ev["i"] = json!(k + 1);
                vq::write_line(&mut w, &ev);
                n += 1;
            }
        }
    }
    eprintln!("vq-run: {} scenarios, {} events", scen.len(), n);
}
