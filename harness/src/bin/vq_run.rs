//! vq-run: replay scenarios on the real engine, one event per action.
//! usage: vq-run --in scenarios.ndjson --out events.ndjson [--cfg name] [--elide-index] [--index-budget N] [--idx]
//! scenario line: {"id": "...", "steps": [action, ...]}   (a "reset" event is emitted first)
use serde_json::json;
use std::io::BufWriter;
use vq::exec::{Config, Engine};

fn main() {
    vq::quiet_panics();
    let args: Vec<String> = std::env::args().collect();
    let mut inp = String::new();
    let mut out = String::new();
    let mut cfg = Config::default();
    let mut isolate = false; // run every scenario in a child process (statements that may abort, exhaust memory or hang)
    let mut flush = false;
    let mut i = 1;
    while i < args.len() {
        match args[i].as_str() {
            "--in" => { inp = args[i + 1].clone(); i += 1; }
            "--out" => { out = args[i + 1].clone(); i += 1; }
            "--cfg" => { cfg.name = args[i + 1].clone(); i += 1; }
            "--elide-index" => cfg.elide_index = true,
            "--index-budget" => { cfg.index_budget = args[i + 1].parse().unwrap(); i += 1; }
            "--idx" => cfg.index_contents = true,
            "--twice" => cfg.twice = true,
            "--no-state" => cfg.no_state = true,
            "--own-dir" => cfg.own_dir = true,
            "--isolate" => isolate = true,
            "--flush" => flush = true,
            "--exact-floats" => vq::val::EXACT_FLOATS.store(true, std::sync::atomic::Ordering::Relaxed),
            "--digest-above" => { cfg.digest_above = Some(args[i + 1].parse().unwrap()); i += 1; }
            x => { eprintln!("unknown arg {}", x); std::process::exit(2); }
        }
        i += 1;
    }
    let scen = vq::read_ndjson(&inp);
    let mut w = BufWriter::new(std::fs::File::create(&out).expect("create out"));
    if isolate {
        // one child per scenario: address space limited to 4 GB, 60 s wall clock; what the child logged before it died is
        // kept, the step it died in is logged with the outcome abort / hang
        let exe = std::env::current_exe().expect("exe");
        let pass: Vec<String> = args[1..].iter().filter(|a| a.as_str() != "--isolate").cloned().collect();
        let dir = tempfile::tempdir().expect("tempdir");
        let mut n = 0usize;
        for sc in &scen {
            let one_in = dir.path().join("in.ndjson");
            let one_out = dir.path().join("out.ndjson");
            std::fs::write(&one_in, format!("{}\n", sc)).expect("write scenario");
            let _ = std::fs::remove_file(&one_out);
            let mut cmd = format!("ulimit -v 4000000; exec timeout 60 {}", exe.display());
            let mut k = 0;
            while k < pass.len() {
                match pass[k].as_str() {
                    "--in" => { cmd += &format!(" --in {}", one_in.display()); k += 1; }
                    "--out" => { cmd += &format!(" --out {}", one_out.display()); k += 1; }
                    x => cmd += &format!(" {}", x),
                }
                k += 1;
            }
            cmd += " --flush";
            let status = std::process::Command::new("sh").arg("-c").arg(&cmd).stderr(std::process::Stdio::null()).status();
            let text = std::fs::read_to_string(&one_out).unwrap_or_default();
            let mut last_i = -1i64;
            for line in text.lines() {
                if let Ok(v) = serde_json::from_str::<serde_json::Value>(line) {
                    last_i = v["i"].as_i64().unwrap_or(last_i);
                    vq::write_line(&mut w, &v);
                    n += 1;
                }
            }
            let code = status.ok().and_then(|s| s.code());
            if code != Some(0) {
                let steps = sc["steps"].as_array().cloned().unwrap_or_default();
                let next = (last_i + 1).max(1) as usize;
                if next <= steps.len() {
                    let cls = if code == Some(124) { "hang" } else { "abort" };
                    let a = &steps[next - 1];
                    let ev = json!({"sc": sc["id"], "i": next, "a": a, "sql": vq::render::action(a), "out": cls, "cnt": 0, "rows": [],
                                    "msg": format!("child exit {:?}", code), "st": {}, "cfg": cfg.name, "o": {"k": "panic", "a": 0, "n": 0}});
                    vq::write_line(&mut w, &ev);
                    n += 1;
                }
            }
        }
        eprintln!("vq-run (isolated): {} scenarios, {} events", scen.len(), n);
        return;
    }
    let mut eng = Engine::new(cfg);
    let mut n = 0usize;
    for sc in &scen {
        let id = sc["id"].clone();
        let mut ev = eng.step(&json!({"a": "reset"}));
        ev["sc"] = id.clone();
        ev["i"] = json!(0);
        vq::write_line(&mut w, &ev);
        if let Some(steps) = sc["steps"].as_array() {
            for (k, a) in steps.iter().enumerate() {
                let mut ev = eng.step(a);
                if ev["out"] == "skip" {
                    continue; // action elided under this configuration: no event
                }
                ev["sc"] = id.clone();
                ev["i"] = json!(k + 1);
                vq::write_line(&mut w, &ev);
                if flush {
                    use std::io::Write;
                    let _ = w.flush();
                }
                n += 1;
            }
        }
    }
    eprintln!("vq-run: {} scenarios, {} events", scen.len(), n);
}
