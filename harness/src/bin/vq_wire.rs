//! vq_wire: RUN for C27 / C28.  Replays TLC-generated scenarios into the server's real protocol module
//! (compiled in from /repo's working tree - the server is a binary crate) and records one ndjson event per call.
//! No expected values live here: the harness only concretises the abstract actions (bytes in, message records in)
//! and projects the answers back (outcome class, decoded message, buffer contents); Wire.tla decides.
//!
//!   {"a":"feed","b":[bytes]}      append bytes to the connection's read buffer
//!   {"a":"dec","su":0|1}          FrontendMessage::decode / decode_startup on the read buffer
//!   {"a":"enc","m":{..}}          BackendMessage::encode into the connection's write buffer
//!
//! A panic of the code under test is data (out = "panic").  The decoder and the encoder neither recurse nor size an
//! allocation by an untrusted length (checked by reading them), so catch_unwind is sufficient isolation here.
use std::collections::HashMap;
use std::io::BufWriter;
use std::panic::{catch_unwind, AssertUnwindSafe};

use bytes::BytesMut;
use serde_json::{json, Value};

#[allow(dead_code)]
#[path = "/repo/crates/vibesql-server/src/protocol/messages.rs"]
mod messages;
use messages::{BackendMessage, FieldDescription, FrontendMessage, TransactionStatus};

fn bytes_of(v: &Value) -> Vec<u8> {
    v.as_array().map(|a| a.iter().map(|x| x.as_u64().expect("byte") as u8).collect()).unwrap_or_default()
}

fn arr(b: &[u8]) -> Value {
    Value::Array(b.iter().map(|x| json!(*x)).collect())
}

fn string_of(v: &Value) -> String {
    String::from_utf8(bytes_of(v)).expect("scenario strings are valid UTF-8")
}

fn panic_text(p: Box<dyn std::any::Any + Send>) -> String {
    if let Some(s) = p.downcast_ref::<&str>() {
        s.to_string()
    } else if let Some(s) = p.downcast_ref::<String>() {
        s.clone()
    } else {
        "panic".to_string()
    }
}

fn show(b: &[u8]) -> String {
    b.iter()
        .map(|x| if (0x21..0x7f).contains(x) && *x != b'\\' { (*x as char).to_string() } else { format!("\\x{:02x}", x) })
        .collect()
}

fn no_msg() -> Value {
    json!({"t": "none", "s": [], "v": 0, "ps": []})
}

/// projection of a decoded frontend message into the vocabulary of Wire.tla
fn project(m: &FrontendMessage) -> Value {
    match m {
        FrontendMessage::Query { query } => json!({"t": "Q", "s": arr(query.as_bytes()), "v": 0, "ps": []}),
        FrontendMessage::Password { password } => json!({"t": "p", "s": arr(password.as_bytes()), "v": 0, "ps": []}),
        FrontendMessage::Terminate => json!({"t": "X", "s": [], "v": 0, "ps": []}),
        FrontendMessage::SSLRequest => json!({"t": "SSL", "s": [], "v": 0, "ps": []}),
        FrontendMessage::Startup { protocol_version, params } => {
            let mut ps: Vec<(&String, &String)> = params.iter().collect();
            ps.sort();
            let ps: Vec<Value> = ps.iter().map(|(k, v)| json!([arr(k.as_bytes()), arr(v.as_bytes())])).collect();
            json!({"t": "S", "s": [], "v": protocol_version, "ps": ps})
        }
    }
}

/// concretisation of an abstract backend message
fn concretise(m: &Value) -> BackendMessage {
    let rep = m["rep"].as_u64().unwrap_or(1) as usize;
    let i32f = |k: &str| m[k].as_i64().expect("int") as i32;
    match m["t"].as_str().expect("t") {
        "AuthOk" => BackendMessage::AuthenticationOk,
        "AuthClear" => BackendMessage::AuthenticationCleartextPassword,
        "AuthMD5" => {
            let b = bytes_of(&m["b"]);
            BackendMessage::AuthenticationMD5Password { salt: [b[0], b[1], b[2], b[3]] }
        }
        "ParamStatus" => BackendMessage::ParameterStatus { name: string_of(&m["s1"]), value: string_of(&m["s2"]) },
        "KeyData" => BackendMessage::BackendKeyData { process_id: i32f("n1"), secret_key: i32f("n2") },
        "Ready" => BackendMessage::ReadyForQuery {
            status: *[TransactionStatus::Idle, TransactionStatus::InTransaction, TransactionStatus::FailedTransaction]
                .iter()
                .find(|s| s.as_byte() as i64 == m["n1"].as_i64().unwrap())
                .expect("status byte"),
        },
        "RowDesc" => {
            let one: Vec<FieldDescription> = m["fl"]
                .as_array()
                .unwrap()
                .iter()
                .map(|f| FieldDescription {
                    name: string_of(&f["name"]),
                    table_oid: f["toid"].as_i64().unwrap() as i32,
                    column_attr_number: f["attr"].as_i64().unwrap() as i16,
                    data_type_oid: f["tyoid"].as_i64().unwrap() as i32,
                    data_type_size: f["tysz"].as_i64().unwrap() as i16,
                    type_modifier: f["tmod"].as_i64().unwrap() as i32,
                    format_code: f["fmt"].as_i64().unwrap() as i16,
                })
                .collect();
            let mut fields = Vec::with_capacity(one.len() * rep);
            for _ in 0..rep {
                fields.extend(one.iter().cloned());
            }
            BackendMessage::RowDescription { fields }
        }
        "DataRow" => {
            let one: Vec<Option<Vec<u8>>> = m["vl"]
                .as_array()
                .unwrap()
                .iter()
                .map(|v| if v["null"].as_i64() == Some(1) { None } else { Some(bytes_of(&v["b"])) })
                .collect();
            let mut values = Vec::with_capacity(one.len() * rep);
            for _ in 0..rep {
                values.extend(one.iter().cloned());
            }
            BackendMessage::DataRow { values }
        }
        "Complete" => BackendMessage::CommandComplete { tag: string_of(&m["s1"]) },
        t @ ("Error" | "Notice") => {
            let mut fields = HashMap::new();
            for kv in m["kv"].as_array().unwrap() {
                fields.insert(kv["k"].as_u64().unwrap() as u8, string_of(&kv["v"]));
            }
            if t == "Error" {
                BackendMessage::ErrorResponse { fields }
            } else {
                BackendMessage::NoticeResponse { fields }
            }
        }
        "Empty" => BackendMessage::EmptyQueryResponse,
        x => panic!("unknown backend message {}", x),
    }
}

struct Conn {
    rbuf: BytesMut,
    wbuf: BytesMut,
}

fn step(c: &mut Conn, a: &Value, cfg: &str) -> Value {
    match a["a"].as_str().unwrap_or("") {
        "reset" => {
            c.rbuf = BytesMut::new();
            c.wbuf = BytesMut::new();
            json!({"a": a, "out": "ok", "cfg": cfg, "m": no_msg(), "rem": [], "msg": "", "sql": "new connection"})
        }
        "feed" => {
            let b = bytes_of(&a["b"]);
            c.rbuf.extend_from_slice(&b);
            json!({"a": a, "out": "ok", "cfg": cfg, "m": no_msg(), "rem": arr(&c.rbuf), "msg": "", "sql": format!("feed {}", show(&b))})
        }
        "dec" => {
            let su = a["su"].as_i64() == Some(1);
            let before = show(&c.rbuf);
            let rbuf = &mut c.rbuf;
            let r = catch_unwind(AssertUnwindSafe(|| if su { FrontendMessage::decode_startup(rbuf) } else { FrontendMessage::decode(rbuf) }));
            let (out, m, msg) = match r {
                Ok(Ok(Some(m))) => ("msg", project(&m), format!("{:?}", m)),
                Ok(Ok(None)) => ("need", no_msg(), String::new()),
                Ok(Err(e)) => ("err", no_msg(), e.to_string()),
                Err(p) => ("panic", no_msg(), panic_text(p)),
            };
            // reading the buffer back after a panic is safe (BytesMut keeps its invariants across unwinding); guard anyway
            let rem = catch_unwind(AssertUnwindSafe(|| c.rbuf.to_vec())).unwrap_or_default();
            json!({"a": a, "out": out, "cfg": cfg, "m": m, "rem": arr(&rem), "msg": msg,
                   "sql": format!("{} on {}", if su { "decode_startup" } else { "decode" }, before)})
        }
        "enc" => {
            let m = concretise(&a["m"]);
            let wbuf = &mut c.wbuf;
            let r = catch_unwind(AssertUnwindSafe(|| m.encode(wbuf)));
            let (out, msg) = match r {
                Ok(()) => ("ok", String::new()),
                Err(p) => ("panic", panic_text(p)),
            };
            let buf = catch_unwind(AssertUnwindSafe(|| c.wbuf.to_vec())).unwrap_or_default();
            let mut d = format!("{:?}", m);
            if d.len() > 160 {
                let mut cut = 160;
                while !d.is_char_boundary(cut) {
                    cut -= 1;
                }
                d.truncate(cut);
                d.push_str("..");
            }
            let mut h = std::collections::hash_map::DefaultHasher::new();
            std::hash::Hash::hash(&a["m"].to_string(), &mut h);
            json!({"a": a, "out": out, "cfg": cfg, "buf": arr(&buf), "msg": msg,
                   "sql": format!("encode {} x{} #{:08x}", d, a["m"]["rep"], std::hash::Hasher::finish(&h) as u32)})
        }
        x => panic!("unknown action {}", x),
    }
}

fn main() {
    vq::quiet_panics();
    let args: Vec<String> = std::env::args().collect();
    let (mut inp, mut out, mut cfg) = (String::new(), String::new(), "default".to_string());
    let mut i = 1;
    while i < args.len() {
        match args[i].as_str() {
            "--in" => { inp = args[i + 1].clone(); i += 1; }
            "--out" => { out = args[i + 1].clone(); i += 1; }
            "--cfg" => { cfg = args[i + 1].clone(); i += 1; }
            x => { eprintln!("unknown arg {}", x); std::process::exit(2); }
        }
        i += 1;
    }
    let scen = vq::read_ndjson(&inp);
    let mut w = BufWriter::new(std::fs::File::create(&out).expect("create out"));
    let mut conn = Conn { rbuf: BytesMut::new(), wbuf: BytesMut::new() };
    let mut n = 0usize;
    for sc in &scen {
        let id = sc["id"].clone();
        let mut ev = step(&mut conn, &json!({"a": "reset"}), &cfg);
        ev["sc"] = id.clone();
        ev["i"] = json!(0);
        vq::write_line(&mut w, &ev);
        if let Some(steps) = sc["steps"].as_array() {
            for (k, a) in steps.iter().enumerate() {
                let mut ev = step(&mut conn, a, &cfg);
                ev["sc"] = id.clone();
                ev["i"] = json!(k + 1);
                vq::write_line(&mut w, &ev);
                n += 1;
            }
        }
    }
    eprintln!("vq-wire: {} scenarios, {} events", scen.len(), n);
}
