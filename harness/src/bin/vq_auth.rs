//! vq_auth: RUN for C29.  Replays TLC-generated scenarios into the server's real PasswordStore (auth/password.rs is
//! compiled in from /repo's working tree - the server is a binary crate) and records one ndjson event per call.
//! The harness holds no expected verdicts: it builds the store the way the abstract action says, passes the concrete
//! strings that lib/checks_wire.py computed for the abstract request (cu / cpw / cp / cresp: user, stored password,
//! presented password, MD5 response - the digests are made there with Python's hashlib, independently of the md-5
//! crate used by the code under test) and logs accept / reject / panic.  Auth.tla decides.
//!
//!   {"a":"add","mode":"api|hashed|md5|raw|badphc","cu":..,"cpw":..}   add_user / add_user_hashed
//!   {"a":"load","ents":[{"mode":"file_clear|file_md5|file_hashed","cu":..,"cpw":..}]}   load_from_file
//!   {"a":"clear","cu":..,"cp":..}                                       verify_cleartext
//!   {"a":"md5","cu":..,"cresp":..,"salt":[4 bytes]}                     verify_md5
use std::io::{BufWriter, Write};
use std::panic::{catch_unwind, AssertUnwindSafe};

use serde_json::{json, Value};

#[allow(dead_code)]
#[path = "/repo/crates/vibesql-server/src/auth/password.rs"]
mod password;
use password::{hash_password_argon2, PasswordStore};

fn panic_text(p: Box<dyn std::any::Any + Send>) -> String {
    if let Some(s) = p.downcast_ref::<&str>() {
        s.to_string()
    } else if let Some(s) = p.downcast_ref::<String>() {
        s.clone()
    } else {
        "panic".to_string()
    }
}

fn s<'a>(a: &'a Value, k: &str) -> &'a str {
    a[k].as_str().unwrap_or_else(|| panic!("scenario field {} missing (scenarios must be concretised by the check)", k))
}

fn stored_form(mode: &str, cpw: &str) -> Result<String, String> {
    Ok(match mode {
        "hashed" | "file_hashed" => hash_password_argon2(cpw).map_err(|e| e.to_string())?,
        "md5" | "file_md5" => format!("{{MD5}}{}", cpw),
        "raw" | "file_clear" => cpw.to_string(),
        "badphc" => format!("$argon2id$v=19${}", cpw),
        x => panic!("unknown mode {}", x),
    })
}

fn step(store: &mut PasswordStore, a: &Value, cfg: &str, tmp: &str) -> Value {
    let act = a["a"].as_str().unwrap_or("");
    let (out, msg, sql): (String, String, String) = match act {
        "reset" => {
            *store = PasswordStore::new();
            ("ok".into(), String::new(), "new store".into())
        }
        "add" => {
            let (mode, cu, cpw) = (s(a, "mode"), s(a, "cu"), s(a, "cpw"));
            let r = catch_unwind(AssertUnwindSafe(|| -> Result<(), String> {
                if mode == "api" {
                    store.add_user(cu.to_string(), cpw).map_err(|e| e.to_string())
                } else {
                    store.add_user_hashed(cu.to_string(), stored_form(mode, cpw)?);
                    Ok(())
                }
            }));
            let (o, m) = match r {
                Ok(Ok(())) => ("ok", String::new()),
                Ok(Err(e)) => ("err", e),
                Err(p) => ("panic", panic_text(p)),
            };
            (o.into(), m, format!("add {} user {:?} password {:?}", mode, cu, cpw))
        }
        "load" => {
            let mut text = String::from("# written by vq_auth\n\n");
            let mut d = Vec::new();
            for e in a["ents"].as_array().unwrap() {
                let (mode, cu, cpw) = (s(e, "mode"), s(e, "cu"), s(e, "cpw"));
                text.push_str(&format!("{}:{}\n", cu, stored_form(mode, cpw).expect("hash")));
                d.push(format!("{} {:?}:{:?}", mode, cu, cpw));
            }
            let path = format!("{}/pw_{}.txt", tmp, std::process::id());
            std::fs::File::create(&path).and_then(|mut f| f.write_all(text.as_bytes())).expect("write password file");
            let r = catch_unwind(AssertUnwindSafe(|| PasswordStore::load_from_file(&path)));
            let _ = std::fs::remove_file(&path);
            let (o, m) = match r {
                Ok(Ok(st)) => {
                    *store = st;
                    ("ok", String::new())
                }
                Ok(Err(e)) => ("err", e.to_string()),
                Err(p) => ("panic", panic_text(p)),
            };
            (o.into(), m, format!("load file [{}]", d.join(", ")))
        }
        "clear" => {
            let (cu, cp) = (s(a, "cu"), s(a, "cp"));
            let r = catch_unwind(AssertUnwindSafe(|| store.verify_cleartext(cu, cp)));
            let (o, m) = match r {
                Ok(true) => ("accept", String::new()),
                Ok(false) => ("reject", String::new()),
                Err(p) => ("panic", panic_text(p)),
            };
            (o.into(), m, format!("verify_cleartext({:?}, {:?})", cu, cp))
        }
        "md5" => {
            let (cu, cresp) = (s(a, "cu"), s(a, "cresp"));
            let sb: Vec<u8> = a["salt"].as_array().unwrap().iter().map(|x| x.as_u64().unwrap() as u8).collect();
            let salt = [sb[0], sb[1], sb[2], sb[3]];
            let r = catch_unwind(AssertUnwindSafe(|| store.verify_md5(cu, cresp, &salt)));
            let (o, m) = match r {
                Ok(true) => ("accept", String::new()),
                Ok(false) => ("reject", String::new()),
                Err(p) => ("panic", panic_text(p)),
            };
            (o.into(), m, format!("verify_md5({:?}, {:?} [{} of pw {:?} user {:?} salt {:?}], salt {:?})", cu, cresp,
                                  s(a, "form"), s(a, "dpw"), s(a, "du"), a["dsalt"].to_string(), salt))
        }
        x => panic!("unknown action {}", x),
    };
    json!({"a": a, "out": out, "cfg": cfg, "msg": msg, "sql": sql})
}

fn main() {
    vq::quiet_panics();
    let args: Vec<String> = std::env::args().collect();
    let (mut inp, mut out, mut cfg, mut tmp) = (String::new(), String::new(), "default".to_string(), "/verif/run/tmp_auth".to_string());
    let mut i = 1;
    while i < args.len() {
        match args[i].as_str() {
            "--in" => { inp = args[i + 1].clone(); i += 1; }
            "--out" => { out = args[i + 1].clone(); i += 1; }
            "--cfg" => { cfg = args[i + 1].clone(); i += 1; }
            "--tmp" => { tmp = args[i + 1].clone(); i += 1; }
            x => { eprintln!("unknown arg {}", x); std::process::exit(2); }
        }
        i += 1;
    }
    std::fs::create_dir_all(&tmp).expect("tmp dir");
    let scen = vq::read_ndjson(&inp);
    let mut w = BufWriter::new(std::fs::File::create(&out).expect("create out"));
    let mut store = PasswordStore::new();
    let mut n = 0usize;
    for sc in &scen {
        let id = sc["id"].clone();
        let mut ev = step(&mut store, &json!({"a": "reset"}), &cfg, &tmp);
        ev["sc"] = id.clone();
        ev["i"] = json!(0);
        vq::write_line(&mut w, &ev);
        if let Some(steps) = sc["steps"].as_array() {
            for (k, a) in steps.iter().enumerate() {
                let mut ev = step(&mut store, a, &cfg, &tmp);
                ev["sc"] = id.clone();
                ev["i"] = json!(k + 1);
                vq::write_line(&mut w, &ev);
                n += 1;
            }
        }
    }
    eprintln!("vq-auth: {} scenarios, {} events", scen.len(), n);
}
