//! Concretisation: abstract expression / query / action records (the JSON that TLC's ToJson or the
//! random driver produces) -> SQL text.  Contains no expectations.
use crate::val::lit_sql;
use serde_json::Value;

fn s<'a>(v: &'a Value, k: &str) -> &'a str {
    v[k].as_str().unwrap_or("")
}
fn arr<'a>(v: &'a Value, k: &str) -> &'a [Value] {
    v[k].as_array().map(|a| a.as_slice()).unwrap_or(&[])
}
fn b(v: &Value, k: &str) -> bool {
    v[k].as_bool().unwrap_or(false)
}

pub fn expr(e: &Value) -> String {
    match s(e, "k") {
        "lit" => lit_sql(&e["v"]),
        "col" => {
            if s(e, "q").is_empty() { s(e, "c").to_string() } else { format!("{}.{}", s(e, "q"), s(e, "c")) }
        }
        "cmp" => format!("({} {} {})", expr(&e["l"]), s(e, "op"), expr(&e["r"])),
        "arith" => format!("({} {} {})", expr(&e["l"]), s(e, "op"), expr(&e["r"])),
        "and" => format!("({} AND {})", expr(&e["l"]), expr(&e["r"])),
        "or" => format!("({} OR {})", expr(&e["l"]), expr(&e["r"])),
        "not" => format!("(NOT {})", expr(&e["l"])),
        "neg" => format!("(- {})", expr(&e["l"])),
        // VALUES(col) inside ON DUPLICATE KEY UPDATE: the value the statement wanted to insert
        "dkv" => format!("VALUES({})", s(e, "c")),
        "isnull" => format!("({} IS {}NULL)", expr(&e["l"]), if b(e, "neg") { "NOT " } else { "" }),
        "between" => format!(
            "({} {}BETWEEN {} AND {})",
            expr(&e["l"]),
            if b(e, "neg") { "NOT " } else { "" },
            expr(&e["lo"]),
            expr(&e["hi"])
        ),
        "inlist" => format!(
            "({} {}IN ({}))",
            expr(&e["l"]),
            if b(e, "neg") { "NOT " } else { "" },
            arr(e, "vs").iter().map(expr).collect::<Vec<_>>().join(", ")
        ),
        "like" => format!("({} {}LIKE {})", expr(&e["l"]), if b(e, "neg") { "NOT " } else { "" }, expr(&e["p"])),
        "coalesce" => format!("COALESCE({})", arr(e, "vs").iter().map(expr).collect::<Vec<_>>().join(", ")),
        "case" => {
            let mut t = String::from("CASE");
            for w in arr(e, "whens") {
                t += &format!(" WHEN {} THEN {}", expr(&w["c"]), expr(&w["v"]));
            }
            if s(&e["els"], "k") != "none" {
                t += &format!(" ELSE {}", expr(&e["els"]));
            }
            t + " END"
        }
        "scase" => {
            let mut t = format!("CASE {}", expr(&e["l"]));
            for w in arr(e, "whens") {
                t += &format!(" WHEN {} THEN {}", expr(&w["c"]), expr(&w["v"]));
            }
            if s(&e["els"], "k") != "none" {
                t += &format!(" ELSE {}", expr(&e["els"]));
            }
            t + " END"
        }
        "agg" => {
            if b(e, "star") {
                "COUNT(*)".to_string()
            } else {
                format!(
                    "{}({}{})",
                    s(e, "f").to_uppercase(),
                    if b(e, "distinct") { "DISTINCT " } else { "" },
                    expr(&e["arg"])
                )
            }
        }
        "scalar" => format!("({})", query(&e["q"])),
        "exists" => format!("({}EXISTS ({}))", if b(e, "neg") { "NOT " } else { "" }, query(&e["q"])),
        "insub" => format!("({} {}IN ({}))", expr(&e["l"]), if b(e, "neg") { "NOT " } else { "" }, query(&e["q"])),
        // raw SQL text for things outside the model (used by hostile-input scenarios)
        "raw" => s(e, "sql").to_string(),
        other => format!("/*?{}*/NULL", other),
    }
}

pub fn from(f: &Value) -> String {
    match s(f, "k") {
        "table" => {
            if s(f, "as") == s(f, "t") || s(f, "as").is_empty() {
                s(f, "t").to_string()
            } else {
                format!("{} AS {}", s(f, "t"), s(f, "as"))
            }
        }
        "derived" => format!("({}) AS {}", query(&f["q"]), s(f, "as")),
        "join" => {
            let l = from(&f["l"]);
            let r = from(&f["r"]);
            let r = if s(&f["r"], "k") == "join" { format!("({})", r) } else { r };
            match s(f, "jt") {
                "comma" => format!("{}, {}", l, r),
                "cross" => format!("{} CROSS JOIN {}", l, r),
                "left" => format!("{} LEFT JOIN {} ON {}", l, r, expr(&f["on"])),
                _ => format!("{} INNER JOIN {} ON {}", l, r, expr(&f["on"])),
            }
        }
        _ => String::new(),
    }
}

fn order_limit(q: &Value) -> String {
    let mut t = String::new();
    let ord = arr(q, "order");
    if !ord.is_empty() {
        let items: Vec<String> = ord
            .iter()
            .map(|o| {
                let pos = o["pos"].as_i64().unwrap_or(0);
                let key = if pos > 0 { pos.to_string() } else { expr(&o["e"]) };
                format!("{} {}", key, s(o, "dir").to_uppercase())
            })
            .collect();
        t += &format!(" ORDER BY {}", items.join(", "));
    }
    let lim = q["limit"].as_i64().unwrap_or(-1);
    let off = q["offset"].as_i64().unwrap_or(-1);
    if lim >= 0 {
        t += &format!(" LIMIT {}", lim);
    }
    if off >= 0 {
        t += &format!(" OFFSET {}", off);
    }
    t
}

pub fn query(q: &Value) -> String {
    if s(q, "k") == "setop" {
        let side = |x: &Value| {
            let t = query(x);
            if s(x, "k") == "setop" { format!("({})", t) } else { t }
        };
        // a set operation on the left is written without parentheses (chains are left-associative)
        return format!(
            "{} {}{} {}{}",
            query(&q["l"]),
            s(q, "op").to_uppercase(),
            if b(q, "all") { " ALL" } else { "" },
            side(&q["r"]),
            order_limit(q)
        );
    }
    let mut t = String::new();
    let with = arr(q, "with");
    if !with.is_empty() {
        let items: Vec<String> = with
            .iter()
            .map(|w| {
                let cols = arr(w, "cols");
                let cl = if cols.is_empty() {
                    String::new()
                } else {
                    format!(" ({})", cols.iter().map(|c| c.as_str().unwrap_or("")).collect::<Vec<_>>().join(", "))
                };
                format!("{}{} AS ({})", s(w, "n"), cl, query(&w["q"]))
            })
            .collect();
        t += &format!("WITH {} ", items.join(", "));
    }
    t += "SELECT ";
    if b(q, "distinct") {
        t += "DISTINCT ";
    }
    if b(q, "star") {
        t += "*";
    } else {
        let items: Vec<String> = arr(q, "sel")
            .iter()
            .map(|it| {
                let e = expr(&it["e"]);
                let a = s(it, "as");
                if a.is_empty() || (s(&it["e"], "k") == "col" && s(&it["e"], "c") == a) {
                    e
                } else {
                    format!("{} AS {}", e, a)
                }
            })
            .collect();
        t += &items.join(", ");
    }
    if s(&q["from"], "k") != "none" {
        t += &format!(" FROM {}", from(&q["from"]));
    }
    if s(&q["where"], "k") != "none" {
        t += &format!(" WHERE {}", expr(&q["where"]));
    }
    let grp = arr(q, "group");
    if !grp.is_empty() {
        t += &format!(" GROUP BY {}", grp.iter().map(expr).collect::<Vec<_>>().join(", "));
    }
    if s(&q["having"], "k") != "none" {
        t += &format!(" HAVING {}", expr(&q["having"]));
    }
    t + &order_limit(q)
}

fn names(v: &Value, k: &str) -> String {
    arr(v, k).iter().map(|c| c.as_str().unwrap_or("")).collect::<Vec<_>>().join(", ")
}

fn fk_action(a: &str) -> &'static str {
    match a {
        "cascade" => "CASCADE",
        "setnull" => "SET NULL",
        "restrict" => "RESTRICT",
        "setdefault" => "SET DEFAULT",
        _ => "NO ACTION",
    }
}

pub fn create_table(a: &Value) -> String {
    let mut items: Vec<String> = Vec::new();
    for c in arr(a, "cols") {
        let mut t = format!("{} {}", s(c, "n"), s(c, "ty"));
        if s(&c["def"], "t") != "" && s(&c["def"], "t") != "none" {
            t += &format!(" DEFAULT {}", lit_sql(&c["def"]));
        }
        if b(c, "nn") {
            t += " NOT NULL";
        }
        if b(c, "pk") {
            t += " PRIMARY KEY";
        }
        if b(c, "uq") {
            t += " UNIQUE";
        }
        items.push(t);
    }
    if !arr(a, "pk").is_empty() {
        items.push(format!("PRIMARY KEY ({})", names(a, "pk")));
    }
    for u in arr(a, "uqs") {
        items.push(format!(
            "UNIQUE ({})",
            u.as_array().map(|x| x.iter().map(|c| c.as_str().unwrap_or("")).collect::<Vec<_>>().join(", ")).unwrap_or_default()
        ));
    }
    for c in arr(a, "checks") {
        items.push(format!("CHECK ({})", expr(c)));
    }
    for f in arr(a, "fks") {
        let mut t = format!("FOREIGN KEY ({}) REFERENCES {} ({})", names(f, "cols"), s(f, "rt"), names(f, "rcols"));
        if !s(f, "ondel").is_empty() && s(f, "ondel") != "noaction" {
            t += &format!(" ON DELETE {}", fk_action(s(f, "ondel")));
        }
        if !s(f, "onupd").is_empty() && s(f, "onupd") != "noaction" {
            t += &format!(" ON UPDATE {}", fk_action(s(f, "onupd")));
        }
        items.push(t);
    }
    format!("CREATE TABLE {} ({})", s(a, "t"), items.join(", "))
}

/// One abstract action -> the SQL text that performs it ("" when the action is not SQL text).
pub fn action(a: &Value) -> String {
    if b(a, "lc") {
        // same statement with the table name spelled in lower case (unquoted identifiers are case-insensitive)
        let mut a2 = a.clone();
        a2["lc"] = Value::Bool(false);
        if let Some(t) = a["t"].as_str() {
            a2["t"] = Value::String(t.to_lowercase());
        }
        if let Some(n) = a["n"].as_str() {
            a2["n"] = Value::String(n.to_lowercase());
        }
        return action(&a2);
    }
    match s(a, "a") {
        "ct" => create_table(a),
        "dt" => format!("DROP TABLE {}", s(a, "t")),
        "ins" => {
            let cols = if arr(a, "cols").is_empty() { String::new() } else { format!(" ({})", names(a, "cols")) };
            let rows: Vec<String> = arr(a, "rows")
                .iter()
                .map(|r| {
                    format!(
                        "({})",
                        r.as_array()
                            .map(|x| x.iter().map(|v| if v.get("k").is_some() { expr(v) } else { lit_sql(v) }).collect::<Vec<_>>().join(", "))
                            .unwrap_or_default()
                    )
                })
                .collect();
            let verb = if s(a, "mode") == "replace" { "REPLACE" } else { "INSERT" };
            let mut t = format!("{} INTO {}{} VALUES {}", verb, s(a, "t"), cols, rows.join(", "));
            if s(a, "mode") == "odku" {
                let sets: Vec<String> = arr(a, "set").iter().map(|x| format!("{} = {}", s(x, "c"), expr(&x["e"]))).collect();
                t += &format!(" ON DUPLICATE KEY UPDATE {}", sets.join(", "));
            }
            t
        }
        "inssel" => {
            let cols = if arr(a, "cols").is_empty() { String::new() } else { format!(" ({})", names(a, "cols")) };
            format!("INSERT INTO {}{} {}", s(a, "t"), cols, query(&a["q"]))
        }
        "upd" => {
            let sets: Vec<String> = arr(a, "set").iter().map(|x| format!("{} = {}", s(x, "c"), expr(&x["e"]))).collect();
            let mut t = format!("UPDATE {} SET {}", s(a, "t"), sets.join(", "));
            if s(&a["w"], "k") != "none" {
                t += &format!(" WHERE {}", expr(&a["w"]));
            }
            t
        }
        "del" => {
            let mut t = format!("DELETE FROM {}", s(a, "t"));
            if s(&a["w"], "k") != "none" {
                t += &format!(" WHERE {}", expr(&a["w"]));
            }
            t
        }
        "trunc" => format!("TRUNCATE TABLE {}", s(a, "t")),
        "begin" => "BEGIN".into(),
        "commit" => "COMMIT".into(),
        "rollback" => "ROLLBACK".into(),
        "sp" => format!("SAVEPOINT {}", s(a, "n")),
        "rollto" => format!("ROLLBACK TO SAVEPOINT {}", s(a, "n")),
        "release" => format!("RELEASE SAVEPOINT {}", s(a, "n")),
        "ci" => {
            let cols: Vec<String> = arr(a, "cols")
                .iter()
                .map(|c| {
                    let mut t = s(c, "c").to_string();
                    let pl = c["plen"].as_i64().unwrap_or(0);
                    if pl > 0 {
                        t += &format!("({})", pl);
                    }
                    if s(c, "dir") == "desc" {
                        t += " DESC";
                    }
                    t
                })
                .collect();
            format!("CREATE {}INDEX {} ON {} ({})", if b(a, "uq") { "UNIQUE " } else { "" }, s(a, "n"), s(a, "t"), cols.join(", "))
        }
        "di" => format!("DROP INDEX {}", s(a, "n")),
        "cv" => {
            let cols = if arr(a, "cols").is_empty() { String::new() } else { format!(" ({})", names(a, "cols")) };
            format!("CREATE VIEW {}{} AS {}", s(a, "n"), cols, query(&a["q"]))
        }
        "dv" => format!("DROP VIEW {}", s(a, "n")),
        "q" | "cq" => {
            if let Some(raw) = a["raw"].as_str() {
                raw.to_string()
            } else {
                query(&a["q"])
            }
        }
        "addcol" => {
            let c = &a["col"];
            let mut t = format!("ALTER TABLE {} ADD COLUMN {} {}", s(a, "t"), s(c, "n"), s(c, "ty"));
            if s(&c["def"], "t") != "" && s(&c["def"], "t") != "none" {
                t += &format!(" DEFAULT {}", lit_sql(&c["def"]));
            }
            t
        }
        "dropcol" => format!("ALTER TABLE {} DROP COLUMN {}", s(a, "t"), s(a, "c")),
        // the parser has no RENAME COLUMN; MySQL-style CHANGE COLUMN old new <type> renames
        "rencol" => format!("ALTER TABLE {} CHANGE COLUMN {} {} {}", s(a, "t"), s(a, "c"), s(a, "to"), s(a, "ty")),
        "addcheck" => format!("ALTER TABLE {} ADD CONSTRAINT {} CHECK ({})", s(a, "t"), s(a, "n"), expr(&a["e"])),
        "adduq" => format!("ALTER TABLE {} ADD CONSTRAINT {} UNIQUE ({})", s(a, "t"), s(a, "n"), names(a, "cols")),
        "addfk" => {
            let f = &a["fk"];
            let mut t = format!(
                "ALTER TABLE {} ADD CONSTRAINT {} FOREIGN KEY ({}) REFERENCES {} ({})",
                s(a, "t"), s(a, "n"), names(f, "cols"), s(f, "rt"), names(f, "rcols")
            );
            if !s(f, "ondel").is_empty() && s(f, "ondel") != "noaction" {
                t += &format!(" ON DELETE {}", fk_action(s(f, "ondel")));
            }
            if !s(f, "onupd").is_empty() && s(f, "onupd") != "noaction" {
                t += &format!(" ON UPDATE {}", fk_action(s(f, "onupd")));
            }
            t
        }
        "dropcons" => format!("ALTER TABLE {} DROP CONSTRAINT {}", s(a, "t"), s(a, "n")),
        "crole" => format!("CREATE ROLE {}", s(a, "r")),
        "grant" => format!("GRANT {} ON {} TO {}", s(a, "p").to_uppercase(), s(a, "t"), s(a, "r")),
        "revoke" => format!("REVOKE {} ON {} FROM {}", s(a, "p").to_uppercase(), s(a, "t"), s(a, "r")),
        "sql" => s(a, "sql").to_string(),
        _ => String::new(),
    }
}
