//! RUN: execute abstract actions on the real engine and project the real state back to the
//! abstract vocabulary.  No expectations live here.
use crate::render;
use crate::val::{row_to_json, val_to_json};
use serde_json::{json, Map, Value};
use std::panic::{catch_unwind, AssertUnwindSafe};
use vibesql_ast::Statement;
use vibesql_storage::Database;

pub struct Outcome {
    pub out: &'static str, // ok | err | denied | panic | parse
    pub cnt: i64,
    pub rows: Option<Vec<vibesql_storage::Row>>,
    pub msg: String,
}

impl Outcome {
    fn ok(cnt: usize) -> Self {
        Outcome { out: "ok", cnt: cnt as i64, rows: None, msg: String::new() }
    }
}

fn classify(e: &vibesql_executor::ExecutorError) -> &'static str {
    match e {
        vibesql_executor::ExecutorError::PermissionDenied { .. } => "denied",
        _ => "err",
    }
}

macro_rules! run {
    ($e:expr) => {
        match $e {
            Ok(_) => Outcome::ok(0),
            Err(e) => Outcome { out: classify(&e), cnt: 0, rows: None, msg: format!("{}", e) },
        }
    };
}
macro_rules! run_cnt {
    ($e:expr) => {
        match $e {
            Ok(n) => Outcome::ok(n),
            Err(e) => Outcome { out: classify(&e), cnt: 0, rows: None, msg: format!("{}", e) },
        }
    };
}

/// Dispatch one parsed statement to the same public executors the CLI / bindings / test adapters use.
pub fn dispatch(db: &mut Database, stmt: Statement) -> Outcome {
    use vibesql_executor as x;
    match stmt {
        Statement::Select(s) => match x::SelectExecutor::new(db).execute(&s) {
            Ok(rows) => Outcome { out: "ok", cnt: rows.len() as i64, rows: Some(rows), msg: String::new() },
            Err(e) => Outcome { out: classify(&e), cnt: 0, rows: None, msg: format!("{}", e) },
        },
        Statement::CreateTable(s) => run!(x::CreateTableExecutor::execute(&s, db)),
        Statement::DropTable(s) => run!(x::DropTableExecutor::execute(&s, db)),
        Statement::AlterTable(s) => run!(x::AlterTableExecutor::execute(&s, db)),
        Statement::Insert(s) => run_cnt!(x::InsertExecutor::execute(db, &s)),
        Statement::Update(s) => run_cnt!(x::UpdateExecutor::execute(&s, db)),
        Statement::Delete(s) => run_cnt!(x::DeleteExecutor::execute(&s, db)),
        Statement::TruncateTable(s) => run_cnt!(x::TruncateTableExecutor::execute(&s, db)),
        Statement::BeginTransaction(s) => run!(x::BeginTransactionExecutor::execute(&s, db)),
        Statement::Commit(s) => run!(x::CommitExecutor::execute(&s, db)),
        Statement::Rollback(s) => run!(x::RollbackExecutor::execute(&s, db)),
        Statement::Savepoint(s) => run!(x::SavepointExecutor::execute(&s, db)),
        Statement::RollbackToSavepoint(s) => run!(x::RollbackToSavepointExecutor::execute(&s, db)),
        Statement::ReleaseSavepoint(s) => run!(x::ReleaseSavepointExecutor::execute(&s, db)),
        Statement::CreateIndex(s) => run!(x::IndexExecutor::execute(&s, db)),
        Statement::DropIndex(s) => run!(x::IndexExecutor::execute_drop(&s, db)),
        Statement::Reindex(s) => run!(x::IndexExecutor::execute_reindex(&s, db)),
        Statement::Analyze(s) => run!(x::AnalyzeExecutor::execute(&s, db)),
        Statement::CreateView(s) => run!(x::advanced_objects::execute_create_view(&s, db)),
        Statement::DropView(s) => run!(x::advanced_objects::execute_drop_view(&s, db)),
        Statement::CreateTrigger(s) => run!(x::TriggerExecutor::create_trigger(db, &s)),
        Statement::DropTrigger(s) => run!(x::TriggerExecutor::drop_trigger(db, &s)),
        Statement::CreateRole(s) => run!(x::RoleExecutor::execute_create_role(&s, db)),
        Statement::DropRole(s) => run!(x::RoleExecutor::execute_drop_role(&s, db)),
        Statement::Grant(s) => run!(x::GrantExecutor::execute_grant(&s, db)),
        Statement::Revoke(s) => run!(x::RevokeExecutor::execute_revoke(&s, db)),
        Statement::CreateSchema(s) => run!(x::SchemaExecutor::execute_create_schema(&s, db)),
        Statement::DropSchema(s) => run!(x::SchemaExecutor::execute_drop_schema(&s, db)),
        Statement::SetSchema(s) => run!(x::SchemaExecutor::execute_set_schema(&s, db)),
        Statement::SetVariable(s) => run!(x::SchemaExecutor::execute_set_variable(&s, db)),
        other => Outcome { out: "err", cnt: 0, rows: None, msg: format!("unsupported by harness: {:?}", std::mem::discriminant(&other)) },
    }
}

/// Execute SQL text; a panic anywhere (parser or executor) is data (out = "panic").
pub fn exec_sql(db: &mut Database, sql: &str) -> Outcome {
    let r = catch_unwind(AssertUnwindSafe(|| match vibesql_parser::Parser::parse_sql(sql) {
        Ok(stmt) => dispatch(db, stmt),
        Err(e) => Outcome { out: "parse", cnt: 0, rows: None, msg: format!("{}", e) },
    }));
    match r {
        Ok(o) => o,
        Err(p) => {
            let msg = if let Some(s) = p.downcast_ref::<&str>() {
                s.to_string()
            } else if let Some(s) = p.downcast_ref::<String>() {
                s.clone()
            } else {
                "panic".to_string()
            };
            Outcome { out: "panic", cnt: 0, rows: None, msg }
        }
    }
}

pub fn exec_stmt(db: &mut Database, stmt: Statement) -> Outcome {
    match catch_unwind(AssertUnwindSafe(|| dispatch(db, stmt))) {
        Ok(o) => o,
        Err(_) => Outcome { out: "panic", cnt: 0, rows: None, msg: "panic".into() },
    }
}

fn short(name: &str) -> String {
    match name.rsplit_once('.') {
        Some((_, t)) => t.to_string(),
        None => name.to_string(),
    }
}

pub struct ProjOpts {
    pub index_contents: bool,
}

/// Projection of the real database onto the abstract state (DESIGN.md 4.2).
pub fn project(db: &Database, opts: &ProjOpts) -> Value {
    let mut tabs = Map::new();
    let mut cols = Map::new();
    let mut hx = Map::new();
    let mut keys: Vec<&String> = db.tables.keys().collect();
    keys.sort();
    for k in keys {
        let t = &db.tables[k];
        let name = short(k);
        tabs.insert(name.clone(), Value::Array(t.scan().iter().map(|r| row_to_json(&r.values)).collect()));
        cols.insert(name.clone(), Value::Array(t.schema.columns.iter().map(|c| json!(c.name)).collect()));
        if opts.index_contents {
            let mut h = Map::new();
            if let Some(pk) = t.primary_key_index() {
                let mut ents: Vec<Value> = pk.iter().map(|(k, p)| json!([row_to_json(k), p])).collect();
                ents.sort_by_key(|v| v.to_string());
                h.insert("pk".into(), Value::Array(ents));
            } else {
                h.insert("pk".into(), json!([]));
            }
            let uq: Vec<Value> = t
                .unique_indexes()
                .iter()
                .map(|m| {
                    let mut ents: Vec<Value> = m.iter().map(|(k, p)| json!([row_to_json(k), p])).collect();
                    ents.sort_by_key(|v| v.to_string());
                    Value::Array(ents)
                })
                .collect();
            h.insert("uq".into(), Value::Array(uq));
            hx.insert(name, Value::Object(h));
        }
    }
    let mut tn: Vec<String> = db.list_tables();
    tn.sort();
    let mut ixn: Vec<String> = db.list_indexes();
    ixn.sort();
    let mut ix = Vec::new();
    let mut ic = Map::new();
    for n in &ixn {
        if let Some(m) = db.get_index(n) {
            ix.push(json!({
                "n": m.index_name.to_uppercase(),
                "t": short(&m.table_name).to_uppercase(),
                "uq": m.unique,
                "cols": m.columns.iter().map(|c| json!({
                    "c": c.column_name.to_uppercase(),
                    "dir": if matches!(c.direction, vibesql_ast::OrderDirection::Desc) {"desc"} else {"asc"},
                    "plen": c.prefix_length.unwrap_or(0)
                })).collect::<Vec<_>>()
            }));
        }
        if opts.index_contents {
            if let Some(d) = db.get_index_data(n) {
                let mut ents: Vec<Value> = d
                    .iter()
                    .map(|(k, p)| {
                        let mut p = p.clone();
                        p.sort();
                        json!([Value::Array(k.iter().map(val_to_json).collect()), p])
                    })
                    .collect();
                ents.sort_by_key(|v| v.to_string());
                ic.insert(n.to_uppercase(), Value::Array(ents));
            }
        }
    }
    let mut vw: Vec<String> = db.catalog.list_views();
    vw.sort();
    let mut tg: Vec<String> = db.catalog.list_triggers();
    tg.sort();
    let mut st = json!({
        "T": Value::Object(tabs),
        "C": Value::Object(cols),
        "tn": tn,
        "ix": ix,
        "vw": vw,
        "tg": tg,
        "txn": db.in_transaction(),
    });
    if opts.index_contents {
        st["hx"] = Value::Object(hx);
        st["ic"] = Value::Object(ic);
    }
    st
}

/// Per-process execution configuration (DESIGN.md 2.4).
#[derive(Clone, Debug)]
pub struct Config {
    pub name: String,
    /// drop CREATE INDEX / DROP INDEX / ANALYZE actions (twin configuration for C02)
    pub elide_index: bool,
    /// memory budget for user indexes in bytes (0 = default Database::new())
    pub index_budget: usize,
    pub index_contents: bool,
}

impl Default for Config {
    fn default() -> Self {
        Config { name: "default".into(), elide_index: false, index_budget: 0, index_contents: false }
    }
}

pub struct Engine {
    pub db: Database,
    pub cfg: Config,
    pub tmp: Option<tempfile::TempDir>,
}

pub fn fresh_db(cfg: &Config) -> (Database, Option<tempfile::TempDir>) {
    if cfg.index_budget > 0 {
        let dir = tempfile::tempdir().expect("tempdir");
        let mut c = vibesql_storage::database::DatabaseConfig::test_default();
        c.memory_budget = cfg.index_budget;
        c.spill_policy = vibesql_storage::database::SpillPolicy::SpillToDisk;
        let db = Database::with_path_and_config(dir.path().to_path_buf(), c);
        (db, Some(dir))
    } else {
        (Database::new(), None)
    }
}

impl Engine {
    pub fn new(cfg: Config) -> Self {
        let (db, tmp) = fresh_db(&cfg);
        Engine { db, cfg, tmp }
    }
    pub fn reset(&mut self) {
        let (db, tmp) = fresh_db(&self.cfg);
        self.db = db;
        self.tmp = tmp;
    }

    /// Execute one abstract action, return the event (without sc/i, which the caller adds).
    pub fn step(&mut self, a: &Value) -> Value {
        let kind = a["a"].as_str().unwrap_or("");
        let mut sql = render::action(a);
        let o = match kind {
            "reset" => {
                self.reset();
                Outcome::ok(0)
            }
            "ci" | "di" | "analyze" if self.cfg.elide_index => {
                sql = format!("-- elided: {}", sql);
                Outcome { out: "skip", cnt: 0, rows: None, msg: String::new() }
            }
            "analyze" => {
                sql = format!("ANALYZE {}", a["t"].as_str().unwrap_or(""));
                let t = a["t"].as_str().unwrap_or("");
                let stmt = vibesql_ast::AnalyzeStmt { table_name: if t.is_empty() { None } else { Some(t.to_string()) }, columns: None };
                exec_stmt(&mut self.db, Statement::Analyze(stmt))
            }
            "secon" => {
                self.db.enable_security();
                Outcome::ok(0)
            }
            "secoff" => {
                self.db.disable_security();
                Outcome::ok(0)
            }
            "setrole" => {
                let r = a["r"].as_str().unwrap_or("");
                self.db.set_role(if r.is_empty() { None } else { Some(r.to_string()) });
                Outcome::ok(0)
            }
            _ => exec_sql(&mut self.db, &sql),
        };
        let st = project(&self.db, &ProjOpts { index_contents: self.cfg.index_contents });
        let rows = match &o.rows {
            Some(rs) => Value::Array(rs.iter().map(|r| row_to_json(&r.values)).collect()),
            None => json!([]),
        };
        let mut msg = o.msg.clone();
        if msg.len() > 160 {
            let mut cut = 160;
            while !msg.is_char_boundary(cut) {
                cut -= 1;
            }
            msg.truncate(cut);
        }
        json!({"a": a, "sql": sql, "out": o.out, "cnt": o.cnt, "rows": rows, "msg": msg, "st": st, "cfg": self.cfg.name})
    }
}
