//! RUN: execute abstract actions on the real engine and project the real state back to the
//! abstract vocabulary.  No expectations live here.
use crate::render;
use crate::val::{row_to_json, val_to_json};
use serde_json::{json, Map, Value};
use std::panic::{catch_unwind, AssertUnwindSafe};
use vibesql_ast::Statement;
use vibesql_storage::Database;

pub struct Outcome {
    pub out: &'static str, // ok | err | denied | panic | parse
    pub cnt: i64,
    pub rows: Option<Vec<vibesql_storage::Row>>,
    pub msg: String,
}

impl Outcome {
    fn ok(cnt: usize) -> Self {
        Outcome { out: "ok", cnt: cnt as i64, rows: None, msg: String::new() }
    }
}

fn classify(e: &vibesql_executor::ExecutorError) -> &'static str {
    match e {
        vibesql_executor::ExecutorError::PermissionDenied { .. } => "denied",
        _ => "err",
    }
}

macro_rules! run {
    ($e:expr) => {
        match $e {
            Ok(_) => Outcome::ok(0),
            Err(e) => Outcome { out: classify(&e), cnt: 0, rows: None, msg: format!("{}", e) },
        }
    };
}
macro_rules! run_cnt {
    ($e:expr) => {
        match $e {
            Ok(n) => Outcome::ok(n),
            Err(e) => Outcome { out: classify(&e), cnt: 0, rows: None, msg: format!("{}", e) },
        }
    };
}

/// Dispatch one parsed statement to the same public executors the CLI / bindings / test adapters use.
pub fn dispatch(db: &mut Database, stmt: Statement) -> Outcome {
    use vibesql_executor as x;
    match stmt {
        Statement::Select(s) => match x::SelectExecutor::new(db).execute(&s) {
            Ok(rows) => Outcome { out: "ok", cnt: rows.len() as i64, rows: Some(rows), msg: String::new() },
            Err(e) => Outcome { out: classify(&e), cnt: 0, rows: None, msg: format!("{}", e) },
        },
        Statement::CreateTable(s) => run!(x::CreateTableExecutor::execute(&s, db)),
        Statement::DropTable(s) => run!(x::DropTableExecutor::execute(&s, db)),
        Statement::AlterTable(s) => run!(x::AlterTableExecutor::execute(&s, db)),
        Statement::Insert(s) => run_cnt!(x::InsertExecutor::execute(db, &s)),
        Statement::Update(s) => run_cnt!(x::UpdateExecutor::execute(&s, db)),
        Statement::Delete(s) => run_cnt!(x::DeleteExecutor::execute(&s, db)),
        Statement::TruncateTable(s) => run_cnt!(x::TruncateTableExecutor::execute(&s, db)),
        Statement::BeginTransaction(s) => run!(x::BeginTransactionExecutor::execute(&s, db)),
        Statement::Commit(s) => run!(x::CommitExecutor::execute(&s, db)),
        Statement::Rollback(s) => run!(x::RollbackExecutor::execute(&s, db)),
        Statement::Savepoint(s) => run!(x::SavepointExecutor::execute(&s, db)),
        Statement::RollbackToSavepoint(s) => run!(x::RollbackToSavepointExecutor::execute(&s, db)),
        Statement::ReleaseSavepoint(s) => run!(x::ReleaseSavepointExecutor::execute(&s, db)),
        Statement::CreateIndex(s) => run!(x::IndexExecutor::execute(&s, db)),
        Statement::DropIndex(s) => run!(x::IndexExecutor::execute_drop(&s, db)),
        Statement::Reindex(s) => run!(x::IndexExecutor::execute_reindex(&s, db)),
        Statement::Analyze(s) => run!(x::AnalyzeExecutor::execute(&s, db)),
        Statement::CreateView(s) => run!(x::advanced_objects::execute_create_view(&s, db)),
        Statement::DropView(s) => run!(x::advanced_objects::execute_drop_view(&s, db)),
        Statement::CreateTrigger(s) => run!(x::TriggerExecutor::create_trigger(db, &s)),
        Statement::DropTrigger(s) => run!(x::TriggerExecutor::drop_trigger(db, &s)),
        Statement::CreateRole(s) => run!(x::RoleExecutor::execute_create_role(&s, db)),
        Statement::DropRole(s) => run!(x::RoleExecutor::execute_drop_role(&s, db)),
        Statement::Grant(s) => run!(x::GrantExecutor::execute_grant(&s, db)),
        Statement::Revoke(s) => run!(x::RevokeExecutor::execute_revoke(&s, db)),
        Statement::CreateSchema(s) => run!(x::SchemaExecutor::execute_create_schema(&s, db)),
        Statement::DropSchema(s) => run!(x::SchemaExecutor::execute_drop_schema(&s, db)),
        Statement::SetSchema(s) => run!(x::SchemaExecutor::execute_set_schema(&s, db)),
        Statement::SetVariable(s) => run!(x::SchemaExecutor::execute_set_variable(&s, db)),
        other => Outcome { out: "err", cnt: 0, rows: None, msg: format!("unsupported by harness: {:?}", std::mem::discriminant(&other)) },
    }
}

/// Execute SQL text; a panic anywhere (parser or executor) is data (out = "panic").
pub fn exec_sql(db: &mut Database, sql: &str) -> Outcome {
    let r = catch_unwind(AssertUnwindSafe(|| match vibesql_parser::Parser::parse_sql(sql) {
        Ok(stmt) => dispatch(db, stmt),
        Err(e) => Outcome { out: "parse", cnt: 0, rows: None, msg: format!("{}", e) },
    }));
    match r {
        Ok(o) => o,
        Err(p) => {
            let msg = if let Some(s) = p.downcast_ref::<&str>() {
                s.to_string()
            } else if let Some(s) = p.downcast_ref::<String>() {
                s.clone()
            } else {
                "panic".to_string()
            };
            Outcome { out: "panic", cnt: 0, rows: None, msg }
        }
    }
}

pub fn exec_stmt(db: &mut Database, stmt: Statement) -> Outcome {
    match catch_unwind(AssertUnwindSafe(|| dispatch(db, stmt))) {
        Ok(o) => o,
        Err(_) => Outcome { out: "panic", cnt: 0, rows: None, msg: "panic".into() },
    }
}

fn short(name: &str) -> String {
    match name.rsplit_once('.') {
        Some((_, t)) => t.to_string(),
        None => name.to_string(),
    }
}

pub struct ProjOpts {
    pub index_contents: bool,
}

/// Projection of the real database onto the abstract state (DESIGN.md 4.2).
pub fn project(db: &Database, opts: &ProjOpts) -> Value {
    let mut tabs = Map::new();
    let mut cols = Map::new();
    let mut ccols = Map::new();
    let mut ctys = Map::new();
    let mut hx = Map::new();
    let mut keys: Vec<&String> = db.tables.keys().collect();
    keys.sort();
    for k in keys {
        let t = &db.tables[k];
        let name = short(k);
        tabs.insert(name.clone(), Value::Array(t.scan().iter().map(|r| row_to_json(&r.values)).collect()));
        cols.insert(name.clone(), Value::Array(t.schema.columns.iter().map(|c| json!(c.name)).collect()));
        ctys.insert(
            name.clone(),
            Value::Array(t.schema.columns.iter().map(|c| json!([c.name, format!("{:?}", c.data_type), c.nullable])).collect()),
        );
        if let Some(cs) = db.catalog.get_table(k) {
            ccols.insert(name.clone(), Value::Array(cs.columns.iter().map(|c| json!(c.name)).collect()));
        }
        if opts.index_contents {
            let mut h = Map::new();
            if let Some(pk) = t.primary_key_index() {
                let mut ents: Vec<Value> = pk.iter().map(|(k, p)| json!([row_to_json(k), p])).collect();
                ents.sort_by_key(|v| v.to_string());
                h.insert("pk".into(), Value::Array(ents));
            } else {
                h.insert("pk".into(), json!([]));
            }
            let uq: Vec<Value> = t
                .unique_indexes()
                .iter()
                .map(|m| {
                    let mut ents: Vec<Value> = m.iter().map(|(k, p)| json!([row_to_json(k), p])).collect();
                    ents.sort_by_key(|v| v.to_string());
                    Value::Array(ents)
                })
                .collect();
            h.insert("uq".into(), Value::Array(uq));
            hx.insert(name, Value::Object(h));
        }
    }
    let mut tn: Vec<String> = db.list_tables();
    tn.sort();
    let mut ixn: Vec<String> = db.list_indexes();
    ixn.sort();
    let mut ix = Vec::new();
    let mut ic = Map::new();
    let mut ia = Map::new();
    for n in &ixn {
        if let Some(m) = db.get_index(n) {
            ix.push(json!({
                "n": m.index_name.to_uppercase(),
                "t": short(&m.table_name).to_uppercase(),
                "uq": m.unique,
                "cols": m.columns.iter().map(|c| json!({
                    "c": c.column_name.to_uppercase(),
                    "dir": if matches!(c.direction, vibesql_ast::OrderDirection::Desc) {"desc"} else {"asc"},
                    "plen": c.prefix_length.unwrap_or(0)
                })).collect::<Vec<_>>()
            }));
        }
        if opts.index_contents {
            if let (Some(d), Some(m)) = (db.get_index_data(n), db.get_index(n)) {
                if let vibesql_storage::database::IndexData::DiskBacked { .. } = d {
                    // the disk-backed B+ tree cannot be iterated by key: look every key of the current rows up
                    // (prefix-truncated as the definition says) and log all stored row ids for the stale-entry check
                    if let Some(t) = db.get_table(&m.table_name) {
                        let mut seen = std::collections::BTreeMap::new();
                        for r in t.scan() {
                            let key: Vec<vibesql_types::SqlValue> = m
                                .columns
                                .iter()
                                .map(|c| {
                                    let v = t.schema.get_column_index(&c.column_name).map(|i| r.values[i].clone()).unwrap_or(vibesql_types::SqlValue::Null);
                                    match (&v, c.prefix_length) {
                                        (vibesql_types::SqlValue::Varchar(sv), Some(pl)) => vibesql_types::SqlValue::Varchar(sv.chars().take(pl as usize).collect()),
                                        (vibesql_types::SqlValue::Character(sv), Some(pl)) => vibesql_types::SqlValue::Character(sv.chars().take(pl as usize).collect()),
                                        // index keys hold numbers in their canonical (f64) form
                                        (vibesql_types::SqlValue::Integer(x), _) | (vibesql_types::SqlValue::Bigint(x), _) => vibesql_types::SqlValue::Double(*x as f64),
                                        (vibesql_types::SqlValue::Smallint(x), _) => vibesql_types::SqlValue::Double(*x as f64),
                                        _ => v,
                                    }
                                })
                                .collect();
                            let kj = Value::Array(key.iter().map(val_to_json).collect());
                            seen.entry(kj.to_string()).or_insert_with(|| {
                                let mut p = d.get(&key).unwrap_or_default();
                                p.sort();
                                json!([kj, p])
                            });
                        }
                        ic.insert(n.to_uppercase(), Value::Array(seen.into_values().collect()));
                        let mut all: Vec<usize> = d.values().flatten().collect();
                        all.sort();
                        ia.insert(n.to_uppercase(), json!(all));
                    }
                    continue;
                }
                let mut ents: Vec<Value> = d
                    .iter()
                    .map(|(k, p)| {
                        let mut p = p.clone();
                        p.sort();
                        json!([Value::Array(k.iter().map(val_to_json).collect()), p])
                    })
                    .collect();
                ents.sort_by_key(|v| v.to_string());
                ic.insert(n.to_uppercase(), Value::Array(ents));
            }
        }
    }
    let mut vw: Vec<String> = db.catalog.list_views();
    vw.sort();
    let mut tg: Vec<String> = db.catalog.list_triggers();
    tg.sort();
    let mut st = json!({
        "T": Value::Object(tabs),
        "C": Value::Object(cols),
        "CC": Value::Object(ccols),
        "CT": Value::Object(ctys),
        "tn": tn,
        "ix": ix,
        "vw": vw,
        "tg": tg,
        "txn": db.in_transaction(),
    });
    if opts.index_contents {
        st["hx"] = Value::Object(hx);
        st["ic"] = Value::Object(ic);
        st["ia"] = Value::Object(ia);
    }
    st
}

/// Per-process execution configuration (DESIGN.md 2.4).
#[derive(Clone, Debug)]
pub struct Config {
    pub name: String,
    /// drop CREATE INDEX / DROP INDEX / ANALYZE actions (twin configuration for C02)
    pub elide_index: bool,
    /// memory budget for user indexes in bytes (0 = default Database::new())
    pub index_budget: usize,
    pub index_contents: bool,
    /// execute every query a second time and log that result as rows2 / dg2 (repeatability, C04)
    pub twice: bool,
    /// log canonical digests of query results (dg: n, seq, bag); results with more rows than this are logged as digests only
    pub digest_above: Option<usize>,
    /// do not project the database state (large-scale scenarios; they are compared across configurations only)
    pub no_state: bool,
    /// give every database its own directory (needed whenever indexes may be disk-backed)
    pub own_dir: bool,
}

impl Default for Config {
    fn default() -> Self {
        Config {
            name: "default".into(),
            elide_index: false,
            index_budget: 0,
            index_contents: false,
            twice: false,
            digest_above: None,
            no_state: false,
            own_dir: false,
        }
    }
}

/// FNV-1a over the canonical JSON text: the harness only canonicalises, the comparison is made by the trace spec.
fn fnv(parts: &[String]) -> String {
    let mut h: u64 = 0xcbf29ce484222325;
    for p in parts {
        for b in p.as_bytes() {
            h ^= *b as u64;
            h = h.wrapping_mul(0x100000001b3);
        }
        h ^= 0xff;
        h = h.wrapping_mul(0x100000001b3);
    }
    format!("{:016x}", h)
}

pub fn digest(rows: &[vibesql_storage::Row]) -> Value {
    let texts: Vec<String> = rows.iter().map(|r| row_to_json(&r.values).to_string()).collect();
    let seq = fnv(&texts);
    let mut sorted = texts.clone();
    sorted.sort();
    json!({"n": rows.len(), "seq": seq, "bag": fnv(&sorted)})
}

/// Deterministic bulk rows for the large-scale scenarios: {"a":"load","t":..,"n":..,"seed":..,"cols":[{"kind":"seq"|"int"|"str","mod":m,"nullp":p}]}
pub fn load_sql(a: &Value) -> Vec<String> {
    let n = a["n"].as_u64().unwrap_or(0);
    let mut x: u64 = a["seed"].as_u64().unwrap_or(1).wrapping_mul(0x9E3779B97F4A7C15) | 1;
    let mut next = move || {
        x ^= x << 13;
        x ^= x >> 7;
        x ^= x << 17;
        x
    };
    let cols = a["cols"].as_array().cloned().unwrap_or_default();
    let mut stmts = Vec::new();
    let mut cur: Vec<String> = Vec::new();
    for i in 0..n {
        let vals: Vec<String> = cols
            .iter()
            .map(|c| {
                let m = c["mod"].as_u64().unwrap_or(10).max(1);
                let nullp = c["nullp"].as_u64().unwrap_or(0);
                let r = next();
                if nullp > 0 && (r >> 40) % 100 < nullp {
                    return "NULL".to_string();
                }
                match c["kind"].as_str().unwrap_or("int") {
                    "seq" => (i + 1).to_string(),
                    "str" => format!("'s{}'", r % m),
                    _ => (r % m).to_string(),
                }
            })
            .collect();
        cur.push(format!("({})", vals.join(", ")));
        if cur.len() == 500 || i + 1 == n {
            stmts.push(format!("INSERT INTO {} VALUES {}", a["t"].as_str().unwrap_or(""), cur.join(", ")));
            cur.clear();
        }
    }
    stmts
}

/// Deeply nested / very long inputs for the parser (C23): shape x depth.
pub fn nest_sql(shape: &str, n: usize) -> String {
    match shape {
        "paren" => format!("SELECT {}1{}", "(".repeat(n), ")".repeat(n)),
        "neg" => format!("SELECT {}1", "- ".repeat(n)),
        "not" => format!("SELECT 1 WHERE {}TRUE", "NOT ".repeat(n)),
        "case" => format!("SELECT {}1{}", "CASE WHEN TRUE THEN ".repeat(n), " END".repeat(n)),
        "subq" => format!("SELECT * FROM {}T{}", "(SELECT * FROM ".repeat(n), ") AS X".repeat(n)),
        "scalar" => format!("SELECT {}1{}", "(SELECT ".repeat(n), ")".repeat(n)),
        "func" => format!("SELECT {}1{}", "ABS(".repeat(n), ")".repeat(n)),
        "and" => format!("SELECT 1 WHERE {}TRUE", "TRUE AND ".repeat(n)),
        "plus" => format!("SELECT {}1", "1 + ".repeat(n)),
        "inlist" => format!("SELECT 1 WHERE 1 IN ({}1)", "1, ".repeat(n)),
        "cols" => format!("SELECT {}1 FROM T", "A, ".repeat(n)),
        "join" => format!("SELECT * FROM T{}", " JOIN T ON 1 = 1".repeat(n)),
        "union" => format!("SELECT 1{}", " UNION SELECT 1".repeat(n)),
        "notplus" => format!("SELECT 1 + {}1", "NOT ".repeat(n)),
        "interval" => format!("SELECT {}'1' DAY", "INTERVAL ".repeat(n)),
        "subqparen" => {
            // n levels in total: blocks of one subquery wrapped in 59 parentheses
            let k = std::cmp::max(1, n / 60);
            format!("SELECT {}1{}", format!("(SELECT {}", "(".repeat(59)).repeat(k), format!("{})", ")".repeat(59)).repeat(k))
        }
        "castnest" => format!("SELECT {}1{}", "CAST(".repeat(n), " AS INTEGER)".repeat(n)),
        "open" => "(".repeat(n),
        "quote" => format!("SELECT '{}", "x".repeat(n)),
        "ident" => format!("SELECT {}", "a".repeat(n)),
        "digits" => format!("SELECT {}", "9".repeat(n)),
        _ => String::new(),
    }
}

/// Decimal literal of the boundary value a * 2^63 + n.
fn big_literal(v: &Value) -> String {
    let a = v["a"].as_i64().unwrap_or(0) as i128;
    let n = v["n"].as_i64().unwrap_or(0) as i128;
    let x = a * (1i128 << 63) + n;
    if x < 0 { format!("(-{})", -x) } else { x.to_string() }
}

/// SQL for an arithmetic probe (C24): preparatory statements and the query whose single value is the observation.
pub fn arith_sql(a: &Value) -> (Vec<String>, String) {
    let op = a["op"].as_str().unwrap_or("+");
    let (x, y) = (big_literal(&a["x"]), big_literal(&a["y"]));
    let ctx = a["ctx"].as_str().unwrap_or("select");
    let e = |l: &str, r: &str| match op {
        "neg" => format!("(- {})", l),
        "/0" => format!("({} / 0)", l),
        "%0" => format!("({} % 0)", l),
        "sum2" => format!("({} + {})", l, r),
        o => format!("({} {} {})", l, o, r),
    };
    match ctx {
        "column" => {
            let mut pre = vec!["CREATE TABLE NB (K INTEGER, X BIGINT, Y BIGINT)".to_string()];
            if op == "sum2" {
                pre.push(format!("INSERT INTO NB VALUES (1, {}, 0)", x));
                pre.push(format!("INSERT INTO NB VALUES (2, {}, 0)", y));
                (pre, "SELECT SUM(X) FROM NB".to_string())
            } else {
                pre.push(format!("INSERT INTO NB VALUES (1, {}, {})", x, y));
                (pre, format!("SELECT {} FROM NB", e("X", "Y")))
            }
        }
        "where" => (
            vec!["CREATE TABLE NB (K INTEGER, X BIGINT, Y BIGINT)".to_string(), "INSERT INTO NB VALUES (1, 0, 0)".to_string()],
            format!("SELECT {} FROM NB WHERE {} = {}", e(&x, &y), e(&x, &y), e(&x, &y)),
        ),
        _ => (vec![], format!("SELECT {}", e(&x, &y))),
    }
}

/// Observation class of an arithmetic probe (see spec/Arith.tla).
pub fn arith_observation(o: &Outcome) -> Value {
    let cls = |k: &str, a: i64, n: i64| json!({"k": k, "a": a, "n": n});
    match o.out {
        "panic" => return cls("panic", 0, 0),
        "ok" => {}
        _ => return cls("err", 0, 0),
    }
    let rows = match &o.rows {
        Some(r) => r,
        None => return cls("other", 0, 0),
    };
    if rows.is_empty() {
        // the WHERE context filters on the value itself: no row means the comparison was not true (NULL or an error value)
        return cls("null", 0, 0);
    }
    if rows.len() != 1 || rows[0].values.len() != 1 {
        return cls("other", 0, 0);
    }
    let two63 = 1i128 << 63;
    let from_int = |v: i128| -> Value {
        let a = if v >= 0 { (v + two63 / 2) / two63 } else { -((-v + two63 / 2) / two63) };
        let n = v - a * two63;
        if n.abs() <= 64 { cls("int", a as i64, n as i64) } else { cls("other", 0, 0) }
    };
    let from_float = |f: f64| -> Value {
        if !f.is_finite() {
            return cls("other", 0, 0);
        }
        let t = 9223372036854775808.0f64;
        let a = (f / t).round();
        let n = f - a * t;
        if n.abs() <= 100000.0 && a.abs() <= 1000.0 {
            cls("float", a as i64, n.round() as i64)
        } else if a != 0.0 && a.abs() <= 1000.0 {
            cls("approx", a as i64, 0)
        } else {
            cls("other", 0, 0)
        }
    };
    use vibesql_types::SqlValue as V;
    match &rows[0].values[0] {
        V::Null => cls("null", 0, 0),
        V::Integer(i) | V::Bigint(i) => from_int(*i as i128),
        V::Smallint(i) => from_int(*i as i128),
        V::Unsigned(u) => from_int(*u as i128),
        V::Numeric(f) | V::Double(f) => from_float(*f),
        V::Float(f) | V::Real(f) => from_float(*f as f64),
        _ => cls("other", 0, 0),
    }
}

/// CREATE TRIGGER from the abstract definition; returns the statement and a readable rendering.
pub fn build_trigger(a: &Value) -> (Option<vibesql_ast::CreateTriggerStmt>, String) {
    use vibesql_ast::{TriggerAction, TriggerEvent, TriggerGranularity, TriggerTiming};
    let g = |k: &str| a[k].as_str().unwrap_or("").to_string();
    let ev = g("ev");
    let t = g("t");
    // column names of the subject table are passed with the action (c1, c2): OLD.c / NEW.c images
    let c1 = a["c"][0].as_str().unwrap_or("ID");
    let c2 = a["c"][1].as_str().unwrap_or("V");
    let img = |p: &str, c: &str| -> String {
        // statement-level triggers have no row images at all
        let has = a["gran"].as_str() == Some("row")
            && match (p, ev.as_str()) {
                ("OLD", "ins") => false,
                ("NEW", "del") => false,
                _ => true,
            };
        if has { format!("{}.{}", p, c) } else { "NULL".to_string() }
    };
    let body = &a["body"];
    let body_sql = match body["k"].as_str().unwrap_or("") {
        "audit" => format!(
            "INSERT INTO {} VALUES ('{}', {}, {}, {}, {})",
            body["into"].as_str().unwrap_or(""),
            body["tag"].as_str().unwrap_or(""),
            img("OLD", c1), img("OLD", c2), img("NEW", c1), img("NEW", c2)
        ),
        _ => format!(
            "INSERT INTO {} VALUES ({})",
            body["into"].as_str().unwrap_or(""),
            img(if body["src"].as_str() == Some("old") { "OLD" } else { "NEW" }, c2)
        ),
    };
    let when_sql = if a["when"]["k"].as_str().unwrap_or("none") == "none" { None } else { Some(render::expr(&a["when"])) };
    let when = match &when_sql {
        None => None,
        Some(w) => match vibesql_parser::Parser::parse_sql(&format!("SELECT 1 WHERE {}", w)) {
            Ok(Statement::Select(sel)) => sel.where_clause.clone().map(Box::new),
            _ => return (None, format!("-- cannot parse WHEN {}", w)),
        },
    };
    let ofcols: Vec<String> = a["ofcols"].as_array().map(|v| v.iter().filter_map(|x| x.as_str().map(|s| s.to_string())).collect()).unwrap_or_default();
    let event = match ev.as_str() {
        "ins" => TriggerEvent::Insert,
        "del" => TriggerEvent::Delete,
        _ => TriggerEvent::Update(if ofcols.is_empty() { None } else { Some(ofcols.clone()) }),
    };
    let text = format!(
        "CREATE TRIGGER {} {} {}{} ON {} FOR EACH {}{} {}",
        g("n"),
        g("timing").to_uppercase(),
        match ev.as_str() { "ins" => "INSERT", "del" => "DELETE", _ => "UPDATE" },
        if ofcols.is_empty() { String::new() } else { format!(" OF ({})", ofcols.join(", ")) },
        t,
        if g("gran") == "row" { "ROW" } else { "STATEMENT" },
        when_sql.as_ref().map(|w| format!(" WHEN ({})", w)).unwrap_or_default(),
        format!("BEGIN {}; END", body_sql)
    );
    let stmt = vibesql_ast::CreateTriggerStmt {
        trigger_name: g("n"),
        timing: if g("timing") == "before" { TriggerTiming::Before } else { TriggerTiming::After },
        event,
        table_name: t,
        granularity: if g("gran") == "row" { TriggerGranularity::Row } else { TriggerGranularity::Statement },
        when_condition: when,
        triggered_action: TriggerAction::RawSql(body_sql),
    };
    (Some(stmt), text)
}

/// Save `db` in the named format under `dir` and load the file into a new database.
pub fn save_and_load(db: &Database, fmt: &str, dir: &std::path::Path) -> Result<Database, String> {
    let e = |x: &dyn std::fmt::Display| format!("{}", x);
    match fmt {
        "binary" => {
            let p = dir.join("db.vbsql");
            db.save_binary(&p).map_err(|x| e(&x))?;
            Database::load_binary(&p).map_err(|x| e(&x))
        }
        "compressed" => {
            let p = dir.join("db.vbsqlz");
            db.save_compressed(&p).map_err(|x| e(&x))?;
            Database::load_compressed(&p).map_err(|x| e(&x))
        }
        "json" => {
            let p = dir.join("db.json");
            db.save_json(&p).map_err(|x| e(&x))?;
            Database::load_json(&p).map_err(|x| e(&x))
        }
        "sql" => {
            let p = dir.join("db.sql");
            db.save_sql_dump(&p).map_err(|x| e(&x))?;
            vibesql_executor::load_sql_dump(&p).map_err(|x| e(&x))
        }
        other => Err(format!("unknown format {}", other)),
    }
}

pub fn save_only(db: &Database, fmt: &str, dir: &std::path::Path) -> Result<std::path::PathBuf, String> {
    let e = |x: &dyn std::fmt::Display| format!("{}", x);
    let (name, r) = match fmt {
        "binary" => ("db.vbsql", db.save_binary(dir.join("db.vbsql")).map_err(|x| e(&x))),
        "compressed" => ("db.vbsqlz", db.save_compressed(dir.join("db.vbsqlz")).map_err(|x| e(&x))),
        "json" => ("db.json", db.save_json(dir.join("db.json")).map_err(|x| e(&x))),
        "sql" => ("db.sql", db.save_sql_dump(dir.join("db.sql")).map_err(|x| e(&x))),
        _ => ("", Err("unknown format".to_string())),
    };
    r.map(|_| dir.join(name))
}

/// Concrete value for an abstract value class {"c": type class, "v": value class} (DESIGN.md Appendix E).
pub fn class_value(v: &Value) -> vibesql_types::SqlValue {
    use vibesql_types::SqlValue as V;
    let c = v["c"].as_str().unwrap_or("");
    let x = v["v"].as_str().unwrap_or("");
    match (c, x) {
        (_, "null") => V::Null,
        ("int", "max") => V::Integer(i64::MAX),
        ("int", "min") => V::Integer(i64::MIN),
        ("int", "i32max") => V::Integer(i32::MAX as i64),
        ("int", "neg") => V::Integer(-1),
        ("int", _) => V::Integer(x.parse().unwrap_or(0)),
        ("bigint", "max") => V::Bigint(i64::MAX),
        ("bigint", "min") => V::Bigint(i64::MIN),
        ("bigint", _) => V::Bigint(x.parse().unwrap_or(0)),
        ("smallint", "max") => V::Smallint(i16::MAX),
        ("smallint", "min") => V::Smallint(i16::MIN),
        ("smallint", _) => V::Smallint(x.parse().unwrap_or(0)),
        ("double", "nan") => V::Double(f64::NAN),
        ("double", "inf") => V::Double(f64::INFINITY),
        ("double", "ninf") => V::Double(f64::NEG_INFINITY),
        ("double", "negzero") => V::Double(-0.0),
        ("double", "max") => V::Double(f64::MAX),
        ("double", "tiny") => V::Double(f64::MIN_POSITIVE),
        ("double", "frac") => V::Double(0.1 + 0.2),
        ("double", _) => V::Double(x.parse().unwrap_or(0.0)),
        ("bool", "true") => V::Boolean(true),
        ("bool", _) => V::Boolean(false),
        ("str", "empty") => V::Varchar(String::new()),
        ("str", "quote") => V::Varchar("it's \"q\"".into()),
        ("str", "backslash") => V::Varchar("a\\b\\".into()),
        ("str", "semicolon") => V::Varchar("a;b; c".into()),
        ("str", "newline") => V::Varchar("line1\nline2".into()),
        ("str", "dashdash") => V::Varchar("x\n-- not a comment\ny".into()),
        ("str", "unicode") => V::Varchar("h\u{e9}llo \u{4e16}\u{754c} \u{1f600}".into()),
        ("str", "nullword") => V::Varchar("NULL".into()),
        ("str", "sqlish") => V::Varchar("'); DROP TABLE TV; --".into()),
        ("str", "spaces") => V::Varchar("  lead and trail  ".into()),
        ("str", "crlf") => V::Varchar("Subject: x\r\nFrom: y\r\n".into()),
        ("str", "cr") => V::Varchar("a\rb\r".into()),
        ("str", "tab") => V::Varchar("a\tb\t".into()),
        ("str", "long600") => V::Varchar("0123456789abcdefghij".repeat(30)),
        ("chr", "uni") => V::Character("h\u{e9}\u{4e16}".into()),
        ("chr", "long280") => V::Character("abcdefg".repeat(40)),
        ("chr", _) => V::Character(x.to_string()),
        ("numeric", _) => V::Numeric(x.parse().unwrap_or(0.0)),
        ("real", _) => V::Real(x.parse().unwrap_or(0.0)),
        ("float", _) => V::Float(x.parse().unwrap_or(0.0)),
        ("str", _) => V::Varchar(x.to_string()),
        ("date", _) => x.parse::<vibesql_types::Date>().map(V::Date).unwrap_or(V::Null),
        ("time", _) => x.parse::<vibesql_types::Time>().map(V::Time).unwrap_or(V::Null),
        ("timestamp", _) => x.parse::<vibesql_types::Timestamp>().map(V::Timestamp).unwrap_or(V::Null),
        _ => V::Null,
    }
}

pub struct Engine {
    pub db: Database,
    pub cfg: Config,
    pub tmp: Option<tempfile::TempDir>,
    /// query result cache driven the way the sqllogictest adapter drives it (C25): signature from the SQL text, lookup, on a
    /// miss execute and insert with the tables extract_tables_from_select reports, invalidate_table(target) on writes
    pub cache: vibesql_executor::cache::QueryResultCache,
}

pub fn fresh_db(cfg: &Config) -> (Database, Option<tempfile::TempDir>) {
    if cfg.index_budget > 0 {
        let dir = tempfile::tempdir().expect("tempdir");
        let mut c = vibesql_storage::database::DatabaseConfig::test_default();
        c.memory_budget = cfg.index_budget;
        c.spill_policy = vibesql_storage::database::SpillPolicy::SpillToDisk;
        let db = Database::with_path_and_config(dir.path().to_path_buf(), c);
        (db, Some(dir))
    } else if cfg.own_dir {
        // disk-backed indexes of a Database without a path all live in one shared temp directory
        // (<tmp>/vibesql_indexes/<table>_<index>.idx): give every database its own directory
        let dir = tempfile::tempdir().expect("tempdir");
        let db = Database::with_path(dir.path().to_path_buf());
        (db, Some(dir))
    } else {
        (Database::new(), None)
    }
}

impl Engine {
    pub fn new(cfg: Config) -> Self {
        let (db, tmp) = fresh_db(&cfg);
        Engine { db, cfg, tmp, cache: vibesql_executor::cache::QueryResultCache::new(1000) }
    }
    pub fn reset(&mut self) {
        let (db, tmp) = fresh_db(&self.cfg);
        self.db = db;
        self.tmp = tmp;
        self.cache = vibesql_executor::cache::QueryResultCache::new(1000);
    }

    /// SELECT through the result cache.
    fn cached_query(&mut self, sql: &str, fill: i64) -> (Outcome, bool) {
        use vibesql_executor::cache::QuerySignature;
        let r = catch_unwind(AssertUnwindSafe(|| {
            let sig = QuerySignature::from_sql(sql);
            if let Some((rows, _schema)) = self.cache.get(&sig) {
                return (Outcome { out: "ok", cnt: rows.len() as i64, rows: Some(rows), msg: String::new() }, true);
            }
            match vibesql_parser::Parser::parse_sql(sql) {
                Ok(Statement::Select(sel)) => match vibesql_executor::SelectExecutor::new(&self.db).execute(&sel) {
                    Ok(rows) => {
                        let tables = vibesql_executor::cache::extract_tables_from_select(&sel);
                        let ts = vibesql_catalog::TableSchema::new("result".to_string(), vec![]);
                        let schema = vibesql_executor::schema::CombinedSchema::from_table("result".to_string(), ts);
                        self.cache.insert(sig.clone(), rows.clone(), schema.clone(), tables.clone());
                        if fill >= 2 {
                            // a second reader that missed at the same time stores its own (equal) result
                            if let Ok(rows2) = vibesql_executor::SelectExecutor::new(&self.db).execute(&sel) {
                                self.cache.insert(sig, rows2, schema, tables);
                            }
                        }
                        (Outcome { out: "ok", cnt: rows.len() as i64, rows: Some(rows), msg: String::new() }, false)
                    }
                    Err(e) => (Outcome { out: classify(&e), cnt: 0, rows: None, msg: format!("{}", e) }, false),
                },
                Ok(_) => (Outcome { out: "err", cnt: 0, rows: None, msg: "not a SELECT".into() }, false),
                Err(e) => (Outcome { out: "parse", cnt: 0, rows: None, msg: format!("{}", e) }, false),
            }
        }));
        r.unwrap_or((Outcome { out: "panic", cnt: 0, rows: None, msg: "panic".into() }, false))
    }

    /// C20: save the current database, damage the file as the fault says, load it in a child process
    /// (vq_load, address-space limit 3 GB, 20 s wall clock).  Outcome classes: ok | err | panic | abort | oom | hang | skip.
    fn corrupt_load(&mut self, a: &Value) -> (Outcome, String) {
        let fmt = a["fmt"].as_str().unwrap_or("");
        let dir = tempfile::tempdir().expect("tempdir");
        let path = match save_only(&self.db, fmt, dir.path()) {
            Ok(p) => p,
            Err(m) => return (Outcome { out: "err", cnt: 0, rows: None, msg: format!("save failed: {}", m) }, "-- save failed".into()),
        };
        let mut bytes = std::fs::read(&path).unwrap_or_default();
        let n = bytes.len() as i64;
        let f = &a["fault"];
        let at0 = f["at"].as_i64().unwrap_or(0);
        let at = if at0 < 0 { n + at0 } else { at0 };
        let desc = format!("-- {} file of {} bytes, fault {}", fmt, n, f);
        if at < 0 || at >= n.max(1) {
            return (Outcome { out: "skip", cnt: 0, rows: None, msg: String::new() }, desc);
        }
        let at = at as usize;
        match f["kind"].as_str().unwrap_or("") {
            "trunc" => bytes.truncate(at),
            "flip" => bytes[at] ^= 1u8 << (f["bit"].as_u64().unwrap_or(0) % 8),
            "set" => bytes[at] = f["v"].as_u64().unwrap_or(0) as u8,
            "set4" => {
                // overwrite a 4-byte window (length fields are u32): v = 0 | 1 | 7fffffff | ffffffff
                let v = u32::from_str_radix(f["v"].as_str().unwrap_or("0"), 16).unwrap_or(0).to_le_bytes();
                for k in 0..4 {
                    if at + k < bytes.len() {
                        bytes[at + k] = v[k];
                    }
                }
            }
            "garbage" => {
                let mut x: u64 = f["seed"].as_u64().unwrap_or(1) | 1;
                for b in bytes.iter_mut().skip(at) {
                    x ^= x << 13;
                    x ^= x >> 7;
                    x ^= x << 17;
                    *b = x as u8;
                }
            }
            _ => {}
        }
        std::fs::write(&path, &bytes).expect("write damaged file");
        let exe = std::env::current_exe().ok().and_then(|p| p.parent().map(|d| d.join("vq_load"))).expect("vq_load path");
        let cmd = format!("ulimit -v 3000000; exec timeout 20 {} {} {}", exe.display(), fmt, path.display());
        let out = std::process::Command::new("sh").arg("-c").arg(&cmd).output();
        let (cls, msg): (&'static str, String) = match out {
            Ok(o) => {
                let err = String::from_utf8_lossy(&o.stderr).to_string();
                match o.status.code() {
                    Some(0) => ("ok", String::new()),
                    Some(1) => ("err", err),
                    Some(3) => ("panic", err),
                    Some(124) => ("hang", err),
                    Some(c) => {
                        if err.contains("memory allocation") || err.contains("capacity overflow") { ("oom", err) } else if c == 134 || c == 139 { ("abort", err) } else { ("abort", format!("exit {} {}", c, err)) }
                    }
                    None => {
                        if err.contains("memory allocation") { ("oom", err) } else { ("abort", format!("signal {}", err)) }
                    }
                }
            }
            Err(e) => ("err", format!("spawn failed: {}", e)),
        };
        (Outcome { out: cls, cnt: 0, rows: None, msg }, desc)
    }

    /// Execute one abstract action, return the event (without sc/i, which the caller adds).
    pub fn step(&mut self, a: &Value) -> Value {
        let kind = a["a"].as_str().unwrap_or("");
        let mut sql = render::action(a);
        let mut arith_obs: Option<Value> = None;
        let o = match kind {
            "reset" => {
                self.reset();
                Outcome::ok(0)
            }
            "ci" | "di" | "analyze" if self.cfg.elide_index => {
                sql = format!("-- elided: {}", sql);
                Outcome { out: "skip", cnt: 0, rows: None, msg: String::new() }
            }
            "analyze" => {
                sql = format!("ANALYZE {}", a["t"].as_str().unwrap_or(""));
                let t = a["t"].as_str().unwrap_or("");
                let stmt = vibesql_ast::AnalyzeStmt { table_name: if t.is_empty() { None } else { Some(t.to_string()) }, columns: None };
                exec_stmt(&mut self.db, Statement::Analyze(stmt))
            }
            "ctrg" => {
                // triggers are created through the AST (the parser stores trigger bodies as formatted tokens that
                // cannot be executed later; the repository's own tests build CreateTriggerStmt with RawSql as well)
                // through the SQL front end (CREATE TRIGGER ... BEGIN <body>; END); VQ_TRIGGER_AST=1 builds the
                // statement from the AST instead, as the repository's own tests do
                let (stmt, text) = build_trigger(a);
                sql = text;
                if std::env::var("VQ_TRIGGER_AST").is_ok() {
                    match stmt {
                        Some(st) => exec_stmt(&mut self.db, Statement::CreateTrigger(st)),
                        None => Outcome { out: "err", cnt: 0, rows: None, msg: "cannot build trigger".into() },
                    }
                } else {
                    exec_sql(&mut self.db, &sql)
                }
            }
            "dtrg" => {
                sql = format!("DROP TRIGGER {}", a["n"].as_str().unwrap_or(""));
                exec_sql(&mut self.db, &sql)
            }
            "secon" => {
                self.db.enable_security();
                Outcome::ok(0)
            }
            "secoff" => {
                self.db.disable_security();
                Outcome::ok(0)
            }
            "setrole" => {
                let r = a["r"].as_str().unwrap_or("");
                self.db.set_role(if r.is_empty() { None } else { Some(r.to_string()) });
                Outcome::ok(0)
            }
            "arith" => {
                let (stmts, q) = arith_sql(a);
                sql = q.clone();
                let mut res: Option<Outcome> = None;
                for st in &stmts {
                    let o = exec_sql(&mut self.db, st);
                    if o.out != "ok" {
                        res = Some(o);
                        break;
                    }
                }
                let o = res.unwrap_or_else(|| exec_sql(&mut self.db, &q));
                // clean up the scratch tables of the "column" context
                let _ = exec_sql(&mut self.db, "DROP TABLE NB");
                arith_obs = Some(arith_observation(&o));
                o
            }
            "parse" | "nest" => {
                sql = if kind == "parse" {
                    a["toks"].as_array().map(|t| t.iter().filter_map(|x| x.as_str()).collect::<Vec<_>>().join(" ")).unwrap_or_default()
                } else {
                    nest_sql(a["shape"].as_str().unwrap_or(""), a["n"].as_u64().unwrap_or(1) as usize)
                };
                let text = sql.clone();
                if sql.len() > 300 {
                    sql = format!("{} ... ({} bytes)", &text.chars().take(120).collect::<String>(), text.len());
                }
                match catch_unwind(AssertUnwindSafe(|| vibesql_parser::Parser::parse_sql(&text).map(|_| ()))) {
                    Ok(Ok(())) => Outcome::ok(0),
                    Ok(Err(e)) => Outcome { out: "parse", cnt: 0, rows: None, msg: format!("{}", e) },
                    Err(_) => Outcome { out: "panic", cnt: 0, rows: None, msg: "panic in parser".into() },
                }
            }
            "sane" => {
                sql = "SELECT 1".to_string();
                exec_sql(&mut self.db, &sql)
            }
            "cq" => {
                let (o, hit) = self.cached_query(&sql, a["fill"].as_i64().unwrap_or(1));
                if hit {
                    sql = format!("{} -- cache hit", sql);
                }
                o
            }
            "saveload" => {
                sql = format!("-- save as {} and load back", a["fmt"].as_str().unwrap_or(""));
                let dir = tempfile::tempdir().expect("tempdir");
                match catch_unwind(AssertUnwindSafe(|| save_and_load(&self.db, a["fmt"].as_str().unwrap_or(""), dir.path()))) {
                    Ok(Ok(db)) => {
                        self.db = db;
                        self.tmp = Some(dir);
                        Outcome::ok(0)
                    }
                    Ok(Err(m)) => Outcome { out: "err", cnt: 0, rows: None, msg: m },
                    Err(_) => Outcome { out: "panic", cnt: 0, rows: None, msg: "panic in save/load".into() },
                }
            }
            "corruptload" => {
                let (o, d) = self.corrupt_load(a);
                sql = d;
                o
            }
            "apirow" => {
                // a row of value classes inserted through the storage API (values that have no SQL literal: NaN, -0.0 ...)
                let vals: Vec<vibesql_types::SqlValue> = a["vals"].as_array().map(|v| v.iter().map(class_value).collect()).unwrap_or_default();
                sql = format!("-- api insert into {}: {:?}", a["t"].as_str().unwrap_or(""), vals);
                let t = a["t"].as_str().unwrap_or("").to_string();
                match catch_unwind(AssertUnwindSafe(|| self.db.insert_row(&t, vibesql_storage::Row::new(vals)))) {
                    Ok(Ok(_)) => Outcome::ok(1),
                    Ok(Err(e)) => Outcome { out: "err", cnt: 0, rows: None, msg: format!("{}", e) },
                    Err(_) => Outcome { out: "panic", cnt: 0, rows: None, msg: "panic".into() },
                }
            }
            "load" => {
                let stmts = load_sql(a);
                sql = format!("-- load {} rows into {} ({} statements)", a["n"], a["t"].as_str().unwrap_or(""), stmts.len());
                let mut total = 0i64;
                let mut res = Outcome::ok(0);
                for s in &stmts {
                    let o = exec_sql(&mut self.db, s);
                    if o.out != "ok" {
                        res = o;
                        break;
                    }
                    total += o.cnt;
                }
                if res.out == "ok" {
                    res.cnt = total;
                }
                res
            }
            _ => exec_sql(&mut self.db, &sql),
        };
        // the cache protocol: a statement that writes a table invalidates the entries that depend on it
        if o.out == "ok" {
            if let ("ins" | "inssel" | "upd" | "del" | "trunc" | "dt", Some(t)) = (kind, a["t"].as_str()) {
                self.cache.invalidate_table(t);
            }
        }
        let st = if self.cfg.no_state {
            json!({})
        } else {
            project(&self.db, &ProjOpts { index_contents: self.cfg.index_contents })
        };
        let big = |n: usize| self.cfg.digest_above.map_or(false, |lim| n > lim);
        let rows = match &o.rows {
            Some(rs) if !big(rs.len()) => Value::Array(rs.iter().map(|r| row_to_json(&r.values)).collect()),
            _ => json!([]),
        };
        let mut extra = Map::new();
        if let (Some(_), Some(rs)) = (self.cfg.digest_above, &o.rows) {
            extra.insert("dg".into(), digest(rs));
        }
        if self.cfg.twice && (kind == "q" || kind == "cq") && o.out != "panic" {
            let o2 = exec_sql(&mut self.db, &sql);
            extra.insert("out2".into(), json!(o2.out));
            if let Some(rs) = &o2.rows {
                if !big(rs.len()) {
                    extra.insert("rows2".into(), Value::Array(rs.iter().map(|r| row_to_json(&r.values)).collect()));
                } else {
                    extra.insert("rows2".into(), json!([]));
                }
                if self.cfg.digest_above.is_some() {
                    extra.insert("dg2".into(), digest(rs));
                }
            } else {
                extra.insert("rows2".into(), json!([]));
            }
        }
        let mut msg = o.msg.clone();
        if msg.len() > 160 {
            let mut cut = 160;
            while !msg.is_char_boundary(cut) {
                cut -= 1;
            }
            msg.truncate(cut);
        }
        let mut ev = json!({"a": a, "sql": sql, "out": o.out, "cnt": o.cnt, "rows": rows, "msg": msg, "st": st, "cfg": self.cfg.name});
        for (k, v) in extra {
            ev[k] = v;
        }
        if let Some(o) = arith_obs {
            ev["o"] = o;
        }
        ev
    }
}
