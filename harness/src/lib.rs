//! vq: conformance harness binding the TLA+ specifications in /verif/spec to the vibesql code.
pub mod exec;
pub mod render;
pub mod val;

use std::io::{BufRead, Write};

/// Read ndjson lines into values.
pub fn read_ndjson(path: &str) -> Vec<serde_json::Value> {
    let f = std::fs::File::open(path).unwrap_or_else(|e| panic!("open {}: {}", path, e));
    std::io::BufReader::new(f)
        .lines()
        .filter_map(|l| {
            let l = l.ok()?;
            let t = l.trim();
            if t.is_empty() {
                None
            } else {
                Some(serde_json::from_str(t).unwrap_or_else(|e| panic!("bad json line {}: {}", t, e)))
            }
        })
        .collect()
}

pub fn write_line<W: Write>(w: &mut W, v: &serde_json::Value) {
    serde_json::to_writer(&mut *w, v).unwrap();
    w.write_all(b"\n").unwrap();
}

/// Silence the default panic printer: panics in the code under test are data.
pub fn quiet_panics() {
    if std::env::var("VQ_LOUD").is_ok() {
        return;
    }
    std::panic::set_hook(Box::new(|_| {}));
}
