//! SQL value <-> interchange JSON (uniformly typed records, see DESIGN.md 2.3).
//! {"t": "n"|"i"|"s"|"b"|"x", "n": int, "s": string, "d": int}
//!  - "i": number n/d (d = 1 for integral values, d = 10^6 for non-integral ones)
//!  - "x": a value outside the model (huge numbers, temporal values, special floats); s = canonical text
use serde_json::{json, Value};
use vibesql_types::SqlValue;

pub const SMALL: i64 = 1 << 30;
/// set by --exact-floats (C18/C19)
pub static EXACT_FLOATS: std::sync::atomic::AtomicBool = std::sync::atomic::AtomicBool::new(false);

pub fn jnull() -> Value {
    json!({"t":"n","n":0,"s":"","d":1})
}
pub fn jint(n: i64) -> Value {
    if n > -SMALL && n < SMALL {
        json!({"t":"i","n":n,"s":"","d":1})
    } else {
        json!({"t":"x","n":0,"s":format!("int:{}", n),"d":1})
    }
}
pub fn jstr(s: &str) -> Value {
    json!({"t":"s","n":0,"s":s,"d":1})
}
pub fn jbool(b: bool) -> Value {
    json!({"t":"b","n": if b {1} else {0},"s":"","d":1})
}
pub fn jfloat(f: f64) -> Value {
    if f == 0.0 && f.is_sign_negative() {
        // kept apart from 0: persistence must round-trip the sign (C18); compares equal to 0 by value elsewhere
        json!({"t":"x","n":0,"s":"float:-0","d":1})
    } else if f.is_finite() && f == f.trunc() && f.abs() < 9007199254740992.0 {
        // an integral float that an i64 holds exactly is that integer by value (index keys keep numbers as f64)
        jint(f as i64)
    } else if EXACT_FLOATS.load(std::sync::atomic::Ordering::Relaxed) {
        // persistence checks compare values exactly: a non-integral float is an opaque token carrying its shortest
        // round-trip representation
        json!({"t":"x","n":0,"s":format!("float:{:?}", f),"d":1})
    } else if f.is_finite() && f.abs() < 2000.0 {
        let scaled = (f * 1_000_000.0).round() as i64;
        json!({"t":"i","n":scaled,"s":"","d":1000000})
    } else if f.is_nan() {
        json!({"t":"x","n":0,"s":"float:nan","d":1})
    } else {
        json!({"t":"x","n":0,"s":format!("float:{:e}", f),"d":1})
    }
}

pub fn val_to_json(v: &SqlValue) -> Value {
    match v {
        SqlValue::Null => jnull(),
        SqlValue::Integer(n) | SqlValue::Bigint(n) => jint(*n),
        SqlValue::Smallint(n) => jint(*n as i64),
        SqlValue::Unsigned(n) => {
            if *n < SMALL as u64 {
                jint(*n as i64)
            } else {
                json!({"t":"x","n":0,"s":format!("int:{}", n),"d":1})
            }
        }
        SqlValue::Numeric(f) | SqlValue::Double(f) => jfloat(*f),
        SqlValue::Float(f) | SqlValue::Real(f) => jfloat(*f as f64),
        SqlValue::Varchar(s) | SqlValue::Character(s) => jstr(s),
        SqlValue::Boolean(b) => jbool(*b),
        other => json!({"t":"x","n":0,"s":format!("{}:{}", other.type_name(), other),"d":1}),
    }
}

pub fn row_to_json(vals: &[SqlValue]) -> Value {
    Value::Array(vals.iter().map(val_to_json).collect())
}

/// Render an interchange value as a SQL literal.
pub fn lit_sql(v: &Value) -> String {
    match v["t"].as_str().unwrap_or("n") {
        "n" => "NULL".to_string(),
        "i" => {
            let n = v["n"].as_i64().unwrap_or(0);
            let d = v["d"].as_i64().unwrap_or(1);
            if d == 1 {
                n.to_string()
            } else {
                // {:?} keeps the fraction point of an integral quotient (4/2 is the literal 2.0, not 2)
                format!("{:?}", n as f64 / d as f64)
            }
        }
        "s" => format!("'{}'", v["s"].as_str().unwrap_or("").replace('\'', "''")),
        "b" => if v["n"].as_i64().unwrap_or(0) != 0 { "TRUE".into() } else { "FALSE".into() },
        // opaque values carry their SQL text
        "x" => v["s"].as_str().unwrap_or("NULL").to_string(),
        _ => "NULL".to_string(),
    }
}
